"""Program specs (JSON-able), renderer to real Python source, loader.

A *program* is ``{"funcs": [member...], "classes": [class...]}``.

member = {"name", "kind", "async", "params", "decos", "owner"}
  kind   : function | method | static | class | pget | pset | pdel | init | new
  params : [{"name", "kind": po|pk|va|ko|vk, "default": bool}]  (self/cls included)
  decos  : nearest-the-function first: ["pre", cond] | ["post", cond] | ["snap", snap] | ["foreign", tag]
cond   = {"id", "args": [names], "err": default|class|instance|factory, "form": def|lambda|adef|aw|awo (awo: returns an awaitable object that is not a coroutine), "eargs": [names]}
snap   = {"id", "name", "args": [names], "form": def|lambda|adef|aw}
class  = {"name", "bases": [names], "dbc": bool, "root": dbc|metaclass|mixin-metaclass (how a root gets the meta-class), "invs": [inv nearest-first], "members": [member], "flavor": plain|slots}
inv    = {"id", "check_on": CALL|SETATTR|ALL, "err", "self": bool, "form": def|lambda}
"""
import importlib.util
import itertools
import os
import sys
from typing import Any, Dict, List, Optional

from vkit import probe

_COUNTER = itertools.count()


def P(name: str, kind: str = "pk", default: bool = False) -> Dict[str, Any]:
    return {"name": name, "kind": kind, "default": default}


def member_id(owner: Optional[str], m: Dict[str, Any]) -> str:
    base = m["name"]
    if m["kind"] in ("pget", "pset", "pdel"):
        base = "{}_{}".format(m["name"], m["kind"][1:])
    return "{}_{}".format(owner, base) if owner else base


def sig_text(params: List[Dict[str, Any]]) -> str:
    """Render a parameter list; defaults are hub-held unique tokens ``HUB.dflt("<name>")``."""
    parts = []
    kinds = [p["kind"] for p in params]
    seen_slash = False
    seen_star = False
    for i, p in enumerate(params):
        k = p["kind"]
        if k != "po" and not seen_slash and "po" in kinds[:i]:
            parts.append("/")
            seen_slash = True
        if k == "ko" and not seen_star and "va" not in kinds[:i]:
            parts.append("*")
            seen_star = True
        if k == "va":
            parts.append("*" + p["name"])
            seen_star = True
        elif k == "vk":
            parts.append("**" + p["name"])
        else:
            if p.get("default"):
                parts.append("{}=DFLT[{!r}]".format(p["name"], p.get("dkey", p["name"])))
            else:
                parts.append(p["name"])
    if "po" in kinds and not seen_slash:
        parts.append("/")
    return ", ".join(parts)


def got_text(names: List[str]) -> str:
    return "{" + ", ".join("{!r}: {}".format(n, n) for n in names) + "}"


def _err_kw(c: Dict[str, Any]) -> str:
    err = c.get("err", "default")
    if err == "default":
        return ""
    if err == "class":
        return ", error=HUB.errcls({!r})".format(c["id"])
    if err == "instance":
        return ", error=HUB.errinst({!r})".format(c["id"])
    if err == "factory":
        return ", error=e_{}".format(c["id"])
    if err == "method":
        return ", error=EHI_{}.make".format(c["id"])
    raise ValueError(err)


def render_helpers(c: Dict[str, Any], role: str, out: List[str]) -> None:
    """Emit the module-level ``def`` for a condition / capture / error factory."""
    cid = c["id"]
    args = c.get("args", [])
    form = c.get("form", "def")
    if role == "inv":
        if form == "def":
            if c.get("self", True):
                out.append("def i_{}(self):\n    return HUB.inv({!r}, self)\n".format(cid, cid))
            else:
                out.append("def i_{}():\n    return HUB.inv({!r}, None)\n".format(cid, cid))
    elif role == "snap":
        if form == "def":
            out.append("def s_{}({}):\n    return HUB.capture({!r}, {})\n".format(cid, ", ".join(args), cid, got_text(args)))
        elif form == "adef":
            out.append("async def s_{}({}):\n    return await HUB.acapture({!r}, {})\n".format(
                cid, ", ".join(args), cid, got_text(args)))
        elif form == "aw":
            out.append("def s_{}({}):\n    return HUB.acapture({!r}, {})\n".format(cid, ", ".join(args), cid, got_text(args)))
    else:
        if form == "def":
            out.append("def c_{}({}):\n    return HUB.cond({!r}, {})\n".format(cid, ", ".join(args), cid, got_text(args)))
        elif form == "adef":
            out.append("async def c_{}({}):\n    return await HUB.acond({!r}, {})\n".format(
                cid, ", ".join(args), cid, got_text(args)))
        elif form == "aw":
            out.append("def c_{}({}):\n    return HUB.acond({!r}, {})\n".format(cid, ", ".join(args), cid, got_text(args)))
        elif form == "awo":
            out.append("def c_{}({}):\n    return HUB.awaitable_cond({!r}, {})\n".format(cid, ", ".join(args), cid, got_text(args)))
    def earg_sig(eargs):
        # parameters of the factory that name call values may carry defaults; they must receive the call values all the same
        dflt = [n for n in eargs if n in c.get("edefaults", [])]
        plain = [n for n in eargs if n not in dflt]
        # ``eextra``: a defaulted parameter that names no call value at all (``lambda x, note=note: ...``) keeps its default
        extra = ["extra_note_=EDEFAULT"] if c.get("eextra") else []
        sig = plain + ["{}=EDEFAULT".format(n) for n in dflt] + extra
        # ``ekwonly``: from this position on the parameters are keyword-only (``lambda x, *, result: ...``); factories are called by
        # keyword, so the kind of a parameter makes no difference to what it must receive
        if c.get("ekwonly") is not None and sig:
            sig.insert(min(c["ekwonly"], len(sig) - 1), "*")
        return sig

    if c.get("err") == "factory":
        eargs = c.get("eargs", [])
        out.append("def e_{}({}):\n    return HUB.error({!r}, {})\n".format(cid, ", ".join(earg_sig(eargs)), cid, got_text(eargs)))
    if c.get("err") == "method":
        # the error given as a bound method (its receiver is deliberately not called ``self``: the factory may ask for ``self``)
        eargs = c.get("eargs", [])
        out.append("class EH_{c}:\n    def make({a}):\n        return HUB.error({c!r}, {g})\n\n\nEHI_{c} = EH_{c}()\n".format(
            c=cid, a=", ".join(["receiver_"] + earg_sig(eargs)), g=got_text(eargs)))


def deco_text(kind: str, c: Dict[str, Any]) -> str:
    if kind == "foreign":
        return "@foreign({!r})".format(c)
    cid = c["id"]
    form = c.get("form", "def")
    args = c.get("args", [])
    if kind == "snap":
        if form == "lambda":
            fn = "lambda {}: HUB.capture({!r}, {})".format(", ".join(args), cid, got_text(args))
        else:
            fn = "s_{}".format(cid)
        name = c.get("name")
        return "@icontract.snapshot({}{})".format(fn, ", name={!r}".format(name) if name is not None else "")
    if kind == "inv":
        if form == "lambda":
            if c.get("self", True):
                fn = "lambda self: HUB.inv({!r}, self)".format(cid)
            else:
                fn = "lambda: HUB.inv({!r}, None)".format(cid)
        else:
            fn = "i_{}".format(cid)
        check_on = c.get("check_on", "CALL")
        con = "" if check_on == "DEFAULT" else ", check_on=icontract.InvariantCheckEvent.{}".format(check_on)
        return "@icontract.invariant({}, description={!r}{}{})".format(fn, "D:" + cid, con, _err_kw(c))
    deco = "require" if kind == "pre" else "ensure"
    if c.get("shared"):
        # one decorator object, created once at module level and applied to several members (cf. ``render``)
        return "@SH_{}".format(cid)
    if form == "lambda":
        fn = "lambda {}: HUB.cond({!r}, {})".format(", ".join(args), cid, got_text(args))
    else:
        fn = "c_{}".format(cid)
    if c.get("via_helper"):
        # the decorator object is created inside a helper: every contract made this way records the same source location
        return "@MK({!r}, {}, description={!r}{})".format(deco, fn, "D:" + cid, _err_kw(c))
    return "@icontract.{}({}, description={!r}{})".format(deco, fn, "D:" + cid, _err_kw(c))


def render_member(owner: Optional[str], m: Dict[str, Any], indent: str, out: List[str]) -> None:
    mid = member_id(owner, m)
    kind = m["kind"]
    params = m["params"]
    lines = []
    if kind == "static":
        lines.append("@staticmethod")
    elif kind == "class":
        lines.append("@classmethod")
    elif kind == "pget":
        lines.append("@property")
    elif kind == "pset":
        # ``ext_of``: the accessor is added to the (inherited) property object of a base class: @Base.name.setter
        lines.append("@{}{}.setter".format(m["ext_of"] + "." if m.get("ext_of") else "", m["name"]))
    elif kind == "pdel":
        lines.append("@{}{}.deleter".format(m["ext_of"] + "." if m.get("ext_of") else "", m["name"]))
    if m.get("abstract"):
        lines.append("@abc.abstractmethod")
    for dk, c in reversed(m.get("decos", [])):
        lines.append(deco_text(dk, c))
    names = [p["name"] for p in params]
    is_async = m.get("async", False)
    lines.append("{}def {}({}):".format("async " if is_async else "", m["name"], sig_text(params)))
    if m.get("doc"):
        lines.append("    {!r}".format(m["doc"]))
    got = got_text(names)
    if kind == "init":
        for pre_stmt in m.get("pre_stmts", []):
            lines.append("    " + pre_stmt)
        lines.append("    HUB.body({!r}, {})".format(mid, got))
        lines.append("    HUB.last_body_result = None")
        for post_stmt in m.get("post_stmts", []):
            lines.append("    " + post_stmt)
    elif kind == "new":
        lines.append("    HUB.body({!r}, {})".format(mid, got))
        lines.append("    HUB.last_body_result = object.__new__({})".format(names[0]))
        lines.append("    return HUB.last_body_result")
    elif is_async:
        lines.append("    return await HUB.abody({!r}, {})".format(mid, got))
    else:
        for pre_stmt in m.get("pre_stmts", []):
            lines.append("    " + pre_stmt)
        lines.append("    return HUB.body({!r}, {})".format(mid, got))
    for ln in lines:
        out.append(indent + ln + "\n")
    out.append("\n")


def iter_contracts(prog: Dict[str, Any]):
    """Yield (role, contract, owner-name, member-or-None) for everything that needs a helper def."""
    for m in prog.get("funcs", []):
        for dk, c in m.get("decos", []):
            if dk != "foreign":
                yield dk, c, None, m
    for cls in prog.get("classes", []):
        for inv in cls.get("invs", []):
            yield "inv", inv, cls["name"], None
        for m in cls.get("members", []):
            for dk, c in m.get("decos", []):
                if dk != "foreign":
                    yield dk, c, cls["name"], m


PRELUDE = '''\
import abc
import functools
import icontract

EDEFAULT = object()  # default value of error-factory parameters that name call values


class PLAIN_MIXIN:
    """A base that was not created through the inheriting meta-class."""


def MK(kind, *args, **kwargs):
    return getattr(icontract, kind)(*args, **kwargs)

def foreign(tag):
    # (a tag ending in "~": the wrapper exposes __wrapped__ but does not copy the __dict__ of what it wraps - the attributes of a
    # checker below it are then not visible on it)
    updated = () if tag.endswith("~") else functools.WRAPPER_UPDATES
    def deco(func):
        if hasattr(func, "__call__") and __import__("inspect").iscoroutinefunction(func):
            @functools.wraps(func, updated=updated)
            async def awrapper(*args, **kwargs):
                HUB.log("foreign", tag, None, (args, kwargs))
                return await func(*args, **kwargs)
            return awrapper
        @functools.wraps(func, updated=updated)
        def wrapper(*args, **kwargs):
            HUB.log("foreign", tag, None, (args, kwargs))
            return func(*args, **kwargs)
        return wrapper
    return deco

'''


def render(prog: Dict[str, Any]) -> str:
    out = [PRELUDE]
    rendered = set()
    shared = []
    for role, c, _owner, _m in iter_contracts(prog):
        if c.get("shared"):
            if c["id"] in rendered:
                continue
            shared.append((role, c))
        rendered.add(c["id"])
        render_helpers(c, role, out)
    for role, c in shared:
        # a re-usable decorator object (its condition is a named function: a lambda outside of a decorator can not be re-read)
        out.append("SH_{} = icontract.{}(c_{}, description={!r}{})\n".format(
            c["id"], "require" if role == "pre" else "ensure", c["id"], "D:" + c["id"], _err_kw(c)))
    out.append("\n")
    for m in prog.get("funcs", []):
        out.append("try:\n")
        render_member(None, m, "    ", out)
        out.append("except BaseException as HUB_err:\n    HUB.definition_failed({!r}, HUB_err)\n".format(m["name"]))
        out.append("else:\n    HUB.defined({!r}, {})\n\n".format(m["name"], m["name"]))
    for cls in prog.get("classes", []):
        out.append("try:\n")
        for inv in reversed(cls.get("invs", [])):
            out.append("    " + deco_text("inv", inv) + "\n")
        bases = list(cls.get("bases", []))
        if not bases and cls.get("dbc", True):
            # a root of a contract-inheriting hierarchy: derived from DBC, or created through the meta-class directly
            bases = {"dbc": ["icontract.DBC"], "metaclass": ["metaclass=icontract.DBCMeta"],
                     "mixin-metaclass": ["PLAIN_MIXIN", "metaclass=icontract.DBCMeta"]}[cls.get("root", "dbc")]
        for extra in cls.get("extra_bases", []):
            bases.append(extra)
        for line in cls.get("class_decos", []):
            out.append("    " + line + "\n")
        out.append("    class {}{}:\n".format(cls["name"], "({})".format(", ".join(bases)) if bases else ""))
        body_start = len(out)
        if cls.get("flavor") == "slots":
            out.append("        __slots__ = {!r}\n".format(tuple(cls.get("slots", ()))))
        for line in cls.get("class_body", []):
            out.append("        " + line + "\n")
        for m in cls.get("members", []):
            render_member(cls["name"], m, "        ", out)
        if len(out) == body_start:
            out.append("        pass\n")
        out.append("except BaseException as HUB_err:\n    HUB.definition_failed({!r}, HUB_err)\n".format(cls["name"]))
        out.append("else:\n    HUB.defined({!r}, {})\n\n".format(cls["name"], cls["name"]))
    return "".join(out)


class Loaded:
    def __init__(self, hub: probe.Hub, module: Any, path: str, source: str) -> None:
        self.hub = hub
        self.module = module
        self.path = path
        self.source = source

    def get(self, name: str) -> Any:
        return self.hub.created.get(name)

    def unload(self) -> None:
        sys.modules.pop(self.module.__name__, None)
        try:
            os.unlink(self.path)
        except OSError:
            pass


class Defaults(dict):
    """Unique default objects per key, created on demand."""

    def __missing__(self, key: str) -> Any:
        val = probe.Tok("default:" + key)
        self[key] = val
        return val


def load_source(source: str, scratch: str, hub: Optional[probe.Hub] = None, extra_globals: Optional[Dict[str, Any]] = None) -> Loaded:
    """Write the source to a real file (icontract re-parses lambdas from disk) and execute it as a module."""
    hub = hub or probe.Hub()
    n = next(_COUNTER)
    modname = "vkit_gen_{}_{}".format(os.getpid(), n)
    path = os.path.join(scratch, modname + ".py")
    with open(path, "w") as fid:
        fid.write(source)
    spec = importlib.util.spec_from_file_location(modname, path)
    assert spec is not None and spec.loader is not None
    module = importlib.util.module_from_spec(spec)
    module.HUB = hub  # type: ignore
    module.DFLT = Defaults()  # type: ignore
    if extra_globals:
        module.__dict__.update(extra_globals)
    sys.modules[modname] = module
    sys.dont_write_bytecode = True
    spec.loader.exec_module(module)
    return Loaded(hub, module, path, source)


def load(prog: Dict[str, Any], scratch: str, hub: Optional[probe.Hub] = None) -> Loaded:
    return load_source(render(prog), scratch, hub)
