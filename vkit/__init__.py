"""vkit: runtime-monitoring machinery for the icontract properties C01..C20 (see /verif/DESIGN.md)."""
