"""Child process of the C15 check: run with python [-O|-OO] and ICONTRACT_SLOW set/unset; prints a JSON report.

usage: python c15_child.py <repo>
"""
import asyncio
import json
import sys

sys.path.insert(0, sys.argv[1])

import icontract  # noqa: E402  pylint: disable=wrong-import-position

assert icontract.__file__.startswith(sys.argv[1]), icontract.__file__

EVENTS = []
REPORT = {"debug": __debug__, "slow": bool(icontract.SLOW), "items": {}}


def probe(tag, value):
    EVENTS.append(tag)
    return value


def pre_pos(x):
    """The argument must be positive (python -OO strips this text: nothing the library does may depend on it)."""
    return probe("pre", x > 0)


def post_pos(result):
    """The result must be positive."""
    return probe("post", result > 0)


def post_old(result, OLD):
    return probe("post", result > 0 and OLD.x == result)


def snap_x(x):
    """The argument before the call."""
    return probe("snap", x)


def inv_pos(self):
    """The value stays positive."""
    return probe("inv", self.v > 0)


def enabled_values():
    return {"default": None, "true": True, "false": False, "slow": icontract.SLOW}


def kw(enabled):
    return {} if enabled is None else {"enabled": enabled}


def run_call(fn, *args):
    del EVENTS[:]
    try:
        res = fn(*args)
        if asyncio.iscoroutine(res):
            res = asyncio.run(res)
        return {"outcome": "return", "value": repr(res), "events": list(EVENTS)}
    except BaseException as err:  # pylint: disable=broad-except
        return {"outcome": "raise", "type": type(err).__name__, "message": str(err), "events": list(EVENTS)}


for ename, enabled in enabled_values().items():
    # ---- require on a plain function
    def f_req(x):
        probe("body", None)
        return x

    before = dict(vars(f_req))
    dec = icontract.require(pre_pos, "must be positive", **kw(enabled))(f_req)
    REPORT["items"]["require/function/" + ename] = {
        "same": dec is f_req, "vars_unchanged": dict(vars(f_req)) == before, "ok": run_call(dec, 1), "bad": run_call(dec, -1)}

    # ---- ensure + snapshot on a plain function
    def f_ens(x):
        probe("body", None)
        return x

    before = dict(vars(f_ens))
    dec = icontract.ensure(post_old, **kw(enabled))(f_ens)
    dec2 = icontract.snapshot(snap_x, **kw(enabled))(dec)
    REPORT["items"]["ensure+snapshot/function/" + ename] = {
        "same": dec is f_ens and dec2 is dec, "vars_unchanged": dict(vars(f_ens)) == before, "ok": run_call(dec2, 1), "bad": run_call(dec2, -1)}

    # ---- snapshot alone disabled on a function that has an (always enabled) postcondition
    def f_snap(x):
        probe("body", None)
        return x

    inner = icontract.ensure(post_pos, enabled=True)(f_snap)
    before = dict(vars(inner))
    n_snaps_before = len(inner.__postcondition_snapshots__)
    dec = icontract.snapshot(snap_x, name="q", **kw(enabled))(inner)
    REPORT["items"]["snapshot/function/" + ename] = {
        "same": dec is inner, "vars_unchanged": len(inner.__postcondition_snapshots__) == n_snaps_before,
        "ok": run_call(dec, 1), "bad": run_call(dec, -1)}

    # ---- a decorator (possibly disabled) stacked ABOVE a function that already carries an explicitly enabled checker
    def pre_true(x):
        return True

    def post_true(result):
        return True

    for what, make_inner, make_deco in (
            ("require-stacked", lambda fn: icontract.ensure(post_true, enabled=True)(fn), lambda: icontract.require(pre_pos, **kw(enabled))),
            ("ensure-stacked", lambda fn: icontract.require(pre_true, enabled=True)(fn), lambda: icontract.ensure(post_pos, **kw(enabled))),
            ("ensure-stacked-on-ensure", lambda fn: icontract.ensure(post_true, enabled=True)(fn), lambda: icontract.ensure(post_pos, **kw(enabled)))):
        def f_stacked(x):
            probe("body", None)
            return x

        inner = make_inner(f_stacked)
        sizes_before = (len(inner.__preconditions__), len(inner.__postconditions__), len(inner.__postcondition_snapshots__))
        keys_before = set(vars(inner))
        try:
            dec = make_deco()(inner)
        except BaseException as err:  # pylint: disable=broad-except
            REPORT["items"]["{}/function/{}".format(what, ename)] = {
                "same": False, "vars_unchanged": False, "decoration_error": "{}: {}".format(type(err).__name__, err),
                "ok": {"outcome": "raise", "type": type(err).__name__, "message": "decoration failed", "events": []},
                "bad": {"outcome": "raise", "type": type(err).__name__, "message": "decoration failed", "events": []}}
            continue
        sizes_after = (len(inner.__preconditions__), len(inner.__postconditions__), len(inner.__postcondition_snapshots__))
        REPORT["items"]["{}/function/{}".format(what, ename)] = {
            "same": dec is inner, "vars_unchanged": sizes_after == sizes_before and set(vars(inner)) == keys_before,
            "ok": run_call(dec, 1), "bad": run_call(dec, -1)}

    # ---- a decorator applied to a staticmethod OBJECT (written above @staticmethod, or called by hand on the descriptor): when it is
    # disabled, the very object comes back
    def f_static(x):
        probe("body", None)
        return x

    raw_static = staticmethod(f_static)
    dec = icontract.require(pre_pos, **kw(enabled))(raw_static)

    class HoldsStatic:
        m = dec

    REPORT["items"]["require/descriptor/" + ename] = {
        "same": dec is raw_static, "vars_unchanged": True, "ok": run_call(lambda: HoldsStatic.m(1)), "bad": run_call(lambda: HoldsStatic.m(-1))}

    def f_static2(x):
        probe("body", None)
        return x

    raw_static2 = staticmethod(f_static2)
    dec = icontract.ensure(post_pos, **kw(enabled))(raw_static2)

    class HoldsStatic2:
        m = dec

    REPORT["items"]["ensure/descriptor/" + ename] = {
        "same": dec is raw_static2, "vars_unchanged": True, "ok": run_call(lambda: HoldsStatic2.m(1)), "bad": run_call(lambda: HoldsStatic2.m(-1))}

    # ---- a (possibly disabled) ensure + snapshot pair above a cheap precondition that is always enabled: when the pair is disabled it is
    # absent - the function keeps the checker of the precondition and nothing else
    def f_mixed(x):
        probe("body", None)
        return x

    inner = icontract.require(lambda x: x > -100, enabled=True)(f_mixed)
    try:
        inner2 = icontract.ensure(post_old, **kw(enabled))(inner)
        dec = icontract.snapshot(snap_x, **kw(enabled))(inner2)
    except BaseException as err:  # pylint: disable=broad-except
        REPORT["items"]["ensure+snapshot/above-enabled-require/" + ename] = {
            "same": False, "vars_unchanged": False, "decoration_error": "{}: {}".format(type(err).__name__, err),
            "ok": {"outcome": "raise", "type": type(err).__name__, "message": "decoration failed", "events": []},
            "bad": {"outcome": "raise", "type": type(err).__name__, "message": "decoration failed", "events": []}}
    else:
        REPORT["items"]["ensure+snapshot/above-enabled-require/" + ename] = {
            "same": dec is inner2 and inner2 is inner, "vars_unchanged": True, "ok": run_call(dec, 1), "bad": run_call(dec, -1)}

    # ---- async function
    async def f_async(x):
        probe("body", None)
        return x

    before = dict(vars(f_async))
    dec = icontract.require(pre_pos, **kw(enabled))(f_async)
    REPORT["items"]["require/async/" + ename] = {
        "same": dec is f_async, "vars_unchanged": dict(vars(f_async)) == before, "ok": run_call(dec, 1), "bad": run_call(dec, -1)}

    # ---- members of a class: method, static, class method, property
    def m(self, x):
        probe("body", None)
        return x

    def s(x):
        probe("body", None)
        return x

    def c(cls, x):
        probe("body", None)
        return x

    def p(self):
        probe("body", None)
        return self.v

    dm = icontract.require(pre_pos, **kw(enabled))(m)
    ds = icontract.ensure(post_pos, **kw(enabled))(s)
    dc = icontract.require(pre_pos, **kw(enabled))(c)
    dp = icontract.ensure(post_pos, **kw(enabled))(p)

    class K(icontract.DBC):
        def __init__(self, v=1):
            self.v = v

        meth = dm
        stat = staticmethod(ds)
        clsm = classmethod(dc)
        prop = property(dp)

    for mname, same, okc, badc in (
        ("method", dm is m, lambda: K().meth(1), lambda: K().meth(-1)),
        ("static", ds is s, lambda: K.stat(1), lambda: K.stat(-1)),
        ("classmethod", dc is c, lambda: K.clsm(1), lambda: K.clsm(-1)),
        ("property", dp is p, lambda: K(1).prop, lambda: K(-1).prop),
    ):
        REPORT["items"]["member/{}/{}".format(mname, ename)] = {"same": same, "vars_unchanged": True, "ok": run_call(okc), "bad": run_call(badc)}

    # ---- invariant on a class (DBC and plain)
    for base_name, base in (("dbc", icontract.DBC), ("plain", object)):
        class Inv(base):  # type: ignore
            def __init__(self, v):
                self.v = v

            def get(self):
                probe("body", None)
                return self.v

            def set(self, v):
                probe("body", None)
                self.v = v

        orig_dict = dict(vars(Inv))
        dec = icontract.invariant(inv_pos, **kw(enabled))(Inv)
        members_same = all(vars(Inv).get(k) is v for k, v in orig_dict.items())
        no_new = set(vars(Inv)) == set(orig_dict)

        def ok_call(cls=Inv):
            return cls(1).get()

        def bad_call(cls=Inv):
            obj = cls(1)
            obj.set(-1)
            return "returned"

        REPORT["items"]["invariant/{}/{}".format(base_name, ename)] = {
            "same": dec is Inv and members_same, "vars_unchanged": no_new, "ok": run_call(ok_call), "bad": run_call(bad_call)}

    # ---- invariant (possibly disabled) on a plain sub-class of a class which carries an explicitly enabled invariant: the members
    # which the sub-class defines stay what they are
    @icontract.invariant(lambda self: self.v > -100, enabled=True)
    class InvBase:
        def __init__(self, v):
            self.v = v

        def get(self):
            probe("body", None)
            return self.v

    class InvSub(InvBase):
        def get(self):
            probe("body", None)
            return self.v

        def added(self, v):
            probe("body", None)
            self.v = v

        @property
        def prop(self):
            return self.v

    orig_dict = dict(vars(InvSub))
    dec = icontract.invariant(inv_pos, **kw(enabled))(InvSub)

    def ok_sub(cls=InvSub):
        return cls(1).get()

    def bad_sub(cls=InvSub):
        obj = cls(1)
        obj.added(-1)
        return "returned"

    REPORT["items"]["invariant/plainsub/" + ename] = {
        "same": dec is InvSub and all(vars(InvSub).get(k) is v for k, v in orig_dict.items()),
        "vars_unchanged": set(vars(InvSub)) == set(orig_dict), "ok": run_call(ok_sub), "bad": run_call(bad_sub)}

    # ---- invariants whose arguments only an ENABLED invariant refuses (an asynchronous condition, an invalid error): when the decorator
    # is disabled it is absent - nothing is validated, nothing is raised (the check skips these items when the decorator is enabled)
    async def async_condition(self):
        return True

    for what, make in (("invariant-async-condition", lambda: icontract.invariant(async_condition, **kw(enabled))),
                       ("invariant-invalid-error", lambda: icontract.invariant(inv_pos, error=42, **kw(enabled)))):
        class InvX:
            def __init__(self, v):
                self.v = v

            def get(self):
                probe("body", None)
                return self.v

        orig_dict = dict(vars(InvX))
        try:
            dec = make()(InvX)
        except BaseException as err:  # pylint: disable=broad-except
            REPORT["items"]["{}/plain/{}".format(what, ename)] = {
                "same": False, "vars_unchanged": False, "decoration_error": "{}: {}".format(type(err).__name__, err),
                "ok": {"outcome": "raise", "type": type(err).__name__, "message": "decoration failed", "events": []},
                "bad": {"outcome": "raise", "type": type(err).__name__, "message": "decoration failed", "events": []}}
        else:
            REPORT["items"]["{}/plain/{}".format(what, ename)] = {
                "same": dec is InvX and all(vars(InvX).get(k) is v for k, v in orig_dict.items()),
                "vars_unchanged": set(vars(InvX)) == set(orig_dict),
                "ok": run_call(lambda cls=InvX: cls(1).get()), "bad": run_call(lambda cls=InvX: cls(-1).get())}

    # ---- invariant with check_on=SETATTR
    class InvS:
        def __init__(self):
            self.v = 1

    orig_dict = dict(vars(InvS))
    dec = icontract.invariant(inv_pos, check_on=icontract.InvariantCheckEvent.SETATTR, **kw(enabled))(InvS)

    def ok_set(cls=InvS):
        o = cls()
        o.v = 2
        return "returned"

    def bad_set(cls=InvS):
        o = cls()
        o.v = -2
        return "returned"

    REPORT["items"]["invariant/setattr/" + ename] = {
        "same": dec is InvS and all(vars(InvS).get(k) is v for k, v in orig_dict.items()),
        "vars_unchanged": set(vars(InvS)) == set(orig_dict), "ok": run_call(ok_set), "bad": run_call(bad_set)}

    # ---- inherited contracts through DBC with enabled-ness of the base decorator
    class Base(icontract.DBC):
        @icontract.require(lambda x: probe("pre", x > 0), **kw(enabled))
        @icontract.ensure(lambda result: probe("post", result < 100), **kw(enabled))
        def f(self, x):
            probe("body", None)
            return x

    class Derived(Base):
        def f(self, x):
            probe("body", None)
            return x * 2

    REPORT["items"]["inherited/method/" + ename] = {"same": True, "vars_unchanged": True,
                                                    "ok": run_call(lambda: Derived().f(1)), "bad": run_call(lambda: Derived().f(-1)),
                                                    "bad2": run_call(lambda: Derived().f(60))}

# ---- scenarios with EXPLICITLY enabled contracts only: whatever they give, they give it in every interpreter mode
REPORT["cross_mode"] = {}


async def averdict(value):
    return value


def scenario(name, thunk):
    REPORT["cross_mode"][name] = run_call(thunk)


def _coroutine_invariant():
    @icontract.invariant(lambda self: averdict(False), enabled=True)
    class CI:
        def __init__(self):
            self.v = 1

    return type(CI()).__name__


def _coroutine_condition():
    @icontract.require(lambda x: averdict(False), enabled=True)
    def f(x):
        return x

    return f(1)


def _coroutine_capture():
    @icontract.snapshot(lambda x: averdict(x), name="s", enabled=True)
    @icontract.ensure(lambda OLD, result: True, enabled=True)
    def f(x):
        return x

    return f(1)


def _require_added_to_inherited_groups():
    class B0(icontract.DBC):
        @icontract.require(lambda x: x > 0, enabled=True)
        def f(self, x):
            return x

    class B1(B0):
        @icontract.require(lambda x: x < -100, enabled=True)
        def f(self, x):
            return x

    # a further precondition applied afterwards to a checker that holds two (inherited) groups
    B1.f = icontract.require(lambda x: x == 7, enabled=True)(B1.f)
    return [B1().f(7), len(B1.f.__preconditions__)]


def _weaken_enabled_base():
    class W0(icontract.DBC):
        @icontract.require(lambda x: x > 0, enabled=True)
        def f(self, x):
            return x

    class W1(W0):
        @icontract.require(lambda x: x < -10, enabled=True)
        def f(self, x):
            return x

    return [W1().f(5), W1().f(-20)]


def _weaken_enabled_base_violation():
    class V0(icontract.DBC):
        @icontract.require(lambda x: x > 0, enabled=True)
        def f(self, x):
            return x

    class V1(V0):
        @icontract.require(lambda x: x < -10, enabled=True)
        def f(self, x):
            return x

    return V1().f(-5)


def _invalid_error_argument():
    return icontract.require(lambda x: x > 0, error=42, enabled=True)


def _snapshot_without_postcondition():
    @icontract.snapshot(lambda x: x, enabled=True)
    def f(x):
        return x

    return f(1)


class Position:
    """A slice bound that is not an int (anything with __index__ will do, e.g. the integers of numpy)."""

    def __init__(self, at):
        self.at = at

    def __index__(self):
        return self.at

    def __repr__(self):
        return "Position({})".format(self.at)


def _slice_bound_with_index_method():
    @icontract.require(lambda xs, start, stop: len(xs[start:stop:Position(1)]) > 5, enabled=True)
    def f(xs, start, stop):
        return xs

    return f([1, 2, 3, 4], Position(1), Position(3))


def _result_parameter():
    @icontract.ensure(lambda result: result > 0, enabled=True)
    def f(result):
        return 1

    return f(5)


def _old_parameter():
    @icontract.snapshot(lambda x: x, name="x", enabled=True)
    @icontract.ensure(lambda OLD, result: OLD.x == result, enabled=True)
    def f(x, OLD=None):
        return x

    return f(1)


def _result_keyword():
    @icontract.ensure(lambda result: result == 1, enabled=True)
    def f(x, **kwargs):
        return 1

    return f(1, result=2)


def _result_parameter_async():
    @icontract.ensure(lambda result: result > 0, enabled=True)
    async def f(result):
        return 1

    return asyncio.run(f(5))


def _property_overrides_method():
    class M0(icontract.DBC):
        @icontract.ensure(lambda result: result > 0, enabled=True)
        def x(self):
            return 1

    class M1(M0):
        @property
        @icontract.ensure(lambda result: result > 0, enabled=True)
        def x(self):
            return 1

    return M1().x


def _constructor_is_a_callable_object():
    class Traced:
        """A decorator written as a class: what it returns is an object with __call__ and __get__, not a function."""

        def __init__(self, func):
            self.func = func

        def __get__(self, instance, owner):
            return self if instance is None else (lambda *args, **kwargs: self.func(instance, *args, **kwargs))

        def __call__(self, *args, **kwargs):
            return self.func(*args, **kwargs)

    @icontract.invariant(lambda self: self.v > 0, enabled=True)
    class A:
        @Traced
        def __init__(self, v):
            self.v = v

    return A(-1).v


for _name, _thunk in (("constructor-is-a-callable-object", _constructor_is_a_callable_object), ("slice-bound-with-index-method", _slice_bound_with_index_method), ("result-parameter", _result_parameter), ("OLD-parameter", _old_parameter), ("result-keyword", _result_keyword),
                      ("result-parameter-async", _result_parameter_async), ("property-overrides-method", _property_overrides_method), ("coroutine-invariant", _coroutine_invariant), ("coroutine-condition", _coroutine_condition),
                      ("coroutine-capture", _coroutine_capture), ("require-added-to-inherited-groups", _require_added_to_inherited_groups),
                      ("weaken-enabled-base", _weaken_enabled_base), ("weaken-enabled-base-violation", _weaken_enabled_base_violation),
                      ("invalid-error-argument", _invalid_error_argument), ("snapshot-without-postcondition", _snapshot_without_postcondition)):
    scenario(_name, _thunk)

print("REPORT=" + json.dumps(REPORT, sort_keys=True))
