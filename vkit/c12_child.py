"""Child process of the C12 check: the order in which the application imports icontract and asyncio must not matter.

usage: python c12_child.py <repo> <order>      order: icontract-first | asyncio-first | asyncio-inside-main

Every scenario makes the SAME call (same inputs, same state of the object) once alone and once while another call on the same
object / function is in flight in the task that spawned it; the report lists the verdict of each.
"""
import json
import sys

sys.path.insert(0, sys.argv[1])
ORDER = sys.argv[2]

if ORDER == "asyncio-first":
    import asyncio  # noqa: F401  pylint: disable=unused-import

ASYNCIO_LOADED_BEFORE_ICONTRACT = "asyncio" in sys.modules

import icontract  # noqa: E402  pylint: disable=wrong-import-position

assert icontract.__file__.startswith(sys.argv[1]), icontract.__file__

ASYNCIO_LOADED_BY_ICONTRACT = "asyncio" in sys.modules and not ASYNCIO_LOADED_BEFORE_ICONTRACT

if ORDER != "asyncio-inside-main":
    import asyncio  # noqa: E402,F811  pylint: disable=wrong-import-position,reimported


@icontract.invariant(lambda self: self.balance >= 0)
class Account:
    def __init__(self) -> None:
        self.balance = 10

    async def withdraw(self, amount: int) -> int:
        import asyncio as aio  # pylint: disable=import-outside-toplevel,reimported

        await aio.sleep(0)
        self.balance -= amount
        return self.balance

    def withdraw_now(self, amount: int) -> int:
        self.balance -= amount
        return self.balance

    async def settle(self, amount: int, how: str) -> str:
        """Fan the work out while this very call is in flight on the same account."""
        import asyncio as aio  # pylint: disable=import-outside-toplevel,reimported

        async def call_sync() -> int:
            return self.withdraw_now(amount)

        if how == "task-async":
            child = spawn(self.withdraw(amount))
        elif how == "task-sync":
            child = spawn(call_sync())
        else:
            child = aio.ensure_future(aio.to_thread(self.withdraw_now, amount))
        (outcome,) = await aio.gather(child, return_exceptions=True)
        self.balance = 10  # the verdict of *this* call must not depend on the child
        return verdict_of(outcome)

    def settle_sync(self, amount: int, loop) -> str:
        """A synchronous method in flight (called from a coroutine) creates the task; the task runs after it returned."""
        self.pending = loop.create_task(self.withdraw(amount), name="job")
        return "scheduled"


def spawn(coro):
    """A new task which carries the very name of the task that spawns it (applications name their tasks after the job they do)."""
    import asyncio as aio  # pylint: disable=import-outside-toplevel,reimported

    return aio.get_running_loop().create_task(coro, name=aio.current_task().get_name())


def positive(x: int) -> bool:
    return x > 0


async def positive_after_fanout(x: int) -> bool:
    """A condition of `checked` which starts another checked call of `checked` in a new task while it is being evaluated."""
    import asyncio as aio  # pylint: disable=import-outside-toplevel,reimported

    if x == 1000:
        (outcome,) = await aio.gather(spawn(checked(-1)), return_exceptions=True)
        FANOUT.append(verdict_of(outcome))
    return True


FANOUT = []


@icontract.require(positive_after_fanout)
@icontract.require(positive)
async def checked(x: int) -> int:
    return x


def verdict_of(outcome) -> str:
    if isinstance(outcome, icontract.ViolationError):
        return "ViolationError"
    if isinstance(outcome, BaseException):
        return "raised " + type(outcome).__name__
    return "returned {!r}".format(outcome)


async def main() -> dict:
    import asyncio as aio  # pylint: disable=import-outside-toplevel,reimported

    verdicts = {}
    aio.current_task().set_name("job")
    account = Account()
    (outcome,) = await aio.gather(spawn(account.withdraw(100)), return_exceptions=True)
    verdicts["method:alone"] = verdict_of(outcome)
    for how in ("task-async", "task-sync", "thread-sync"):
        verdicts["method:parent-in-flight:" + how] = await Account().settle(100, how)
    account = Account()
    account.settle_sync(100, aio.get_running_loop())
    (outcome,) = await aio.gather(account.pending, return_exceptions=True)
    verdicts["method:task-created-by-sync-method"] = verdict_of(outcome)
    (outcome,) = await aio.gather(spawn(checked(-1)), return_exceptions=True)
    verdicts["function:alone"] = verdict_of(outcome)
    await checked(1000)
    verdicts["function:parent-condition-in-flight"] = FANOUT[0] if FANOUT else "not-run"
    return verdicts


if __name__ == "__main__":
    import asyncio as _aio  # pylint: disable=reimported

    REPORT = {"order": ORDER, "asyncio_loaded_before_icontract": ASYNCIO_LOADED_BEFORE_ICONTRACT,
              "asyncio_loaded_by_icontract": ASYNCIO_LOADED_BY_ICONTRACT, "verdicts": _aio.run(main())}
    print("REPORT=" + json.dumps(REPORT))
