"""CLI: python -m vkit check <id> [--tier quick|thorough] | worker ... | replay <file>."""
import argparse
import os
import sys

from vkit import core


def main() -> int:
    parser = argparse.ArgumentParser(prog="vkit")
    sub = parser.add_subparsers(dest="cmd", required=True)

    pc = sub.add_parser("check")
    pc.add_argument("prop")
    pc.add_argument("--tier", default=None)
    pc.add_argument("--seed", type=int, default=None)
    pc.add_argument("--shards", type=int, default=None)

    pw = sub.add_parser("worker")
    pw.add_argument("prop")
    pw.add_argument("--tier", required=True)
    pw.add_argument("--seed", type=int, required=True)
    pw.add_argument("--shard", type=int, required=True)
    pw.add_argument("--nshards", type=int, required=True)
    pw.add_argument("--out", required=True)

    pr = sub.add_parser("replay")
    pr.add_argument("path")

    args = parser.parse_args()
    if args.cmd == "check":
        # an explicit --tier names the command's tier; VERIF_TIER only fills in when none is given
        tier = args.tier or os.environ.get("VERIF_TIER") or "quick"
        if tier not in ("quick", "thorough"):
            tier = "quick"
        seed = args.seed
        if seed is None:
            try:
                seed = int(os.environ.get("VERIF_SEED", "0"))
            except ValueError:
                seed = 0
        return core.check_main(args.prop.upper(), tier, seed, args.shards)
    if args.cmd == "worker":
        return core.worker_main(args.prop.upper(), args.tier, args.seed, args.shard, args.nshards, args.out)
    if args.cmd == "replay":
        return core.replay_main(args.path)
    return 2


if __name__ == "__main__":
    sys.exit(main())
