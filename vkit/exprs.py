"""Condition-expression generator, CPython ground truth via an instrumented twin, violation-message tools."""
import ast
import builtins
import inspect
import random
import types
from typing import Any, Callable, Dict, List, Optional, Set, Tuple

import asttokens

# ---------------------------------------------------------------------------------------------------------------------
# runtime support injected into every rendered module
# ---------------------------------------------------------------------------------------------------------------------

SUPPORT = '''
class Obj:
    """A small object with a deterministic repr."""

    def __init__(self, v, items=None, name="o", child=None):
        self.v = v
        self.items = list(items or [])
        self.name = name
        self.child = child

    def get(self, k, default=0):
        return {"v": self.v, "n": len(self.items)}.get(k, default)

    def size(self):
        return len(self.items)

    def __repr__(self):
        return "Obj(v={!r}, items={!r}, name={!r})".format(self.v, self.items, self.name)


class Holder:
    """Attributes for invariant conditions; the invariant-carrying twin classes repr themselves identically."""

    def __init__(self, v, w, name, items, d, n, child):
        self.v = v
        self.w = w
        self.name = name
        self.items = items
        self.d = d
        self.n = n
        self.child = child

    def __repr__(self):
        return "Holder(v={!r}, w={!r}, name={!r}, items={!r}, d={!r}, n={!r})".format(self.v, self.w, self.name, self.items, self.d, self.n)


def twice(x):
    return x * 2


def total(*args, **kwargs):
    return sum(args) + sum(kwargs.values())


def pick(seq, i=0, default=None):
    return seq[i] if -len(seq) <= i < len(seq) else default


def ident(x):
    return x


class Strict:
    """A value which refuses to be compared with anything but its own kind (strict value classes do)."""

    def __init__(self, v):
        self.v = v

    def __eq__(self, other):
        if not isinstance(other, Strict):
            raise TypeError("a Strict can only be compared with a Strict, got {}".format(type(other).__name__))
        return self.v == other.v

    def __hash__(self):
        return hash(self.v)

    def __repr__(self):
        return "Strict({!r})".format(self.v)


class Elementwise:
    """An array-like: comparisons give an element-wise result which has no truth value."""

    def __init__(self, *items):
        self.items = list(items)

    def __eq__(self, other):
        return Elementwise(*[item == other for item in self.items])

    def __bool__(self):
        raise ValueError("the truth value of an Elementwise with several items is ambiguous")

    def __len__(self):
        return len(self.items)

    def __repr__(self):
        return "Elementwise({})".format(", ".join(repr(item) for item in self.items))


class Loose:
    """A value whose comparisons answer with 1, 0 or None instead of True / False (C-style and three-valued value classes do)."""

    def __init__(self, v):
        self.v = v

    def __lt__(self, other):
        return 1 if self.v < getattr(other, "v", other) else 0

    def __gt__(self, other):
        return 1 if self.v > getattr(other, "v", other) else None

    def __le__(self, other):
        return "yes" if self.v <= getattr(other, "v", other) else ""

    def __ge__(self, other):
        return [1] if self.v >= getattr(other, "v", other) else []

    def __repr__(self):
        return "Loose({!r})".format(self.v)


G_LOOSE = Loose(3)


class KeysOnly:
    """A mapping as far as ``**`` is concerned: it has keys() and item access - and nothing else."""

    def __init__(self, **kw):
        self._kw = kw

    def keys(self):
        return list(self._kw)

    def __getitem__(self, key):
        return self._kw[key]

    def __repr__(self):
        return "KeysOnly({})".format(", ".join("{}={!r}".format(k, v) for k, v in self._kw.items()))


G_KEYS_ONLY = KeysOnly(k=2, extra=1)
G_FILL = "{"  # (a fill character of a format specification which is a brace)
G_SPEC = "}<3"
found = None  # (a module global which some conditions re-bind with an assignment expression)
y = -77  # (a leftover of a module-level loop: a global named like a loop variable of the generated comprehensions)
G_STRICT = Strict(3)
G_VECTOR = Elementwise(1, 2)


class NotForTheseInputs(Exception):
    """Raised by helpers that are only defined for some inputs (not one of the built-in exception families)."""


def only_for_small(x):
    if x > 50:
        raise NotForTheseInputs("only defined up to 50, got {}".format(x))
    return x


def needs_runtime(x):
    if x > 50:
        raise RuntimeError("not available for {}".format(x))
    return x


def needs_file(x):
    if x > 50:
        raise OSError("no such thing: {}".format(x))
    return x


G_INT = 7
input = 11  # (module globals named like built-ins: variables of the program all the same)
license = -4
G_LIST = [3, 1, 2]
G_STR = "glob"
G_NONE = None
# (values whose configured representation differs from repr(): keys not in sorted order, more items than the repr shows)
G_RECORDS = [{"ok": 5, "id": 1}, {"ok": -3, "id": 7, "bad": 0}, {"ok": 2, "id": 3}]
G_ROWS = [[1, 2], list(range(60)), [3]]
c1 = 99  # a global with the name of the closure variable of the conditions: the closure must win
'''

INT_PARAMS = ["a", "b"]
SHADOW_SETS = [
    {},
    {"a": "id"},
    {"b": "max"},
    {"a": "type", "b": "len"},
    {"s": "str"},
    {"xs": "list"},
    {"n": "id"},
    {"n": "type", "a": "max"},
    # arguments named like the loop variables of the generated comprehensions (which shadow them inside the comprehension only)
    {"a": "x"},
    {"a": "x", "b": "y"},
    {"b": "x", "n": "y"},
    {"a": "x"},
    {"b": "x"},
    # arguments named like the helpers the library compiles while it re-computes a comprehension
    {"xs": "assigned", "a": "read_assigned"},
    {"a": "assigned", "d": "dict"},
]


class Env:
    """Parameter names of one generated function and what they hold."""

    def __init__(self, rng: random.Random, shadow: Optional[Dict[str, str]] = None, with_none: bool = False) -> None:
        self.rng = rng
        self.shadow = shadow or {}
        self.names = {k: self.shadow.get(k, k) for k in ("a", "b", "s", "xs", "d", "o", "n")}
        self.with_none = with_none
        self.closure = {"c1": rng.randint(-3, 9)}
        self.walrus_n = 0
        self.shadowed_builtins = set(self.shadow.values())

    def params(self) -> List[str]:
        return [self.names[k] for k in ("a", "b", "s", "xs", "d", "o", "n")]

    def can_use(self, builtin_name: str) -> bool:
        return builtin_name not in self.shadowed_builtins

    def values(self, rng: random.Random) -> Dict[str, Any]:
        """Random argument values (plain data; Obj is built by the module's own class)."""
        xs = [rng.randint(-3, 6) for _ in range(rng.randint(0, 4))]
        d = {k: rng.randint(-2, 5) for k in rng.sample(["k", "m", "z", "v"], rng.randint(0, 3))}
        n = rng.choice([None, rng.randint(-2, 5)]) if self.with_none else rng.randint(-2, 5)
        return {
            self.names["a"]: rng.randint(-3, 8),
            self.names["b"]: rng.randint(-3, 8),
            self.names["s"]: rng.choice(["", "x", "abc", "k", "Hello", "m", "Zo\u00eb", "na\u00efve \u2713"]),
            self.names["xs"]: xs,
            self.names["d"]: d,
            self.names["o"]: ("OBJ", rng.randint(-2, 6), [rng.randint(0, 4) for _ in range(rng.randint(0, 3))], rng.choice(["o", "p", ""])),
            self.names["n"]: n,
        }


class Gen:
    """Typed random generator of side-effect-free expressions over an Env."""

    def __init__(self, rng: random.Random, env: Env, max_depth: int = 4, guarded_bias: float = 0.0, features: Optional[Set[str]] = None) -> None:
        self.rng = rng
        self.env = env
        self.max_depth = max_depth
        self.guarded_bias = guarded_bias
        self.features = features  # None = everything

    def has(self, feature: str) -> bool:
        return self.features is None or feature in self.features

    # -- leaves ---------------------------------------------------------------------------
    def n(self, key: str) -> str:
        return self.env.names[key]

    def int_leaf(self) -> str:
        r = self.rng.random()
        if r < 0.3:
            return str(self.rng.randint(-2, 9))
        if r < 0.75:
            return self.n(self.rng.choice(["a", "b"]))
        if r < 0.85:
            return "c1"
        if r < 0.91:
            return "G_INT"
        if r < 0.93:
            return self.rng.choice(["input", "license"])
        return "{}.v".format(self.n("o"))

    def int_expr(self, d: int = 0) -> str:
        rng = self.rng
        if d >= self.max_depth or rng.random() < 0.25:
            return self.int_leaf()
        opts = ["bin", "len", "index", "dget", "attr", "call", "abs", "minmax", "sum", "ifexp", "neg", "method", "total", "pick", "pos"]
        if self.has("walrus") and d <= 1:
            opts.append("walrus")
        if self.env.with_none:
            opts.append("n_or")
        opts.append("odd_eq_display")
        opts.append("dunder_call")
        if self.env.can_use("len"):
            opts.append("boolop_value_without_truth")
        k = rng.choice(opts)
        if k == "boolop_value_without_truth":
            # the LAST operand of and / or is the result whatever it is: Python does not ask for its truth (here it has none)
            return rng.choice(["len({xs} and G_VECTOR)", "len(({i} - {i}) or G_VECTOR)", "len(({xs} or [0]) and G_VECTOR) + {i}",
                               "len((({i}) and G_VECTOR).items)" if False else "len({xs} and G_VECTOR)"]).format(xs=self.list_expr(d + 1), i=self.int_leaf())
        if k == "dunder_call":
            # the attribute looked up on the way is a method-wrapper / a bound builtin method (a routine: never to be shown)
            return rng.choice(["{xs}.__len__()", "{xs}.__len__() + {i}", "{s}.__len__()", "{d}.__len__()", "{xs}.count({i})", "{xs}.__contains__({i}) + {i2}"]).format(
                xs=self.list_expr(d + 1), s=self.str_expr(d + 1), d=self.n("d"), i=self.int_leaf(), i2=self.int_leaf())
        if k == "odd_eq_display":
            # list / tuple displays holding values whose __eq__ raises or gives a result without a truth value: building a display
            # compares nothing, and neither may the re-computation
            odd = rng.choice(["G_STRICT", "G_VECTOR"])
            return rng.choice(["pick([{o}, {i}], 1)", "({o}, {i})[1]", "pick([*[{o}], {i}], 1)", "len(({o}, {o}, {i}))" if self.env.can_use("len") else "({o}, {i})[1]",
                               "[{i}, {o}].index({i})"]).format(o=odd, i=self.int_expr(d + 1))
        if k == "pos":
            # unary plus is not the identity: +True is 1 (and an object may define __pos__ as it likes)
            inner = "{} {} {}".format(self.int_leaf(), rng.choice(["<", ">=", "!="]), self.int_leaf())
            return rng.choice(["ident(+({}))", "max(+({}), 0)", "pick([+({})], 0)"]).format(inner)
        if k == "bin":
            op = rng.choice(["+", "-", "*", "//", "%", "+", "-", "<<", "&", "|", "^", "**"])
            right = self.int_expr(d + 1)
            if op in ("//", "%"):
                right = "({} or 1)".format(right) if rng.random() < 0.6 else right
            if op == "**":
                right = str(rng.randint(0, 3))
            if op == "<<":
                right = str(rng.randint(0, 3))
            return "({} {} {})".format(self.int_expr(d + 1), op, right)
        if k == "len" and self.env.can_use("len"):
            return "len({})".format(self.rng.choice([self.list_expr(d + 1), self.str_expr(d + 1), self.n("d")]))
        if k == "index":
            return "{}[{}]".format(self.list_expr(d + 1), self.rng.choice(["0", "-1", self.int_expr(d + 2)]))
        if k == "dget":
            if rng.random() < 0.5:
                return "{}[{!r}]".format(self.n("d"), rng.choice(["k", "m", "z"]))
            return "{}.get({!r}, {})".format(self.n("d"), rng.choice(["k", "m", "q"]), self.int_leaf())
        if k == "attr":
            return "{}.v".format(self.n("o"))
        if k == "call":
            return "twice({})".format(self.int_expr(d + 1))
        if k == "abs" and self.env.can_use("abs"):
            return "abs({})".format(self.int_expr(d + 1))
        if k == "minmax" and self.env.can_use("max") and self.env.can_use("min"):
            return "{}({}, {})".format(rng.choice(["min", "max"]), self.int_expr(d + 1), self.int_expr(d + 1))
        if k == "sum" and self.env.can_use("sum"):
            return "sum({})".format(self.list_expr(d + 1))
        if k == "ifexp":
            return "({} if {} else {})".format(self.int_expr(d + 1), self.bool_expr(d + 1), self.int_expr(d + 1))
        if k == "neg":
            return "{}{}".format(rng.choice(["-", "+", "~"]), self.int_leaf())
        if k == "method":
            return rng.choice(["{}.size()".format(self.n("o")), "{}.get({!r})".format(self.n("o"), rng.choice(["v", "n", "zz"]))])
        if k == "total" and self.has("star"):
            parts = [self.int_expr(d + 1)]
            if rng.random() < 0.6:
                parts.append("*{}".format(self.list_expr(d + 1)))
            if rng.random() < 0.5:
                parts.append("k={}".format(self.int_leaf()))
            if rng.random() < 0.4:
                parts.append("**{}".format(self.n("d")))
            elif rng.random() < 0.3 and not any(p.startswith("k=") for p in parts):
                parts.append("**G_KEYS_ONLY")
            return "total({})".format(", ".join(parts))
        if k == "pick":
            return "pick({}, {}, default=0)".format(self.list_expr(d + 1), self.int_leaf())
        if k == "walrus":
            self.env.walrus_n += 1
            return "(w{} := {})".format(self.env.walrus_n, self.int_expr(d + 1))
        if k == "n_or":
            return "({} or 0)".format(self.n("n"))
        return self.int_leaf()

    def str_expr(self, d: int = 0) -> str:
        rng = self.rng
        if d >= self.max_depth or rng.random() < 0.4:
            return rng.choice([self.n("s"), repr(rng.choice(["k", "x", "ab", ""])), "{}.name".format(self.n("o")), "G_STR"])
        k = rng.choice(["upper", "str", "concat", "fstr", "slice", "join"] + (["n_str"] if self.env.with_none else []))
        if k == "n_str" and self.env.can_use("str"):
            return "str({})".format(self.n("n"))
        if k == "upper":
            return "{}.{}()".format(self.str_expr(d + 1), rng.choice(["upper", "lower", "strip"]))
        if k == "str" and self.env.can_use("str"):
            return "str({})".format(self.int_expr(d + 1))
        if k == "concat":
            return "({} + {})".format(self.str_expr(d + 1), self.str_expr(d + 1))
        if k == "fstr" and self.has("fstring"):
            a = self.n(rng.choice(["a", "b", "s"]))
            conv = rng.choice(["", "!r", "!s", "!a"])
            spec = rng.choice(["", ":>4", ":<3"]) if not conv or conv in ("!r", "!s") else ""
            if rng.random() < 0.25:
                # a format specification which is computed - and happens to hold a brace
                return rng.choice(["f\"{{{a}:{{G_FILL}}>4}}\"", "f\"<{{{a}!r:{{G_SPEC}}}}>\"", "f\"{{{a}:{{G_FILL}}^{{{w}}}}}\""]).format(
                    a=self.n(rng.choice(["a", "b"])), w=rng.randint(2, 5))
            return "f\"v={{{}{}{}}}/{{{}}}\"".format(a, conv, spec, self.n(rng.choice(["a", "s"])))
        if k == "slice":
            return "{}[{}:{}]".format(self.n("s"), rng.choice(["", "0", "1"]), rng.choice(["", "2", "-1"]))
        return self.n("s")

    def list_expr(self, d: int = 0) -> str:
        rng = self.rng
        if d >= self.max_depth or rng.random() < 0.4:
            return rng.choice([self.n("xs"), self.n("xs"), "{}.items".format(self.n("o")), "G_LIST"])
        k = rng.choice(["display", "comp", "filter", "sorted", "slice", "keys", "concat", "comp2", "star_display", "star_tuple"])
        if k == "star_display" and self.has("star"):
            return "[*{}, {}]".format(self.list_expr(d + 1), self.int_leaf())
        if k == "star_tuple" and self.has("star") and self.env.can_use("list"):
            return "list(({}, *{}))".format(self.int_leaf(), self.list_expr(d + 1))
        if k == "display":
            return "[{}]".format(", ".join(self.int_expr(d + 1) for _ in range(rng.randint(1, 3))))
        if k == "comp" and self.has("comprehension"):
            return "[x * {} for x in {}]".format(self.int_leaf(), self.list_expr(d + 1))
        if k == "filter" and self.has("comprehension"):
            return "[x for x in {} if x > {}]".format(self.list_expr(d + 1), self.int_leaf())
        if k == "sorted" and self.env.can_use("sorted"):
            return "sorted({})".format(self.list_expr(d + 1))
        if k == "slice":
            return "{}[{}:{}]".format(self.list_expr(d + 1), rng.choice(["", "1", self.int_leaf()]), rng.choice(["", "-1", "3"]))
        if k == "keys" and self.env.can_use("sorted"):
            return "sorted({})".format(self.n("d"))
        if k == "concat":
            return "({} + {})".format(self.list_expr(d + 1), self.list_expr(d + 1))
        if k == "comp2" and self.has("comprehension"):
            return "[x + y for x in {} for y in {} if x != y]".format(self.n("xs"), self.list_expr(d + 1))
        return self.n("xs")

    def other_container(self, d: int) -> str:
        rng = self.rng
        k = rng.choice(["set", "dict", "tuple", "setdisp", "dictdisp", "star_set", "star_dict"])
        if k == "star_set" and self.has("star"):
            return "{{*{}, {}}}".format(self.list_expr(d + 1), self.int_leaf())
        if k == "star_dict" and self.has("star"):
            return "{{**{}, 'q': {}}}".format(self.n("d"), self.int_leaf())
        if k == "set":
            return "{{x % 3 for x in {}}}".format(self.list_expr(d + 1))
        if k == "dict":
            return "{{k: v + {} for k, v in {}.items()}}".format(self.int_leaf(), self.n("d"))
        if k == "tuple":
            return "({}, {})".format(self.int_expr(d + 1), self.int_expr(d + 1))
        if k == "setdisp":
            return "{{{}, {}}}".format(self.int_leaf(), self.int_leaf())
        return "{{'k': {}, 'm': {}}}".format(self.int_expr(d + 1), self.int_leaf())

    def bool_expr(self, d: int = 0) -> str:
        rng = self.rng
        if d >= self.max_depth:
            return "{} {} {}".format(self.int_leaf(), rng.choice(["<", "<=", ">", ">=", "==", "!="]), self.int_leaf())
        opts = ["cmp", "cmp", "chain", "and", "or", "not", "in_dict", "in_list", "all", "any", "strcmp", "isinst", "truth", "container_eq",
                "all_value", "builtin_const", "walrus_over_global", "loose_chain", "walrus_in_comprehension"]
        if self.env.with_none:
            opts += ["none_guard", "is_none"]
        if rng.random() < self.guarded_bias:
            opts = ["guard"]
        k = rng.choice(opts)
        if k == "cmp":
            return "{} {} {}".format(self.int_expr(d + 1), rng.choice(["<", "<=", ">", ">=", "==", "!="]), self.int_expr(d + 1))
        if k == "walrus_over_global" and self.has("walrus") and d <= 1:
            # the target of the assignment expression also exists as a module global: inside the lambda it is a local from then on
            return rng.choice(["((found := pick({xs}, 0, None)) is not None and found > {i})",
                               "((found := {d}.get('k')) is not None and found + 1 > {i})",
                               "((found := {xs}) and found[0] >= {i})"]).format(xs=self.list_expr(d + 1), d=self.n("d"), i=self.int_leaf())
        if k == "builtin_const":
            # built-ins which are values (neither functions nor classes): names of the builtins module all the same
            return rng.choice(["({i} is not NotImplemented and {b})", "({xs} is not Ellipsis and {b})", "((__debug__ or not __debug__) and {b})",
                               "({i} != NotImplemented and {b})", "({xs} is Ellipsis or {b})"]).format(
                                   i=self.int_expr(d + 1), xs=self.list_expr(d + 1), b=self.bool_expr(d + 1))
        if k == "walrus_in_comprehension" and self.has("walrus") and self.has("comprehension") and d <= 1 and self.env.can_use("len") \
                and self.env.can_use("any") and "x" not in self.env.shadowed_builtins:
            # an assignment expression inside a comprehension binds in the scope of the condition itself: what is read afterwards is the
            # value of the last iteration that ran
            self.env.walrus_n += 1
            t = rng.choice(["([(w{n} := x + {i}) for x in {xs}] and w{n} > {j})",
                            "(any((w{n} := x) > {i} for x in {xs}) and w{n} + {j} < {i})",
                            "(len([(w{n} := x * 2) for x in {xs} if x > {i}]) > 0 and abs(w{n}) < {j})",
                            "(len({{x: (w{n} := x - {i}) for x in {xs}}}) > 0 and twice(w{n}) > {j})",
                            "((w{n} := 0) == 0 and len([(w{n} := w{n} + x) for x in {xs}]) >= 0 and w{n} > {j})"])
            if "abs(" in t and not self.env.can_use("abs"):
                t = "([(w{n} := x + {i}) for x in {xs}] and w{n} > {j})"
            return t.format(n=self.env.walrus_n, xs=self.list_expr(d + 2), i=self.int_leaf(), j=self.int_leaf())
        if k == "loose_chain":
            # a chain stops at the first comparison whose outcome is falsy - 0, None, "" or [] just as well as False - and that
            # outcome is the value of the chain
            t = rng.choice(["{i} {o1} G_LOOSE {o2} {j}", "bool({i} {o1} G_LOOSE {o2} {j})", "({i} {o1} G_LOOSE {o2} {j}) or {b}",
                            "not ({i} {o1} G_LOOSE {o2} {j})", "ident({i} {o1} G_LOOSE {o2} {j}) and {b}", "[{i} {o1} G_LOOSE {o2} {j}][0]",
                            "({i} {o1} G_LOOSE {o2} {j} {o1} {k}) or {b}"])
            if "bool(" in t and not self.env.can_use("bool"):
                t = "{i} {o1} G_LOOSE {o2} {j}"
            return t.format(i=self.int_expr(d + 1), j=self.int_expr(d + 1), k=self.int_leaf(), o1=rng.choice(["<", "<=", ">", ">="]),
                            o2=rng.choice(["<", "<=", ">", ">="]), b=self.bool_expr(d + 2))
        if k == "chain":
            ops = [rng.choice(["<", "<=", ">", ">=", "==", "!="]) for _ in range(rng.randint(2, 3))]
            parts = [self.int_expr(d + 1)]
            for op in ops:
                parts += [op, self.int_expr(d + 1)]
            return " ".join(parts)
        if k == "and":
            return "({} and {})".format(self.bool_expr(d + 1), self.bool_expr(d + 1))
        if k == "or":
            return "({} or {})".format(self.bool_expr(d + 1), self.bool_expr(d + 1))
        if k == "not":
            return "not ({})".format(self.bool_expr(d + 1))
        if k == "in_dict":
            return "{} {} {}".format(self.str_expr(d + 1), rng.choice(["in", "not in"]), self.n("d"))
        if k == "in_list":
            return "{} {} {}".format(self.int_expr(d + 1), rng.choice(["in", "not in"]), self.list_expr(d + 1))
        if k == "all" and self.has("all") and self.env.can_use("all"):
            return self.all_expr(d)
        if k == "all_value" and self.has("all") and self.env.can_use("all"):
            # the VALUE of a (possibly failed) quantifier used by an enclosing expression
            inner = self.all_expr(d)
            t = rng.choice(["str({q}) == 'True'", "(({q}) == False and {b})", "[{q}][0]", "({q}) is True", "ident({q}) and {b}",
                            "({q}) == ({b})", "(0 if {q} else {i}) > {i2}"])
            if "str(" in t and not self.env.can_use("str"):
                t = "({q}) is True"
            return t.format(q=inner, b=self.bool_expr(d + 2), i=self.int_leaf(), i2=self.int_leaf())
        if k == "any" and self.has("comprehension") and self.env.can_use("any"):
            if rng.random() < 0.3:
                return "any(x < {} and {}[0] < x for x in {})".format(self.int_leaf(), self.list_expr(d + 1), self.n("xs"))
            return "any(x > {} for x in {})".format(self.int_leaf(), self.list_expr(d + 1))
        if k == "strcmp":
            return rng.choice(["{} == {}", "{} != {}", "{}.startswith({})", "{} in {}"]).format(self.str_expr(d + 1), self.str_expr(d + 1))
        if k == "isinst" and self.env.can_use("isinstance") and self.env.can_use("int"):
            return "isinstance({}, int)".format(self.int_expr(d + 1))
        if k == "truth":
            return rng.choice([self.list_expr(d + 1), self.int_expr(d + 1), self.str_expr(d + 1)])
        if k == "container_eq":
            return "{} == {}".format(self.other_container(d), self.other_container(d))
        if k == "none_guard":
            return rng.choice(["({n} is None or {n} > {i})", "({n} is not None and {n} < {i})"]).format(n=self.n("n"), i=self.int_expr(d + 1))
        if k == "is_none":
            return "{} {} None".format(rng.choice([self.n("n"), "G_NONE"]), rng.choice(["is", "is not"]))
        if k == "guard":
            return self.guarded(d)
        return "{} < {}".format(self.int_leaf(), self.int_leaf())

    def all_expr(self, d: int) -> str:
        rng = self.rng
        k = rng.choice(["one", "filter", "two", "attr", "truthy", "truthy_get", "guard_inside", "guard_inside2", "star_inside", "dstar_inside",
                        "star_comp_in_iter", "dependent_filters", "dependent_filters2", "filters_two_fors", "never_evaluated_dup_kw",
                        "records", "rows", "never_evaluated_raises", "displayed_loop_variable", "displayed_loop_variable"])
        if k == "displayed_loop_variable":
            # calls / subscripts of the LOOP variable (whose name may also be known in the enclosing scope: an argument, a global):
            # only the values of the loop may ever be reported for them
            return rng.choice([
                "all(twice(x) > {i} for x in {xs})",
                "all(twice(x) + twice(y) > {i} for x in {xs} for y in {xs2})",
                "all(pick([x, {i}], 0) != {i2} for x in {xs})",
                "all(twice(y) >= {i} for y in {xs})",
                "len([twice(x) for x in {xs} if twice(x) > {i}]) > {i2}" if self.env.can_use("len") else "all(twice(x) > {i} for x in {xs})",
            ]).format(i=self.int_leaf(), i2=self.int_leaf(), xs=self.list_expr(d + 1), xs2=self.n("xs"))
        if k == "never_evaluated_raises":
            # a part of the comprehension that Python never evaluates for these inputs (no item passes the filter / empty
            # iterable) and that raises an exception of its own when evaluated out of context
            helper = rng.choice(["only_for_small", "needs_runtime", "needs_file"])
            return rng.choice([
                "all(x > {h}(100 + {i}) for x in {xs} if x > 1000)",
                "all({h}(x + 100) for x in {xs} if x > 1000)",
                "all(x > {i} for x in {xs} if x > 1000 if {h}(x) > 0)",
                "all(x + y > {i} for x in [] for y in [{h}(99), {h}(100)])",
            ]).format(h=helper, i=self.int_leaf(), xs=self.list_expr(d + 1))
        if k == "records":
            # counter-examples whose configured representation is not their repr()
            return "all(r['ok'] > {} for r in G_RECORDS)".format(self.int_leaf())
        if k == "rows":
            return "all(row[-1] < {} for row in G_ROWS)".format(rng.choice([5, 10, 50]))
        if k == "never_evaluated_dup_kw" and self.has("star"):
            # a part of the comprehension that Python never evaluates for these inputs (no item passes the filter) and that would
            # raise if it did whenever the dictionary repeats the explicit keyword: nothing may be reported for it
            return "all(x > total({}, k={}, **{}) for x in {} if x > 100)".format(self.int_leaf(), self.int_leaf(), self.n("d"), self.list_expr(d + 1))
        if k == "dependent_filters":
            # two filters on one ``for``: the second is only defined for the items the first lets through
            return "all(x > {} for x in {} if x != 0 if 12 // x != {})".format(self.int_leaf(), self.list_expr(d + 1), self.int_leaf())
        if k == "dependent_filters2":
            return "all({o}.items[x] >= {i} for x in {xs} if 0 <= x if x < len({o}.items) if {o}.items[x] != {i2})".format(
                o=self.n("o"), xs=self.list_expr(d + 1), i=self.int_leaf(), i2=self.int_leaf()) if self.env.can_use("len") else \
                "all(x > {} for x in {} if x if 6 // x)".format(self.int_leaf(), self.list_expr(d + 1))
        if k == "filters_two_fors":
            return "all(x // y > {} for x in {} if x for y in {} if y if x % y == 0)".format(self.int_leaf(), self.n("xs"), self.list_expr(d + 1))
        if k == "star_inside" and self.has("star"):
            # starred / double-starred call arguments that depend on the loop variable
            return "all(total(*[x, {}]) > {} for x in {})".format(self.int_leaf(), self.int_leaf(), self.list_expr(d + 1))
        if k == "dstar_inside" and self.has("star"):
            return "all(total({}, **{{'m': x}}) > {} for x in {})".format(self.int_leaf(), self.int_leaf(), self.list_expr(d + 1))
        if k == "star_comp_in_iter" and self.has("star"):
            return "all(x > {} for x in [total({}, *[y for y in {} if y > {}]), {}])".format(
                self.int_leaf(), self.int_leaf(), self.list_expr(d + 1), self.int_leaf(), self.int_leaf())
        if k == "truthy":
            # elements that are not booleans
            return "all(x for x in {})".format(self.list_expr(d + 1))
        if k == "truthy_get":
            return "all({}.get(k) for k in {})".format(self.n("d"), self.n("d"))
        if k == "guard_inside":
            # a guarded element: the second operand is only defined when the first holds
            return "all(x > {} and {}[0] > x for x in {})".format(self.int_leaf(), self.list_expr(d + 1), self.n("xs"))
        if k == "guard_inside2":
            return "all(x == {i} or {k!r} in {d} and {d}[{k!r}] > x for x in {xs})".format(i=self.int_leaf(), k=rng.choice(["k", "m"]), d=self.n("d"),
                                                                                          xs=self.list_expr(d + 1))
        if k == "one":
            return "all(x {} {} for x in {})".format(rng.choice([">", "<", "!="]), self.int_leaf(), self.list_expr(d + 1))
        if k == "filter":
            return "all(x > {} for x in {} if x != {})".format(self.int_leaf(), self.list_expr(d + 1), self.int_leaf())
        if k == "two":
            return "all(x + y > {} for x in {} for y in {})".format(self.int_leaf(), self.n("xs"), self.list_expr(d + 1))
        return "all(twice(x) >= {}.v for x in {})".format(self.n("o"), self.list_expr(d + 1))

    def guarded(self, d: int) -> str:
        """Conditions whose later operands are only defined when earlier ones hold."""
        rng = self.rng
        xs, dd, o, a, b, nn = self.n("xs"), self.n("d"), self.n("o"), self.n("a"), self.n("b"), self.n("n")
        opts = [
            "({xs} and {xs}[0] > {i})",
            "(len({xs}) > 1 and {xs}[1] > {i})" if self.env.can_use("len") else "({xs} and {xs}[0] > {i})",
            "({k!r} in {d} and {d}[{k!r}] > {i})",
            "(not {xs} or {xs}[-1] >= {i})",
            "({b} != 0 and {a} // {b} > {i})",
            "(0 < {b} < 10 // {b})",
            "({a} > 0 and 10 % {a} == {i})",
            "({o}.items and {o}.items[0] > {i})",
            "({k!r} not in {d} or {d}[{k!r}] < {i})",
            "({xs}[0] if {xs} else {i}) > {i2}",
            "({a} == 0 or 6 // {a} > {i})",
            "({xs} != [] and max({xs}) > {i})" if self.env.can_use("max") else "({xs} and {xs}[0] > {i})",
            "({k!r} in {d} and {k2!r} in {d} and {d}[{k!r}] < {d}[{k2!r}])",
            "(len({xs}) > 0 and len({xs}) > 1 and {xs}[0] < {xs}[1])" if self.env.can_use("len") else "({xs} and {xs}[0] > {i})",
            # parts of a comprehension Python evaluates per iteration only (never for an empty outer iterable)
            "(not all(x + y > {i} for x in {xs} for y in [{o}.items[0], {i2}]))",
            "any(x > {i} for x in [x + y for x in {xs} for y in [{d}[{k!r}]] if x != y])",
            "len([x for x in {xs} if {o}.items[0] > x]) > {i}",
            "len({{x: {d}[{k!r}] for x in {xs}}}) > {i}",
            # the VALUE of an `or` whose first operand is truthy but not a bool; the skipped operand may be undefined
            "(({a} or {xs}[0]) > {i})",
            "(twice({a} or {d}[{k!r}]) > {i})",
            "(({s} or {xs}[0]) == {k!r})",
            "(({xs} or {o}.items[0]) == {i})",
            "(not ({a} or {b} // ({a} - {a})))",
            "(all(x for x in {xs}) and len({xs}) > {i})" if self.env.can_use("len") and self.env.can_use("all") else "({xs} and {xs}[0] > {i})",
            "(all(x > {i} and {o}.items[0] > x for x in {xs}))" if self.env.can_use("all") else "({xs} and {xs}[0] > {i})",
            "(all(x for x in {xs}) or {a} > {i})" if self.env.can_use("all") else "({xs} and {xs}[0] > {i})",
            "len([x for x in {xs} if x > {i} and {o}.items[x] > 0]) > {i2}" if self.env.can_use("len") else "({xs} and {xs}[0] > {i})",
        ]
        if self.env.with_none:
            opts += ["({n} is None or {n} + 1 > {i})", "({n} is not None and {n} * 2 > {i})", "({n} is not None and {xs} and {xs}[0] > {n})"]
        t = rng.choice(opts)
        return t.format(xs=xs, d=dd, o=o, a=a, b=b, n=nn, s=self.n("s"), i=self.int_leaf(), i2=self.int_leaf(), k=rng.choice(["k", "m"]), k2=rng.choice(["z", "v"]))

    def condition(self) -> str:
        # (the templates are combined freely; the few combinations Python refuses - e.g. an assignment expression that ends up
        # inside the iterable of a comprehension - are drawn again)
        for _ in range(50):
            r = self.rng.random()
            expr = self.guarded(0) if r < self.guarded_bias else self.bool_expr(0)
            try:
                compile("lambda: " + expr, "<generated condition>", "eval")
            except SyntaxError:
                continue
            return expr
        return "{} < {}".format(self.int_leaf(), self.int_leaf())


# ---------------------------------------------------------------------------------------------------------------------
# ground truth: the instrumented twin
# ---------------------------------------------------------------------------------------------------------------------

SHOWN_TYPES = (ast.Name, ast.Attribute, ast.Call, ast.Subscript, ast.ListComp, ast.SetComp, ast.DictComp, ast.JoinedStr, ast.NamedExpr)
SCOPE_TYPES = (ast.ListComp, ast.SetComp, ast.DictComp, ast.GeneratorExp, ast.Lambda)


class Twin:
    """Parses an expression, knows the source text of each sub-expression, and evaluates an instrumented copy."""

    def __init__(self, text: str, param_names: List[str], closure_names: List[str]) -> None:
        self.text = text
        self.atok = asttokens.ASTTokens(text, parse=True)
        tree = self.atok.tree
        assert isinstance(tree, ast.Module) and len(tree.body) == 1 and isinstance(tree.body[0], ast.Expr)
        self.root = tree.body[0].value
        self.nodes = []  # type: List[ast.AST]
        self.node_text = {}  # type: Dict[int, str]
        self.in_scope = set()  # type: Set[int]
        self.in_fstring = set()  # type: Set[int]
        self.all_calls = {}  # type: Dict[int, ast.Call]
        self._index(self.root, False, False)
        self.param_names = param_names
        self.closure_names = closure_names
        self._func = None  # type: Optional[Callable[..., Any]]

    def _index(self, node: ast.AST, scoped: bool, fstr: bool) -> None:
        if isinstance(node, ast.expr):
            idx = len(self.nodes)
            self.nodes.append(node)
            setattr(node, "_vk", idx)
            try:
                self.node_text[idx] = self.atok.get_text(node)
            except Exception:  # pylint: disable=broad-except
                self.node_text[idx] = ""
            if scoped:
                self.in_scope.add(idx)
            if fstr:
                self.in_fstring.add(idx)
        child_scoped = scoped or isinstance(node, SCOPE_TYPES)
        child_fstr = fstr or isinstance(node, ast.JoinedStr)
        for child in ast.iter_child_nodes(node):
            self._index(child, child_scoped, child_fstr)

    def _build(self, module_globals: Dict[str, Any]) -> Callable[..., Any]:
        twin = self

        class Rewriter(ast.NodeTransformer):
            def generic_visit(self, node):  # type: ignore
                idx = getattr(node, "_vk", None)
                is_all = (isinstance(node, ast.Call) and isinstance(node.func, ast.Name) and node.func.id == "all" and len(node.args) == 1
                          and isinstance(node.args[0], ast.GeneratorExp) and not node.keywords)
                if is_all:
                    gen = node.args[0]
                    names = []
                    for comp in gen.generators:
                        for sub in ast.walk(comp.target):
                            if isinstance(sub, ast.Name) and sub.id not in names:
                                names.append(sub.id)
                    # __elt(idx, value, ((name, value), ...)) records the assignment for which the element was evaluated
                    gen.elt = ast.Call(
                        func=ast.Name(id="__vk_elt", ctx=ast.Load()),
                        args=[ast.Constant(idx), gen.elt,
                              ast.Tuple(elts=[ast.Tuple(elts=[ast.Constant(nm), ast.Name(id=nm, ctx=ast.Load())], ctx=ast.Load()) for nm in names],
                                        ctx=ast.Load())],
                        keywords=[])
                node = super().generic_visit(node)
                if idx is None or not isinstance(node, ast.expr):
                    return node
                if idx in twin.in_fstring:
                    return node
                if isinstance(getattr(node, "ctx", None), (ast.Store, ast.Del)):
                    return node
                if isinstance(node, (ast.Constant, ast.GeneratorExp, ast.Starred, ast.Slice, ast.FormattedValue)):
                    return node
                if idx in twin.in_scope:
                    # inside a comprehension scope: the values of every iteration are kept in a table of their own (the
                    # completeness rule speaks about sub-expressions OUTSIDE comprehension scopes)
                    if isinstance(node, (ast.NamedExpr, ast.Lambda)):
                        return node
                    return ast.Call(func=ast.Name(id="__vk_rec_scope", ctx=ast.Load()), args=[ast.Constant(idx), node], keywords=[])
                return ast.Call(func=ast.Name(id="__vk_rec", ctx=ast.Load()), args=[ast.Constant(idx), node], keywords=[])

        body = Rewriter().visit(ast.parse(self.text, mode="eval").body if False else self._fresh_copy())
        args = [ast.arg(arg=n, annotation=None) for n in self.param_names + self.closure_names]
        fdef = ast.FunctionDef(
            name="__vk_twin", args=ast.arguments(posonlyargs=[], args=args, kwonlyargs=[], kw_defaults=[], defaults=[], vararg=None, kwarg=None),
            body=[ast.Return(body)], decorator_list=[], type_params=[])
        mod = ast.Module(body=[fdef], type_ignores=[])
        ast.fix_missing_locations(mod)
        code = compile(mod, "<vk-twin>", "exec")
        ns = dict(module_globals)
        ns["__vk_rec"] = self._rec
        ns["__vk_rec_scope"] = self._rec_scope
        ns["__vk_elt"] = self._elt
        exec(code, ns)  # pylint: disable=exec-used
        return ns["__vk_twin"]

    def _fresh_copy(self) -> ast.AST:
        """A deep copy of the expression with the same _vk indices."""
        import copy  # pylint: disable=import-outside-toplevel

        return copy.deepcopy(self.root)

    def _rec(self, idx: int, value: Any) -> Any:
        self.values.setdefault(idx, []).append(value)
        return value

    def _rec_scope(self, idx: int, value: Any) -> Any:
        self.scope_values.setdefault(idx, []).append(value)
        return value

    def _elt(self, idx: int, value: Any, assignment: Any) -> Any:
        self.all_first_falsy[idx] = (value, assignment)
        return value

    def evaluate(self, module_globals: Dict[str, Any], kwargs: Dict[str, Any]) -> Tuple[bool, Any]:
        """Return (raised?, value-or-exception); afterwards ``values`` holds node index -> list of values CPython computed."""
        if self._func is None:
            self._func = self._build(module_globals)
        self.values = {}  # type: Dict[int, List[Any]]
        self.scope_values = {}  # type: Dict[int, List[Any]]
        self.all_first_falsy = {}  # type: Dict[int, Any]
        try:
            return False, self._func(**kwargs)
        except BaseException as err:  # pylint: disable=broad-except
            return True, err

    def loop_variables(self) -> Set[str]:
        """Names bound by the comprehensions of the expression."""
        out = set()  # type: Set[str]
        for node in ast.walk(self.root):
            if isinstance(node, ast.comprehension):
                for sub in ast.walk(node.target):
                    if isinstance(sub, ast.Name):
                        out.add(sub.id)
        return out

    def texts_evaluated(self) -> Dict[str, List[Any]]:
        out = {}  # type: Dict[str, List[Any]]
        for idx, vals in self.values.items():
            out.setdefault(self.node_text[idx], []).extend(vals)
        return out


# ---------------------------------------------------------------------------------------------------------------------
# message tools
# ---------------------------------------------------------------------------------------------------------------------

def split_parts(parts: List[str]) -> List[Tuple[str, str]]:
    """Split the ``X was V`` entries produced by the library into (key, rendered value)."""
    out = []
    for part in parts:
        i = part.find(" was ")
        if i < 0:
            out.append((part, ""))
        else:
            out.append((part[:i], part[i + 5:]))
    return out


def split_part_with_candidates(part: str, candidates: List[str]) -> Tuple[str, str]:
    """Split one entry at the `` was `` that ends the longest candidate key it starts with (keys may contain ' was ')."""
    best = None
    for c in candidates:
        if part.startswith(c + " was ") and (best is None or len(c) > len(best)):
            best = c
    if best is not None:
        return best, part[len(best) + 5:]
    i = part.find(" was ")
    return (part[:i], part[i + 5:]) if i >= 0 else (part, "")


def representable(value: Any) -> bool:
    # ("classes, functions, methods, modules and builtins are left out": the methods of the built-in types also come as
    # method-wrappers - a_list.__len__ - and method descriptors - list.append)
    return not (inspect.isclass(value) or inspect.isfunction(value) or inspect.ismethod(value) or inspect.ismodule(value) or inspect.isbuiltin(value)
                or inspect.ismethoddescriptor(value) or isinstance(value, type(object().__str__)))
