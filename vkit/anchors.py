"""Anchor coverage: which lines of the functions each property is anchored in did the workload execute.

``python -m vkit.anchors generate`` maps the line ranges of properties.jsonl (valid for the pinned tree) to
code-object qualified names once and stores them in anchors.json; at run time the qualified names are looked up in
the current tree, so line shifts caused by later commits do not matter. Coverage is evidence only, never a verdict.
"""
import json
import os
import re
import sys
import types
from typing import Dict, List, Set, Tuple

from vkit import core

_PATH = os.path.join(os.path.dirname(os.path.abspath(__file__)), "anchors.json")
_RANGE_RE = re.compile(r"(icontract/[_a-z]+\.py)?:?\s*(\d+)(?:-(\d+))?")


def _code_objects(code: types.CodeType, out: List[types.CodeType]) -> None:
    out.append(code)
    for const in code.co_consts:
        if isinstance(const, types.CodeType):
            _code_objects(const, out)


def _lines(code: types.CodeType) -> Set[int]:
    return {ln for (_, _, ln) in code.co_lines() if ln is not None and ln != code.co_firstlineno}


def _module_codes(relpath: str) -> List[types.CodeType]:
    path = os.path.join(core.REPO, relpath)
    with open(path) as fid:
        src = fid.read()
    top = compile(src, path, "exec")
    out = []  # type: List[types.CodeType]
    _code_objects(top, out)
    return out


def _parse_where(where: str) -> List[Tuple[str, int, int]]:
    res = []
    cur = None
    for part in re.split(r"[;,]", where):
        m = re.search(r"(icontract/[_a-z]+\.py)\s*:\s*(\d+)(?:-(\d+))?", part)
        if m:
            cur = m.group(1)
            res.append((cur, int(m.group(2)), int(m.group(3) or m.group(2))))
            continue
        m = re.search(r"^\s*(\d+)(?:-(\d+))?", part)
        if m and cur:
            res.append((cur, int(m.group(1)), int(m.group(2) or m.group(1))))
    return res


def generate() -> None:
    result = {}  # type: Dict[str, List[List[str]]]
    with open(os.path.join(core.VERIF_DIR, "properties.jsonl")) as fid:
        props = [json.loads(line) for line in fid if line.strip()]
    cache = {}  # type: Dict[str, List[types.CodeType]]
    for prop in props:
        found = []  # type: List[List[str]]
        for mech in prop["anchors"]["mechanism"] + prop["anchors"].get("state", []):
            for relpath, lo, hi in _parse_where(mech.get("where", "")):
                codes = cache.setdefault(relpath, _module_codes(relpath))
                seen_q = {}  # type: Dict[str, int]
                for code in codes:
                    idx = seen_q.get(code.co_qualname, 0)
                    seen_q[code.co_qualname] = idx + 1
                    if code.co_name in ("<module>",) or code.co_name.startswith("<"):
                        continue
                    lines = _lines(code)
                    # nested code objects' lines are not part of the parent's co_lines
                    if any(lo <= ln <= hi for ln in lines):
                        item = [relpath, "{}#{}".format(code.co_qualname, idx)]
                        if item not in found:
                            found.append(item)
        result[prop["id"]] = found
    with open(_PATH, "w") as fid:
        json.dump(result, fid, indent=1, sort_keys=True)
    for k, v in result.items():
        print(k, len(v))


class Coverage:
    def __init__(self, targets: List[Tuple[str, types.CodeType]]):
        self.targets = targets
        self.hit = {}  # type: Dict[str, Set[int]]
        self.tool = 3

    def report(self) -> Dict[str, Dict[str, object]]:
        res = {}
        for name, code in self.targets:
            lines = _lines(code)
            res[name] = {"lines": len(lines), "hit": sorted(self.hit.get(name, set()) & lines)}
        return res


def start(prop: str):
    """Enable per-code-object LINE monitoring (each line reports once, then is disabled)."""
    if not hasattr(sys, "monitoring") or not os.path.exists(_PATH):
        return None
    with open(_PATH) as fid:
        wanted = json.load(fid).get(prop, [])
    if not wanted:
        return None
    import icontract  # noqa  pylint: disable=import-outside-toplevel,unused-import

    # locate live code objects by walking the loaded modules' functions
    by_file = {}  # type: Dict[str, Dict[str, types.CodeType]]
    for relpath in {w[0] for w in wanted}:
        modname = relpath[:-3].replace("/", ".")
        mod = sys.modules.get(modname)
        if mod is None:
            continue
        table = {}  # type: Dict[str, types.CodeType]
        seen = set()
        counts = {}  # type: Dict[str, int]

        def walk_code(code: types.CodeType) -> None:
            if id(code) in seen:
                return
            seen.add(id(code))
            idx = counts.get(code.co_qualname, 0)
            counts[code.co_qualname] = idx + 1
            table["{}#{}".format(code.co_qualname, idx)] = code
            for const in code.co_consts:
                if isinstance(const, types.CodeType):
                    walk_code(const)

        def walk_obj(obj, depth=0) -> None:
            if depth > 3:
                return
            if isinstance(obj, types.FunctionType):
                if obj.__code__.co_filename.endswith(relpath):
                    walk_code(obj.__code__)
            elif isinstance(obj, (staticmethod, classmethod)):
                walk_obj(obj.__func__, depth + 1)
            elif isinstance(obj, property):
                for f in (obj.fget, obj.fset, obj.fdel):
                    if f is not None:
                        walk_obj(f, depth + 1)
            elif isinstance(obj, type) and getattr(obj, "__module__", None) == modname:
                for v in vars(obj).values():
                    walk_obj(v, depth + 1)

        for v in list(vars(mod).values()):
            walk_obj(v)
        by_file[relpath] = table

    targets = []
    for relpath, qualname in wanted:
        code = by_file.get(relpath, {}).get(qualname)
        if code is not None:
            targets.append(("{}::{}".format(relpath, qualname), code))
    cov = Coverage(targets)
    mon = sys.monitoring
    try:
        mon.use_tool_id(cov.tool, "vkit-anchors")
    except ValueError:
        return None
    code_to_name = {id(code): name for name, code in targets}

    def on_line(code, lineno):
        name = code_to_name.get(id(code))
        if name is not None:
            cov.hit.setdefault(name, set()).add(lineno)
        return mon.DISABLE

    mon.register_callback(cov.tool, mon.events.LINE, on_line)
    for _, code in targets:
        mon.set_local_events(cov.tool, code, mon.events.LINE)
    return cov


if __name__ == "__main__":
    if len(sys.argv) > 1 and sys.argv[1] == "generate":
        generate()
