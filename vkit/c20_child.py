"""Child process of the C20 check: re-run generated violations under a given PYTHONHASHSEED and report messages.

usage: python c20_child.py <repo> <module.py> <calls.json>   (prints REPORT=<json>)
"""
import importlib.util
import itertools
import json
import os
import random
import sys

sys.path.insert(0, sys.argv[1])
sys.path.insert(1, os.path.dirname(os.path.dirname(os.path.abspath(__file__))))

import icontract  # noqa: E402  pylint: disable=wrong-import-position
import icontract._represent as rep  # noqa: E402  pylint: disable=wrong-import-position

assert icontract.__file__.startswith(sys.argv[1]), icontract.__file__

PARTS = []
_original = rep.repr_values


def _recording(condition, lambda_inspection, resolved_kwargs, a_repr):
    parts = _original(condition=condition, lambda_inspection=lambda_inspection, resolved_kwargs=resolved_kwargs, a_repr=a_repr)
    PARTS.append(list(parts))
    return parts


rep.repr_values = _recording

spec = importlib.util.spec_from_file_location("c20_generated", sys.argv[2])
mod = importlib.util.module_from_spec(spec)
sys.modules["c20_generated"] = mod
spec.loader.exec_module(mod)

with open(sys.argv[3]) as fid:
    calls = json.load(fid)

# the documented default limits, configured independently of the library's own default instance
import reprlib  # noqa: E402  pylint: disable=wrong-import-position

REFERENCE = reprlib.Repr()
for _name in ("maxdict", "maxlist", "maxtuple", "maxset", "maxfrozenset", "maxdeque", "maxarray"):
    setattr(REFERENCE, _name, 50)
REFERENCE.maxstring = 256
REFERENCE.maxother = 256

report = {"hashseed": os.environ.get("PYTHONHASHSEED"), "cases": {}}
ns = dict(vars(mod))
rng = random.Random(12345)


def sortable(items):
    """True if the items have a TOTAL order (one scalar type): only then does reprlib define the order in which they are shown."""
    kinds = {type(item) for item in items}
    return len(kinds) <= 1 and kinds <= {int, float, str, bytes}


def violate(name, kwargs):
    del PARTS[:]
    del mod.LOGREPR.log[:]
    try:
        getattr(mod, name)(**kwargs)
        return None, [], []
    except icontract.ViolationError as err:
        return str(err), (PARTS[-1] if PARTS else []), list(mod.LOGREPR.log)
    except BaseException as err:  # pylint: disable=broad-except
        return "OTHER {}: {}".format(type(err).__name__, err), [], []


for call in calls:
    name = call["name"]
    kwargs = {k: eval(v, ns) for k, v in call["kwargs"].items()}  # pylint: disable=eval-used
    msgs = []
    parts = None
    logged = None
    for _ in range(3):
        m, p, lg = violate(name, kwargs)
        msgs.append(m)
        parts, logged = p, lg
        # an unrelated violation in between
        violate("unrelated", {"q": rng.randint(-5, -1)})
    # keyword-argument order must not matter
    items = list(kwargs.items())
    perms = list(itertools.islice(itertools.permutations(items[:4]), 24))
    for perm in perms:
        rest = items[4:]
        rng.shuffle(rest)
        m, _p, _l = violate(name, dict(list(perm) + rest))
        msgs.append(m)
    mismatches = []
    n_cmp = 0
    if not call.get("custom_repr") and parts:
        for key, value in kwargs.items():
            prefix = key + " was "
            for part in parts:
                if part.startswith(prefix):
                    n_cmp += 1
                    want = REFERENCE.repr(value)
                    shown = part[len(prefix):]
                    if shown != want and isinstance(value, (set, frozenset)) and not sortable(value):
                        # reprlib defines no order for items which can not be compared (it shows them in hash order): the limits
                        # are pinned modulo the order of the items
                        same = (len(shown) == len(want) and shown.split("{")[0] == want.split("{")[0]
                                and all(REFERENCE.repr1(item, REFERENCE.maxlevel - 1) in shown for item in value))
                        if same:
                            continue
                    if shown != want:
                        mismatches.append([key, shown, want])
    report["cases"][name] = {"msgs": msgs, "parts": parts, "logged": logged, "default_limit_mismatches": mismatches,
                             "default_limit_comparisons": n_cmp}

# ---- class invariants (method call and attribute assignment) with the default and with a user-supplied a_repr
INVARIANT_SOURCE = """
import icontract

@icontract.invariant(lambda self: len(self.items) > 100{kw})
@icontract.invariant(lambda self: self.text == ""{kw}, check_on=icontract.InvariantCheckEvent.SETATTR)
class Shelf:
    def __init__(self, items):
        self.items = list(range(200))
        self.text = ""
        self.items = items

    def touch(self):
        return len(self.items)

class LateShelf(Shelf):
    pass
"""

report["invariants"] = []
for custom in (False, True):
    ns_inv = {"LOGREPR": mod.LOGREPR}
    src_path = os.path.join(os.path.dirname(sys.argv[2]), "c20_invariants_{}.py".format(int(custom)))
    with open(src_path, "w") as fid:
        fid.write(INVARIANT_SOURCE.replace("{kw}", ", a_repr=LOGREPR" if custom else ""))
    spec_inv = importlib.util.spec_from_file_location("c20_invariants_{}".format(int(custom)), src_path)
    mod_inv = importlib.util.module_from_spec(spec_inv)
    mod_inv.LOGREPR = mod.LOGREPR
    spec_inv.loader.exec_module(mod_inv)
    for scen, n_items, text in (("construct", 10, None), ("construct", 60, None), ("setattr", 150, "y" * 300), ("setattr", 150, "z" * 20)):
        del PARTS[:]
        del mod.LOGREPR.log[:]
        items = list(range(n_items))
        entry = {"scenario": scen, "custom": custom, "n_items": n_items, "outcome": None, "parts": [], "logged": [], "reference": {}}
        try:
            if scen == "construct":
                mod_inv.Shelf(items)
            else:
                shelf = mod_inv.Shelf(list(range(n_items)))
                shelf.text = text
            entry["outcome"] = "returned"
        except icontract.ViolationError as err:
            entry["outcome"] = "violation"
            entry["message"] = str(err)
            entry["parts"] = list(PARTS[-1]) if PARTS else []
            entry["logged"] = list(mod.LOGREPR.log)
            entry["reference"] = {"self.items": REFERENCE.repr(items), "self.text": REFERENCE.repr(text)}
        except BaseException as err:  # pylint: disable=broad-except
            entry["outcome"] = "OTHER {}: {}".format(type(err).__name__, err)
        report["invariants"].append(entry)

print("REPORT=" + json.dumps(report))
