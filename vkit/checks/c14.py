"""C14 — satisfied contracts are transparent."""
import abc
import builtins
import inspect
from typing import Any, Dict, List, Optional, Tuple

from vkit import probe, prog
from vkit.checks import c05
from vkit.probe import Tok
from vkit.prog import got_text, sig_text

ID = "C14"
LEVEL = "exploration"
SHARDS = {"quick": 4, "thorough": 16}
TIMEOUT = {"quick": 300, "thorough": 3000}
DECIDING = ["calls_compared", "metadata_comparisons", "class_programs", "foreign_decorator_stacks"]
RULE = (
    "(A) callables: signatures from the C05 enumeration (sampled) x kind {function, async function, method, static, class "
    "method, property getter} x stacks of 1..4 contract decorators (require/ensure/snapshot, all holding) optionally "
    "separated by 0..2 foreign functools.wraps decorators that log, optionally abc.abstractmethod inside/outside, with "
    "docstrings and annotations; every call shape Python accepts (sampled to 12 per signature). Monitors: the body receives "
    "(by identity) the objects the caller passed, incl. *args/**kwargs contents; the caller receives the identical result or "
    "raised exception; __name__, __qualname__, __doc__, __module__, __annotations__, inspect.signature, __isabstractmethod__, "
    "iscoroutinefunction equal the original's; the original is reachable via __wrapped__; exactly one object of the chain "
    "carries contract lists; every foreign decorator runs exactly once per call. (B) classes given (true) invariants: plain, "
    "__slots__, own __new__, no __init__, dataclass, NamedTuple, generic, first parameter not named self, and subclasses "
    "adding constructors / methods: decorated class is the original object; class and subclasses behave as their undecorated "
    "twins (same results, same exceptions) for construction, method calls, attribute access, pickling-free copy of state. "
    "(C) contract-inheriting hierarchies (overrides of every member kind incl. properties with explicit doc, members inherited "
    "without overriding, abstract bases, class keywords/__init_subclass__, diamonds with mixins, slots+Generic+dataclass) loaded "
    "twice from the same source - decorators defined as the library's or as identity, base DBC or abc.ABC: member metadata and "
    "operation logs must be equal. "
    "Non-trivial = every compared call / class program; distinct = (kind, signature, stack, shape) or class-program tag."
    ' Class twins added: instance-only descriptor as class attribute, __new__ reached through an instance, invarian'
    't mix-in in front of a built-in base (hash / == / dict lookup / str / ordering as the built-in).'
    ' Plain sub-class joining a class with invariants and a mixin that defines special methods (__str__, __eq__, __hash__, __format__, __lt__) or a constructor (__new__).'
)
ASSUMPTIONS = ["all contracts in this workload hold; construction paths that bypass the constructor are a silent zone"]

PRELUDE = '''
import abc
import dataclasses
import functools
import typing
import icontract

ORIGINALS = {}

def capture(tag):
    def deco(func):
        ORIGINALS[tag] = func
        return func
    return deco

def foreign(tag):
    # (a tag ending in "~": the decorator exposes __wrapped__ but does not copy the attributes of what it wraps)
    wraps = (lambda func: functools.wraps(func, updated=())) if tag.endswith("~") else functools.wraps
    def deco(func):
        if __import__("inspect").iscoroutinefunction(func):
            @wraps(func)
            async def awrapper(*args, **kwargs):
                HUB.log("foreign", tag, None, None)
                return await func(*args, **kwargs)
            return awrapper
        @wraps(func)
        def wrapper(*args, **kwargs):
            HUB.log("foreign", tag, None, None)
            return func(*args, **kwargs)
        return wrapper
    return deco

def t_cond(*a, **k):
    return True
'''


def contract_decorators(rng, names: List[str], n: int, n_foreign: int, fid: str, second_guise: bool = True) -> Tuple[List[str], int, int]:
    """Build a decorator stack (top -> bottom). Returns (lines, number of contract decorators, number of foreign)."""
    # bottom-up construction: at least one ensure before any snapshot
    stack = []  # bottom first
    have_post = False
    n_snap = 0
    for i in range(n):
        choices = ["require", "ensure"] + (["snapshot"] if have_post else [])
        c = rng.choice(choices)
        asked = sorted(rng.sample(names, rng.randint(0, min(2, len(names))))) if names else []
        if c == "require":
            stack.append("@icontract.require(lambda {}: HUB.cond('c{}_{}', {}))".format(", ".join(asked), i, fid, got_text(asked)))
        elif c == "ensure":
            asked2 = asked + ["result"]
            stack.append("@icontract.ensure(lambda {}: HUB.cond('c{}_{}', {}))".format(", ".join(asked2), i, fid, got_text(asked2)))
            have_post = True
        else:
            n_snap += 1
            stack.append("@icontract.snapshot(lambda {}: HUB.capture('s{}_{}', {}), name='snap{}')".format(
                ", ".join(asked), i, fid, got_text(asked), i))
    # insert foreign decorators at random positions strictly between / above contract decorators
    for j in range(n_foreign):
        pos = rng.randint(1, len(stack))
        stack.insert(pos, "@foreign('F{}_{}{}')".format(j, fid, "~" if second_guise and rng.random() < 0.4 else ""))
    return list(reversed(stack)), n, n_foreign


def render_callable(rng, fid: str, params: List[Dict[str, Any]], kind: str, n_contract: int, n_foreign: int, abstract: str) -> Tuple[str, Dict[str, Any]]:
    names = c05.named(params)
    allnames = [p["name"] for p in params]
    # (a foreign decorator which does not copy the attributes would lose __isabstractmethod__ by itself: only on concrete callables)
    decos, nc, nf = contract_decorators(rng, names, n_contract, n_foreign, fid, second_guise=(abstract == "none"))
    sig = sig_text(params)
    # annotations on the first named parameter and the return value
    ann_sig = sig
    doc = "Docstring of {}.".format(fid)
    body_got = got_text(allnames)
    meta = {"fid": fid, "kind": kind, "n_contract": nc, "n_foreign": nf, "abstract": abstract, "decos": decos}
    lines = []
    is_async = kind in ("async", "amethod")
    ret = "{}HUB.{}body({!r}, {})".format("await " if is_async else "", "a" if is_async else "", "f_" + fid, body_got)
    if kind in ("function", "async"):
        lines += decos + ["@capture({!r})".format(fid)]
        lines += ["{}def f_{}({}) -> 'Tok':".format("async " if is_async else "", fid, ann_sig), "    {!r}".format(doc), "    return " + ret]
        src = "\n".join(lines) + "\n"
        src += "def bare_{}({}):\n    return {}\n".format(fid, sig, body_got)
        return src, meta
    first = {"method": "self", "amethod": "self", "class": "cls", "static": None, "pget": "self"}[kind]
    msig = sig if first is None else (first + (", " + sig if sig else ""))
    body_all = got_text(allnames)
    ind = "    "
    cls_lines = ["class K_{}(icontract.DBC):".format(fid) if abstract == "none" else "class K_{}(icontract.DBC):".format(fid)]
    member = []
    if kind == "static":
        member.append("@staticmethod")
    elif kind == "class":
        member.append("@classmethod")
    elif kind == "pget":
        member.append("@property")
    if abstract == "outside":
        member.append("@abc.abstractmethod")
    member += decos
    if abstract == "inside":
        member.append("@abc.abstractmethod")
    member.append("@capture({!r})".format(fid))
    member.append("{}def f_{}({}) -> 'Tok':".format("async " if is_async else "", fid, msig))
    member.append("    {!r}".format(doc))
    member.append("    return " + ret)
    cls_lines += [ind + m for m in member]
    src = "\n".join(cls_lines) + "\n"
    if abstract != "none":
        src += "class KC_{f}(K_{f}):\n    pass\n".format(f=fid)
    src += "def bare_{}({}):\n    return {}\n".format(fid, sig, body_got)
    return src, meta


def check_metadata(w, fid: str, fn: Any, orig: Any, meta: Dict[str, Any], case: Dict[str, Any]) -> None:
    import icontract._checkers  # pylint: disable=import-outside-toplevel

    for attr in ("__name__", "__qualname__", "__doc__", "__module__", "__annotations__"):
        w.count("metadata_comparisons")
        if getattr(fn, attr, "<missing>") != getattr(orig, attr, "<missing>"):
            w.violation("C14/metadata-{}-differs".format(attr.strip("_")), "{}: decorated {!r} vs original {!r}".format(
                attr, getattr(fn, attr, "<missing>"), getattr(orig, attr, "<missing>")), case)
    w.count("metadata_comparisons")
    try:
        if inspect.signature(fn) != inspect.signature(orig):
            w.violation("C14/signature-differs", "signature {} vs {}".format(inspect.signature(fn), inspect.signature(orig)), case)
    except (TypeError, ValueError) as err:
        w.violation("C14/signature-unavailable", repr(err), case)
    if inspect.iscoroutinefunction(fn) != inspect.iscoroutinefunction(orig):
        w.violation("C14/coroutine-ness-differs", "iscoroutinefunction {} vs {}".format(
            inspect.iscoroutinefunction(fn), inspect.iscoroutinefunction(orig)), case)
    want_abstract = meta["abstract"] != "none"
    if bool(getattr(fn, "__isabstractmethod__", False)) != want_abstract:
        w.violation("C14/abstractness-differs", "__isabstractmethod__ is {} but the method is {}abstract".format(
            getattr(fn, "__isabstractmethod__", False), "" if want_abstract else "not "), case)
    # __wrapped__ chain
    chain = list(icontract._checkers._walk_decorator_stack(fn)) if hasattr(icontract._checkers, "_walk_decorator_stack") else []
    seen = []
    cur = fn
    while True:
        seen.append(cur)
        if not hasattr(cur, "__wrapped__") or len(seen) > 50:
            break
        cur = cur.__wrapped__
    if seen[-1] is not orig:
        w.violation("C14/original-not-reachable-through-wrapped", "__wrapped__ chain ends at {!r}".format(seen[-1]), case)
    # functools.wraps copies the attribute references of the checker onto every decorator above it, so outer objects
    # may show (possibly stale) copies of the lists; the innermost carrier is the checker and must list every contract
    carriers = [c for c in seen if "__preconditions__" in getattr(c, "__dict__", {}) or "__postconditions__" in getattr(c, "__dict__", {})]
    if meta["n_contract"] and not carriers:
        w.violation("C14/no-checker-on-the-stack", "no object in the decorator stack carries contract lists", case)
    if carriers:
        chk = carriers[-1]
        total = sum(len(g) for g in chk.__preconditions__) + len(chk.__postconditions__) + len(chk.__postcondition_snapshots__)
        if total != meta["n_contract"]:
            w.violation("C14/contracts-lost-or-duplicated", "{} contract decorators but the checker lists {} contracts".format(
                meta["n_contract"], total), case)


def run_callables(w, batch) -> None:
    rng = w.rng
    src = [PRELUDE]
    metas = []
    for fid, params, kind, nc, nf, abstract in batch:
        s, meta = render_callable(rng, fid, params, kind, nc, nf, abstract)
        src.append(s)
        metas.append((fid, params, kind, meta))
    loaded = prog.load_source("".join(src), w.scratch())
    hub = loaded.hub
    mod = loaded.module
    try:
        for fid, params, kind, meta in metas:
            case = {"kind": kind, "sig": sig_text(params), "params": params, "decorators": meta["decos"], "abstract": meta["abstract"],
                    "n_contract": meta["n_contract"], "n_foreign": meta["n_foreign"]}
            orig = mod.ORIGINALS[fid]
            if kind in ("function", "async"):
                fn = getattr(mod, "f_" + fid)
                holder = None
            else:
                K = getattr(mod, "K_" + fid)
                raw = inspect.getattr_static(K, "f_" + fid)
                if kind in ("static", "class"):
                    fn = raw.__func__
                elif kind == "pget":
                    fn = raw.fget
                else:
                    fn = raw
                if meta["abstract"] != "none":
                    w.count("abstract_members")
                    try:
                        K()
                        w.violation("C14/abstract-class-instantiable", "class with an abstract contracted method was instantiated", case)
                    except TypeError:
                        pass
                    if bool(getattr(raw, "__isabstractmethod__", False)) is not True:
                        w.violation("C14/abstractness-differs", "class attribute lost __isabstractmethod__", case)
                    K = getattr(mod, "KC_" + fid) if False else K
                holder = K
            check_metadata(w, fid, fn, orig, meta, case)
            if meta["n_foreign"]:
                w.count("foreign_decorator_stacks")
            if meta["abstract"] != "none":
                continue
            # behaviour
            bare = getattr(mod, "bare_" + fid)
            sig = inspect.signature(bare)
            shapes = c05.call_shapes(params, rng, 12)
            for npos, kws in shapes:
                args = tuple(Tok("p{}".format(i)) for i in range(npos))
                kwargs = {k: Tok("k_" + k) for k in kws}
                try:
                    bare(*args, **kwargs)  # Python itself decides whether the call can be bound
                except TypeError:
                    continue
                if kind == "pget" and (args or kwargs):
                    continue
                for script in ({}, {"raise": "BodyError"}, {"ret": "none"}):
                    hub.reset()
                    hub.body_script = {"*": script}
                    exc = None
                    res = None
                    try:
                        if kind in ("function", "async"):
                            res = fn(*args, **kwargs)
                        elif kind == "pget":
                            res = getattr(holder(), "f_" + fid)
                        elif kind in ("method", "amethod"):
                            res = getattr(holder(), "f_" + fid)(*args, **kwargs)
                        else:
                            res = getattr(holder, "f_" + fid)(*args, **kwargs)
                        if inspect.iscoroutine(res):
                            res = probe.drive(res)
                    except BaseException as err:  # pylint: disable=broad-except
                        exc = err
                    w.count("calls_compared")
                    w.case((kind, sig_text(params), tuple(meta["decos"]), npos, kws, str(script)))
                    expected = bare(*args, **kwargs)
                    body = [e for e in hub.events if e.kind == "body"]
                    c2 = dict(case, npos=npos, kws=list(kws), script=script)
                    if len(body) != 1:
                        w.violation(classify(meta, "body-not-run-exactly-once"), "body ran {} times; outcome {!r}".format(len(body), exc or res), c2)
                        continue
                    got = body[0].got
                    for name, val in expected.items():
                        a, b = got.get(name), val
                        same = a is b
                        if isinstance(b, tuple) and isinstance(a, tuple):
                            same = len(a) == len(b) and all(x is y for x, y in zip(a, b))
                        elif isinstance(b, dict) and isinstance(a, dict):
                            same = list(a) == list(b) and all(a[k] is b[k] for k in a)
                        if not same:
                            w.violation("C14/body-received-other-object", "{}: body got {!r}, caller passed {!r}".format(name, a, b), c2)
                    if "raise" in script:
                        if exc is not hub.last_body_exc:
                            w.violation("C14/exception-not-identical", "caller got {!r}, body raised {!r}".format(exc, hub.last_body_exc), c2)
                    else:
                        if exc is not None:
                            w.violation(classify(meta, "satisfied-call-raised"), "call raised {}: {}".format(type(exc).__name__, str(exc)[:200]), c2)
                        elif res is not hub.last_body_result:
                            w.violation("C14/result-not-identical", "caller got {!r}, body returned {!r}".format(res, hub.last_body_result), c2)
                    n_foreign_events = sum(1 for e in hub.events if e.kind == "foreign")
                    if n_foreign_events != meta["n_foreign"]:
                        w.violation(classify(meta, "foreign-decorator-not-run-once"), "{} foreign decorators on the stack, {} ran".format(
                            meta["n_foreign"], n_foreign_events), c2)
                    n_contract_events = sum(1 for e in hub.events if e.kind in ("cond", "snap"))
                    if "raise" not in script and n_contract_events != meta["n_contract"]:
                        w.violation(classify(meta, "contracts-not-all-evaluated"), "{} contract decorators, {} evaluations".format(
                            meta["n_contract"], n_contract_events), c2)
            if w.counters.get("evaluations", 0) % 50 == 1:
                w.sample({"kind": kind, "signature": sig_text(params), "decorators": meta["decos"]})
    finally:
        loaded.unload()


def classify(meta, what: str) -> str:
    if meta["n_foreign"] and meta["n_contract"] >= 2:
        # a foreign decorator sits between two contract decorators
        decos = meta["decos"]
        idx_f = [i for i, d in enumerate(decos) if d.startswith("@foreign")]
        idx_c = [i for i, d in enumerate(decos) if d.startswith("@icontract")]
        if any(min(idx_c) < i < max(idx_c) for i in idx_f) and what in ("foreign-decorator-not-run-once",):
            return "C14/foreign-decorator-dropped-between-contracts"
    return "C14/" + what


# ---------------------------------------------------------------------------------------------------------------------
# (B) classes
# ---------------------------------------------------------------------------------------------------------------------

CLASS_PROGRAMS = {
    "plain-init": '''
{deco}
class K{base}:
    def __init__(self, x, y=2):
        self.x = x
        self.y = y
    def get(self) -> tuple:
        """Doc of get."""
        return (self.x, self.y)
    def bump(self, d: int):
        self.x = self.x + d
        return self
    @property
    def prop(self):
        """Doc of prop."""
        return self.x
    @prop.setter
    def prop(self, v):
        self.x = v
    def _get_z(self):
        return self.y
    z = property(_get_z, doc="Explicit doc of z, not the getter's.")
    @staticmethod
    def st(a):
        """Doc of st."""
        return a
    @classmethod
    def cm(cls, a):
        return (cls.__name__, a)
    def __len__(self):
        return 3
    def __eq__(self, other):
        return isinstance(other, K) and self.x == other.x
    def __hash__(self):
        return 1
OPS = [("new", (1,), {{}}), ("call", "get"), ("call", "bump", 2), ("getattr", "prop"), ("getattr", "z"), ("setattr", "prop", 5), ("call", "st", 7),
       ("call", "cm", 8), ("len",), ("eqself",), ("setattr", "fresh", 1), ("getattr", "fresh"), ("new", (), {{}}), ("new", (1, 2, 3), {{}}),
       ("new", (1,), {{"y": 4}}), ("isinstance",)]
''',
    "no-init": '''
{deco}
class K{base}:
    def get(self):
        return 42
OPS = [("new", (), {{}}), ("call", "get"), ("new", (1,), {{}}), ("isinstance",)]
''',
    "no-init-subclass-with-init-args": '''
{deco}
class Base{base}:
    def get(self):
        return 42
class K(Base):
    def __init__(self, x):
        self.x = x
    def getx(self):
        return self.x
OPS = [("new", (1,), {{}}), ("call", "get"), ("call", "getx"), ("new", (), {{}}), ("isinstance",)]
''',
    "no-init-subclass-with-kwonly-init": '''
{deco}
class Base{base}:
    def get(self):
        return 42
class K(Base):
    def __init__(self, *, x=3):
        self.x = x
    def getx(self):
        return self.x
OPS = [("new", (), {{"x": 5}}), ("call", "getx"), ("new", (), {{}}), ("call", "get")]
''',
    "init-subclass-adds-init": '''
{deco}
class Base{base}:
    def __init__(self, a):
        self.a = a
    def get(self):
        return self.a
class K(Base):
    def __init__(self, a, b):
        super().__init__(a)
        self.b = b
    def both(self):
        return (self.a, self.b)
OPS = [("new", (1, 2), {{}}), ("call", "get"), ("call", "both"), ("new", (1,), {{}})]
''',
    "own-new": '''
{deco}
class K{base}:
    def __new__(cls, x):
        inst = super().__new__(cls)
        inst.made_by_new = x
        return inst
    def __init__(self, x):
        self.x = x
    def get(self):
        return (self.made_by_new, self.x)
OPS = [("new", (1,), {{}}), ("call", "get"), ("new", (), {{}})]
''',
    "own-new-no-init": '''
{deco}
class K{base}:
    def __new__(cls, x=7):
        inst = super().__new__(cls)
        inst.x = x
        return inst
    def get(self):
        return self.x
OPS = [("new", (1,), {{}}), ("call", "get"), ("new", (), {{}}), ("new", (1, 2), {{}})]
''',
    "slots": '''
{deco}
class K{base}:
    __slots__ = ("x",)
    def __init__(self, x):
        self.x = x
    def get(self):
        return self.x
OPS = [("new", (1,), {{}}), ("call", "get"), ("setattr", "x", 5), ("setattr", "nope", 5), ("getattr", "x")]
''',
    "dataclass": '''
{deco}
@dataclasses.dataclass
class K{base}:
    x: int
    y: int = 2
    def total(self):
        return self.x + self.y
OPS = [("new", (1,), {{}}), ("call", "total"), ("new", (1, 5), {{}}), ("eqself",), ("repr",), ("new", (), {{}}), ("setattr", "x", 9), ("call", "total")]
''',
    "frozen-dataclass": '''
{deco}
@dataclasses.dataclass(frozen=True)
class K{base}:
    x: int
    def total(self):
        return self.x
OPS = [("new", (1,), {{}}), ("call", "total"), ("setattr", "x", 9), ("hash",), ("eqself",)]
''',
    "namedtuple": '''
{deco}
class K(typing.NamedTuple):
    x: int
    y: int = 2
    def total(self):
        return self.x + self.y
OPS = [("new", (1,), {{}}), ("call", "total"), ("new", (1, 5), {{}}), ("len",), ("getattr", "x"), ("new", (), {{}}), ("index", 0)]
''',
    "first-param-not-self": '''
{deco}
class K{base}:
    def __init__(this, x):
        this.x = x
    def get(this):
        return this.x
    def put(me, v):
        me.x = v
        return me.x
OPS = [("new", (1,), {{}}), ("call", "get"), ("call", "put", 4)]
''',
    "self-as-keyword": '''
{deco}
class K{base}:
    def __init__(self, x):
        self.x = x
    def get(self, d=0):
        return self.x + d
OPS = [("new", (1,), {{}}), ("unbound_kw", "get"), ("unbound", "get"), ("call", "get", 2)]
''',
    "generic": '''
T = typing.TypeVar("T")
{deco}
class K(typing.Generic[T]{comma_base}):
    def __init__(self, x):
        self.x = x
    def get(self):
        return self.x
OPS = [("new", (1,), {{}}), ("call", "get"), ("subscript_new", (2,)), ("isinstance",)]
''',
    "getattr-setattr-defined": '''
{deco}
class K{base}:
    def __init__(self):
        object.__setattr__(self, "store", {{}})
    def __getattr__(self, name):
        if name.startswith("__"):
            raise AttributeError(name)
        return ("dyn", name)
    def __setattr__(self, name, value):
        self.store[name] = value
    def get(self):
        return dict(self.store)
OPS = [("new", (), {{}}), ("setattr", "a", 1), ("getattr", "zzz"), ("call", "get")]
''',
    "subclass-overrides-method": '''
{deco}
class Base{base}:
    def __init__(self, x):
        self.x = x
    def get(self):
        return self.x
    def twice(self):
        return self.get() * 2
class K(Base):
    def get(self):
        return super().get() + 100
    def extra(self, a, *rest, k=1, **kw):
        return (a, rest, k, kw)
OPS = [("new", (1,), {{}}), ("call", "get"), ("call", "twice"), ("call", "extra", 1, 2, 3)]
''',
    "classmethod-factory": '''
{deco}
class K{base}:
    def __init__(self, x):
        self.x = x
    @classmethod
    def make(cls, x):
        return cls(x)
    def get(self):
        return self.x
OPS = [("new", (1,), {{}}), ("call", "make", 5), ("call", "get")]
''',
    "new-returns-object-of-another-type": '''
{deco}
class K{base}:
    def __new__(cls, x):
        if x < 0:
            return 42
        return super().__new__(cls)
    def get(self):
        return 7
OPS = [("new", (-1,), {{}}), ("new", (1,), {{}}), ("call", "get")]
''',
    "new-returns-instance-of-another-class-with-invariants": '''
{deco2}
class Other:
    """A class with invariants of its own (and no constructor); K hands out its instances for some inputs."""
    x = 1
    def get(self):
        return 70
{deco}
class K{base}:
    def __new__(cls, x):
        if x < 0:
            return Other()
        return super().__new__(cls)
    def get(self):
        return 7
OPS = [("new", (-1,), {{}}), ("new", (1,), {{}}), ("call", "get")]
''',
    "descriptor-only-defined-for-instances": '''
class PerInstance:
    """A descriptor which is only defined for instances (like the relation attributes of ORMs): reading it on the class fails."""
    def __set_name__(self, owner, name):
        self.name = name
    def __get__(self, instance, owner=None):
        if instance is None:
            raise AttributeError("{{}} is only available on instances".format(self.name))
        return instance.__dict__.get("_" + self.name, 0)
    def __set__(self, instance, value):
        instance.__dict__["_" + self.name] = value
{deco}
class K{base}:
    amount = PerInstance()
    def __init__(self, amount=1):
        self.amount = amount
    def double(self):
        return self.amount * 2
OPS = [("new", (3,), {{}}), ("call", "double"), ("getattr", "amount"), ("setattr", "amount", 5), ("call", "double")]
''',
    "invariant-mixin-before-builtin-base": '''
{deco}
class Base{base}:
    """A mix-in with invariants in front of a built-in base: the special methods of the built-in base stay in charge."""
    def tag(self):
        return "mixin"
{deco2}
class K(Base, int):
    pass
OPS = [("new", (5,), {{}}), ("call", "tag"), ("asbuiltin", "int"), ("call", "bit_length"), ("repr",)]
''',
    "abstract-members-of-a-class-with-invariants": '''
import abc
import icontract
BASES = (icontract.DBC,) if "{base}" else (abc.ABC,)
{deco}
class Base(*BASES):
    def __init__(self):
        self.sides = 4
    @abc.abstractmethod
    def area(self):
        """Abstract method."""
    @property
    @abc.abstractmethod
    def label(self):
        """Abstract property."""
    def describe(self):
        return "{{}}:{{}}".format(self.label, self.area())
class Careless(Base):
    def area(self):
        return 0
class K(Base):
    def area(self):
        return 16
    @property
    def label(self):
        return "square"
OPS = [("abstracts", "Base"), ("abstracts", "Careless"), ("abstracts", "K"), ("newof", "Base"), ("newof", "Careless"), ("new", (), {{}}), ("call", "describe"),
       ("isabstract", "Base", "area"), ("isabstract", "Base", "label"), ("isabstract", "K", "area")]
''',
    "copied-and-pickled-through-setstate": '''
import icontract
# (an invariant which reads the state of the object: it cannot be evaluated on the blank object that copy / pickle start from)
READS_STATE = icontract.invariant(lambda self: self.x > 0) if {is_dec} else (lambda cls: cls)
{deco}
@READS_STATE
class K{base}:
    """The state is handed over explicitly (copy, deepcopy and pickle build a blank object and call __setstate__ on it)."""
    def __init__(self, x=1):
        self.x = x
        self.cache = {{}}
    def __getstate__(self):
        return {{"x": self.x}}
    def __setstate__(self, state):
        self.x = state["x"]
        self.cache = {{}}
    def get(self):
        return self.x
OPS = [("new", (3,), {{}}), ("call", "get"), ("copy",), ("deepcopy",), ("pickle",), ("call", "get")]
''',
    "keyword-named-self-collected-by-var-keyword": '''
{deco}
class K{base}:
    """``self=...`` is an ordinary keyword here: the instance parameter is positional-only, or has another name."""
    def __init__(self):
        self.tags = {{}}
    def update(self, /, **kwargs):
        self.tags.update(kwargs)
        return sorted(self.tags.items())
    def put(this, **kwargs):
        this.tags.update(kwargs)
        return sorted(this.tags.items())
OPS = [("new", (), {{}}), ("callkw", "update", {{"self": 1, "b": 2}}), ("callkw", "put", {{"self": 3}}), ("callkw", "update", {{"a": 0}})]
''',
    "diamond-whose-sibling-adds-a-constructor": '''
class Root{base}:
    def __init__(self):
        self.x = 1
    def who(self):
        return "root"
{deco2}
class Left(Root):
    """Invariants, no constructor of its own (it holds a wrapped copy of Root's)."""
    def left(self):
        return self.x
class Right(Root):
    def __init__(self, y=0):
        super().__init__()
        self.y = y
    def who(self):
        return "right"
{deco}
class K(Left, Right):
    pass
OPS = [("new", (5,), {{}}), ("getattr", "y"), ("call", "who"), ("call", "left"), ("new", (), {{"y": 6}}), ("getattr", "y"), ("getattr", "x"), ("mro",)]
''',
    "plain-subclass-joining-a-mixin-with-special-methods": '''
class Mixin:
    """Defines what object only provides defaults for."""
    def __str__(self):
        return "mixin-str"
    def __eq__(self, other):
        return isinstance(other, Mixin) or other == "anything"
    def __hash__(self):
        return 7
    def __format__(self, spec):
        return "mixin-format"
    def __lt__(self, other):
        return True
{deco}
class Base{base}:
    def get(self):
        return 1
class K(Base, Mixin):
    pass
OPS = [("new", (), {{}}), ("str",), ("eqto", "anything"), ("hashval",), ("format",), ("ltself",), ("call", "get"), ("mro",)]
''',
    "plain-subclass-joining-a-mixin-with-a-constructor": '''
class Mixin:
    def __new__(cls, *args, **kwargs):
        self = super().__new__(cls)
        self.made_by_mixin = True
        return self
{deco}
class Base{base}:
    def get(self):
        return 1
class K(Base, Mixin):
    pass
OPS = [("new", (), {{}}), ("getattr", "made_by_mixin"), ("call", "get"), ("mro",)]
''',
    "plain-diamond-whose-sibling-overrides-inherited-members": '''
class Root{base}:
    def __init__(self, x=1):
        self.x = x
    def who(self):
        return "root"
    def twice(self, n):
        return 2 * n
{deco}
class Base(Root):
    """Invariants; inherits everything from the plain Root (and holds wrapped copies of it)."""
    def left(self):
        return self.x
class Right(Root):
    def __init__(self, x=1, y=5):
        super().__init__(x)
        self.y = y
    def who(self):
        return "right"
class K(Base, Right):
    pass
OPS = [("new", (), {{}}), ("call", "who"), ("call", "twice", 3), ("call", "left"), ("getattr", "y"), ("new", (2, 3), {{}}), ("getattr", "y"), ("mro",)]
''',
    "plain-diamond-whose-sibling-overrides-an-inherited-property": '''
class Root{base}:
    def __init__(self):
        self._v = 1
    @property
    def v(self):
        return self._v
    @v.setter
    def v(self, value):
        self._v = value
{deco}
class Base(Root):
    def left(self):
        return self._v
class Right(Root):
    @property
    def v(self):
        return ("right", self._v)
    @v.setter
    def v(self, value):
        self._v = 10 * value
class K(Base, Right):
    pass
OPS = [("new", (), {{}}), ("getattr", "v"), ("setattr", "v", 3), ("getattr", "v"), ("call", "left")]
''',
    "members-re-used-in-an-unrelated-class-without-invariants": '''
{deco}
class Base{base}:
    def __init__(self):
        self.x = 1
    def get(self, d=0):
        return self.x + d
    @property
    def prop(self):
        return self.x
    def __len__(self):
        return self.x
class K:
    """Unrelated to Base and without invariants of its own: it only borrows members."""
    def __init__(self):
        self.x = 2
    get = Base.get
    prop = Base.prop
    __len__ = Base.__len__
    # (special methods which Base itself only has from object: in the bare class these are object's own)
    __eq__ = Base.__eq__
    __hash__ = Base.__hash__
    __ne__ = Base.__ne__
OPS = [("new", (), {{}}), ("call", "get"), ("call", "get", 3), ("getattr", "prop"), ("len",), ("eqself",), ("hash",), ("eqto", 3)]
''',
    "constructor-keywords-named-like-parameters-of-the-wrappers": '''
{deco}
class Base{base}:
    def get(self):
        return 1
class K(Base):
    """Its constructor takes keywords which the library's own wrappers might use as parameter names."""
    def __init__(self, klass=0, cls=0, instance=0, args=0, kwargs=0):
        self.got = (klass, cls, instance, args, kwargs)
OPS = [("new", (), {{"klass": 1}}), ("getattr", "got"), ("new", (), {{"cls": 2, "instance": 3}}), ("getattr", "got"),
       ("new", (), {{"args": 4, "kwargs": 5}}), ("getattr", "got"), ("call", "get")]
''',
    "constructor-borrowed-by-a-class-without-invariants": '''
{deco}
class Base{base}:
    def __init__(self, x=1):
        self.x = x
    def get(self):
        return self.x
class K:
    """Unrelated to Base and without invariants of its own: it borrows the constructor."""
    __init__ = Base.__init__
    def get(self):
        return self.x
OPS = [("new", (5,), {{}}), ("call", "get"), ("new", (), {{}}), ("getattr", "x")]
''',
    "constructor-inherited-from-a-subclass-of-a-class-without-constructor": '''
{deco}
class Base{base}:
    def get(self):
        return 1
class Named(Base):
    def __init__(self, name, retries=1):
        self.name, self.retries = name, retries
class K(Named):
    """Only inherits the constructor which Named added."""
    def label(self):
        return "{{}}:{{}}".format(self.name, self.retries)
OPS = [("new", ("b",), {{}}), ("call", "label"), ("new", (), {{"name": "c", "retries": 5}}), ("call", "label"), ("call", "get")]
''',
    "singleton-new": '''
{deco}
class K{base}:
    _instance = None
    def __new__(cls):
        if cls._instance is None:
            cls._instance = super().__new__(cls)
            cls._instance.n = 0
        return cls._instance
    def bump(self):
        self.n += 1
        return self.n
OPS = [("new", (), {{}}), ("call", "bump"), ("new", (), {{}}), ("call", "bump"), ("getattr", "n"), ("inew",), ("call", "bump")]
''',
    "subclass-inherits-static-class-property-members": '''
{deco}
class Base{base}:
    def __init__(self, x):
        self.x = x
    @staticmethod
    def st(a, factor=2):
        """Doc of st."""
        return a * factor
    @classmethod
    def cm(cls, a):
        return (cls.__name__, a)
    def _get_z(self):
        return self.x
    z = property(_get_z, doc="Explicit doc of z.")
    def get(self, d=0):
        return self.x + d
{deco2}
class Middle(Base):
    def extra(self):
        return self.x
class K(Middle):
    pass
OPS = [("kcall", "st", 3), ("kcall", "cm", 4), ("rawtype", "st"), ("rawtype", "cm"), ("new", (1,), {{}}), ("call", "st", 7), ("call", "st", 7, 5),
       ("call", "cm", 8), ("getattr", "z"), ("call", "get", 1), ("call", "extra"), ("kcall", "st", 9), ("isinstance",)]
''',
    "methods-awaiting-and-calling-each-other": '''
{deco}
class K{base}:
    def __init__(self):
        self.v = 1
    async def inner(self, a):
        return ("inner", a, self.v)
    async def outer(self, a):
        return ("outer", await self.inner(a))
    async def outermost(self, a):
        return ("outermost", await self.outer(a), await self.inner(a + 1))
    def get(self):
        return self.v
    def twice(self):
        return (self.get(), self.get())
    async def mixed(self):
        return (self.twice(), await self.inner(0))
OPS = [("new", (), {{}}), ("acall", "inner", 1), ("acall", "outer", 2), ("acall", "outermost", 3), ("call", "twice"), ("acall", "mixed")]
''',
    "context-manager-and-iter": '''
{deco}
class K{base}:
    def __init__(self):
        self.n = 0
    def __enter__(self):
        self.n += 1
        return self
    def __exit__(self, *exc):
        self.n -= 1
        return False
    def __iter__(self):
        return iter([1, 2, 3])
    def __getitem__(self, i):
        return i * 2
    def __call__(self, a):
        return a
    def __bool__(self):
        return True
OPS = [("new", (), {{}}), ("with",), ("list",), ("index", 4), ("callobj", 9), ("bool",)]
''',
}


def class_metadata(cls: type) -> Dict[str, Any]:
    """What a user can see of the members of a class without calling them."""
    out = {}  # type: Dict[str, Any]
    for klass in cls.__mro__:
        if klass is object or klass.__module__ != cls.__module__:
            continue
        for name, raw in vars(klass).items():
            if name in ("__invariants__", "__invariants_on_call__", "__invariants_on_setattr__", "__dict__", "__weakref__", "__module__",
                        "__abstractmethods__", "_abc_impl", "__parameters__", "__orig_bases__", "__firstlineno__", "__static_attributes__"):
                continue
            key = "{}.{}".format(klass.__name__, name)
            if isinstance(raw, property):
                out[key] = ("property", raw.__doc__, raw.fget is not None, raw.fset is not None, raw.fdel is not None,
                            getattr(raw.fget, "__name__", None), getattr(raw.fget, "__doc__", None))
            elif isinstance(raw, (staticmethod, classmethod)):
                fn = raw.__func__
                out[key] = (type(raw).__name__, fn.__name__, fn.__doc__, str(inspect.signature(fn)), fn.__qualname__)
            elif inspect.isfunction(raw):
                out[key] = ("function", raw.__name__, raw.__doc__, str(inspect.signature(raw)), raw.__qualname__,
                            sorted(getattr(raw, "__annotations__", {}).items(), key=str), inspect.iscoroutinefunction(raw))
            else:
                out[key] = (type(raw).__name__,)
    out["<class>"] = (cls.__name__, cls.__qualname__, cls.__doc__, [k.__name__ for k in cls.__mro__])
    return out


def run_ops(mod, ops, inv_counts: Optional[List[int]] = None) -> List[Any]:
    """Drive the class ``K`` of a module through the operations; the log is compared between twins.

    ``inv_counts`` (if given) receives the number of invariant evaluations on the instance under operation, per operation."""
    K = mod.K
    log = []  # type: List[Any]
    inst = None
    for op in ops:
        n_before = sum(1 for e in mod.HUB.events if e.kind == "inv") if inv_counts is not None else 0
        if inv_counts is not None:
            inv_counts.append(0)
        try:
            if op[0] == "new":
                inst = K(*op[1], **op[2])
                res = ("instance", type(inst).__name__, sorted(getattr(inst, "__dict__", {}).items(), key=str))
            elif op[0] == "subscript_new":
                inst = K[int](*op[1])
                res = ("instance", type(inst).__name__)
            elif inst is None and op[0] not in ("call", "kcall", "rawtype", "newof", "abstracts", "modattr", "isabstract"):
                res = "skipped"
            elif op[0] == "call":
                target = inst if inst is not None else K
                res = getattr(target, op[1])(*op[2:])
                if isinstance(res, K):
                    res = ("K-instance", sorted(getattr(res, "__dict__", {}).items(), key=str))
            elif op[0] == "acall":
                res = probe.drive(getattr(inst, op[1])(*op[2:]))
            elif op[0] == "kcall":
                res = getattr(K, op[1])(*op[2:])
            elif op[0] == "rawtype":
                res = type(inspect.getattr_static(K, op[1])).__name__
            elif op[0] == "unbound":
                res = getattr(K, op[1])(inst)
            elif op[0] == "unbound_kw":
                res = getattr(K, op[1])(self=inst)
            elif op[0] == "getattr":
                res = getattr(inst, op[1])
            elif op[0] == "setattr":
                setattr(inst, op[1], op[2])
                res = "set"
            elif op[0] == "len":
                res = len(inst)
            elif op[0] == "eqself":
                res = inst == inst
            elif op[0] == "hash":
                res = isinstance(hash(inst), int)
            elif op[0] == "str":
                res = str(inst)
            elif op[0] == "eqto":
                res = inst == op[1]
            elif op[0] == "hashval":
                res = hash(inst)
            elif op[0] == "format":
                res = format(inst, "")
            elif op[0] == "ltself":
                res = inst < inst
            elif op[0] == "repr":
                res = repr(inst)
            elif op[0] == "index":
                res = inst[op[1]]
            elif op[0] == "isinstance":
                res = isinstance(inst, K) and type(inst) is K
            elif op[0] == "with":
                with inst as entered:
                    res = entered is inst
            elif op[0] == "list":
                res = list(inst)
            elif op[0] == "callobj":
                res = inst(op[1])
            elif op[0] == "bool":
                res = bool(inst)
            elif op[0] == "asbuiltin":
                # the special methods which the built-in base defines (and which object defines as well)
                plain = getattr(builtins, op[1])(inst)
                res = (hash(inst) == hash(plain), inst == plain, plain == inst, inst != plain, str(inst), format(inst), {plain: "found"}.get(inst),
                       inst < plain + 1, inst >= plain)
            elif op[0] in ("copy", "deepcopy", "pickle"):
                import copy as _copy  # pylint: disable=import-outside-toplevel
                import pickle as _pickle  # pylint: disable=import-outside-toplevel
                made = {"copy": _copy.copy, "deepcopy": _copy.deepcopy, "pickle": lambda obj: _pickle.loads(_pickle.dumps(obj))}[op[0]](inst)
                res = ("instance", type(made).__name__, made is not inst, sorted(getattr(made, "__dict__", {}).items(), key=str))
            elif op[0] == "callkw":
                res = getattr(inst, op[1])(**op[2])
            elif op[0] == "inew":
                # __new__ reached through an instance (it is a static method: no argument is bound)
                made = inst.__new__(type(inst), *op[1:])
                res = ("instance", type(made).__name__, made is inst)
            else:
                res = run_ops_extra(mod, op, inst)
            log.append(("ok", repr(res)))
            if inv_counts is not None:
                inv_counts[-1] = sum(1 for e in mod.HUB.events if e.kind == "inv") - n_before
        except Exception as err:  # pylint: disable=broad-except
            # the exception class is behaviour; the wording of the message is not compared
            log.append(("raise", type(err).__name__))
    return log


INV_DECOS = {
    "call": "@icontract.invariant(lambda self: HUB.inv('inv', self))",
    "setattr": "@icontract.invariant(lambda self: HUB.inv('inv', self), check_on=icontract.InvariantCheckEvent.SETATTR)",
    "all": "@icontract.invariant(lambda self: HUB.inv('inv', self), check_on=icontract.InvariantCheckEvent.ALL)",
    "two": "@icontract.invariant(lambda self: HUB.inv('inv2', self))\n@icontract.invariant(lambda: HUB.inv('inv', None), check_on=icontract.InvariantCheckEvent.ALL)",
}

OBJECT_DEFAULT_OPS = {"str": "__str__", "eqto": "__eq__", "hashval": "__hash__", "format": "__format__", "ltself": "__lt__"}

CLASS_KEYS = {
    "new-returns-object-of-another-type": "C14/new-returning-foreign-object-breaks-instantiation",
    "no-init-subclass-with-init-args": "C14/new-wrapper-inherited-by-subclass-with-init",
    "no-init-subclass-with-kwonly-init": "C14/new-wrapper-inherited-by-subclass-with-init",
    "first-param-not-self": "C14/self-found-by-name-only",
}


def inherited_copy_shadows_a_sibling(mod, op) -> bool:
    """Is the member which the operation reaches on K found in Base (a copy of what Root defines) although Right overrides it?"""
    names = {"new": ["__init__"], "call": [op[1]] if len(op) > 1 else [], "getattr": [op[1], "__init__"] if len(op) > 1 else [],
             "setattr": [op[1]] if len(op) > 1 else []}.get(op[0], [])
    for name in names:
        holder = next((k for k in mod.K.__mro__ if name in vars(k)), None)
        if holder is mod.Base and name in vars(mod.Right) and name in vars(mod.Root):
            return True
    return False


def run_classes(w) -> None:
    for tag, template in CLASS_PROGRAMS.items():
        for dbc in (False, True):
            for iname, ideco in INV_DECOS.items():
                base = "(icontract.DBC)" if dbc else ""
                comma_base = ", icontract.DBC" if dbc else ""
                if tag == "namedtuple" and dbc:
                    continue
                if tag in ("generic",) and False:
                    continue
                # a subclass in the middle of the hierarchy carries an invariant of its own (decorator on a plain class; under DBC the
                # meta-class has already given it the inherited ones)
                deco2 = ideco.replace("'inv'", "'invM'").replace("'inv2'", "'invM2'")
                dec_src = PRELUDE + template.format(deco=ideco + "\n@capture('K')", deco2=deco2, base=base, comma_base=comma_base, is_dec="True")
                bare_src = PRELUDE + template.format(deco="", deco2="", base=base, comma_base=comma_base, is_dec="False")
                w.count("class_programs")
                w.case(("class", tag, dbc, iname))
                case = {"class_program": tag, "dbc": dbc, "invariant": iname}
                try:
                    bare = prog.load_source(bare_src, w.scratch())
                except BaseException as err:  # pylint: disable=broad-except
                    w.mark_inconclusive("bare twin of {} failed to load: {!r}".format(tag, err))
                    continue
                try:
                    dec = prog.load_source(dec_src, w.scratch())
                except BaseException as err:  # pylint: disable=broad-except
                    w.violation(CLASS_KEYS.get(tag, "C14/class-definition-fails/" + tag), "defining {} with invariants ({}DBC, {}) raised {}: {}".format(
                        tag, "" if dbc else "no ", iname, type(err).__name__, str(err)[:200]), case)
                    bare.unload()
                    continue
                try:
                    target = "Base" if "class Base" in template else "K"
                    if dec.module.ORIGINALS.get("K") is not getattr(dec.module, target):
                        w.violation("C14/decorated-class-is-not-the-original", "invariant decorator returned another class object", case)
                    md_want, md_got = class_metadata(bare.module.K), class_metadata(dec.module.K)
                    w.count("metadata_comparisons", len(md_want))
                    # wrapping __new__ of a class without a Python-level constructor necessarily adds that entry
                    # only members the user wrote are compared: the library adds Python wrappers around slot wrappers
                    # inherited from object (silent zone) and re-installs __new__ as a plain function
                    md_got = {k: v for k, v in md_got.items() if k in md_want}
                    # (a member which IS a default of object in the bare class - `__eq__ = Base.__eq__` where Base has none of its own -
                    # is the library's wrapped copy of that default in the twin: the silent zone of the wrapped slot wrappers)
                    for k in [k for k, v in md_want.items() if v in (("wrapper_descriptor",), ("method_descriptor",), ("builtin_function_or_method",))]:
                        md_want.pop(k)
                        md_got.pop(k, None)
                    for k in list(md_want):
                        if k.endswith(".__new__") and k in md_got:
                            md_want[k] = md_want[k][1:4]
                            md_got[k] = md_got[k][1:4]
                    if tag not in ("namedtuple",) and md_want != md_got:
                        diff = sorted(k for k in set(md_want) | set(md_got) if md_want.get(k) != md_got.get(k))
                        w.violation("C14/class-member-metadata-differs/" + diff[0].split(".")[-1], "{}: members differ: {}".format(tag, [
                            (k, md_got.get(k), md_want.get(k)) for k in diff[:3]]), case)
                    want = run_ops(bare.module, bare.module.OPS)
                    inv_counts = []  # type: List[int]
                    got = run_ops(dec.module, dec.module.OPS, inv_counts)
                    w.count("class_operations", len(want))
                    # the invariants hold, so nothing is seen of them - but they are evaluated all the same, on the instance the call is
                    # made on: a call by keyword of a public method is surrounded by the invariants selected for calls
                    if tag == "new-returns-instance-of-another-class-with-invariants":
                        # the object of the other class is checked once, when IT is constructed; handing it out is not K's to check
                        n_other = sum(1 for e in dec.hub.events if e.kind == "inv" and str(e.id).startswith("invM"))
                        want_other = {"call": 1, "setattr": 1, "all": 1, "two": 2}[iname]
                        if n_other != want_other:
                            w.violation("C14/new-returning-foreign-object-breaks-instantiation", "{} ({}DBC, invariant {}): the invariants of the "
                                        "object which __new__ handed out were evaluated {} times (expected {}: once, at its own construction)".format(
                                            tag, "" if dbc else "no ", iname, n_other, want_other), case)
                    n_call_invs = {"call": 1, "setattr": 0, "all": 1, "two": 2}[iname]
                    for i, op in enumerate(bare.module.OPS):
                        if op[0] == "callkw" and i < len(got) and got[i][0] == "ok" and inv_counts[i] != 2 * n_call_invs:
                            w.violation("C14/invariants-not-evaluated-on-the-instance-of-the-call", "{} ({}DBC, invariant {}): operation {} returned, "
                                        "but the invariants were evaluated {} times around it (expected {})".format(
                                            tag, "" if dbc else "no ", iname, op, inv_counts[i], 2 * n_call_invs), case)
                    n_inv = sum(1 for e in dec.hub.events if e.kind == "inv")
                    w.count("invariant_evaluations", n_inv)
                    if want != got:
                        i = next(k for k in range(len(want)) if want[k] != got[k])
                        key = "C14/class-behaviour-differs/" + tag
                        op = bare.module.OPS[i]
                        if tag in CLASS_KEYS and op[0] == "new" and (op[1] or op[2]) and got[i] == ("raise", "TypeError") and want[i][0] == "ok" \
                                and tag.startswith("no-init-subclass"):
                            # mechanism: inherited __new__ wrapper hands the constructor arguments to object.__new__
                            key = CLASS_KEYS[tag]
                        elif tag == "new-returns-object-of-another-type" and op[0] == "new" and got[i] == ("raise", "AttributeError"):
                            key = CLASS_KEYS[tag]
                        elif tag == "first-param-not-self" and got[i] == ("raise", "KeyError"):
                            key = CLASS_KEYS[tag]
                        elif tag == "plain-subclass-joining-a-mixin-with-a-constructor" and not dbc and op[0] in ("new", "getattr") \
                                and getattr(getattr(inspect.getattr_static(dec.module.Base, "__new__", None), "__func__", None), "__wrapped__", None) is object.__new__:
                            # (the same mechanism: the copy of object.__new__ held by the class with invariants)
                            key = "C14/copy-of-an-object-default-shadows-a-mixin-in-a-plain-subclass"
                        elif tag.startswith("plain-diamond-whose-sibling-overrides") and not dbc and inherited_copy_shadows_a_sibling(dec.module, op):
                            # mechanism: the class with invariants (Base) holds wrapped copies of the members it inherits from its plain
                            # base; in a PLAIN common sub-class these copies are found before the overrides of a sibling (Right)
                            key = "C14/copy-of-an-inherited-member-shadows-a-sibling-override-in-a-plain-subclass"
                        elif op[0] in OBJECT_DEFAULT_OPS and not dbc:
                            # mechanism: the class with invariants holds a wrapped copy of the default which ``object`` provides for
                            # the special method; in a PLAIN sub-class (nothing of the library runs when it is created) the copy is
                            # found before the definition of a class that comes later in the method resolution order
                            dunder = OBJECT_DEFAULT_OPS[op[0]]
                            found = inspect.getattr_static(dec.module.K, dunder, None)
                            holder = next((k for k in dec.module.K.__mro__ if dunder in vars(k)), None)
                            if holder is not None and holder is not dec.module.K and "Mixin" not in holder.__name__ \
                                    and getattr(found, "__wrapped__", None) is getattr(object, dunder, None):
                                key = "C14/copy-of-an-object-default-shadows-a-mixin-in-a-plain-subclass"
                        w.violation(key,
                                    "{} ({}DBC, invariant {}): operation {} gives {} with invariants but {} without".format(
                                        tag, "" if dbc else "no ", iname, bare.module.OPS[i], got[i], want[i]), case,
                                    {"with": got, "without": want})
                finally:
                    bare.unload()
                    dec.unload()


# ---------------------------------------------------------------------------------------------------------------------
# (C) contract-inheriting hierarchies: the same source with and without the library
# ---------------------------------------------------------------------------------------------------------------------

HIER_PRELUDE_DEC = PRELUDE + '''
DBCBASE = icontract.DBC

def REQ(func):
    return icontract.require(lambda: HUB.cond("r", None))(func)

def ENS(func):
    return icontract.ensure(lambda result: HUB.cond("e", result))(func)

def INV(cls):
    return icontract.invariant(lambda self: HUB.inv("i", self))(cls)
'''

HIER_PRELUDE_BARE = PRELUDE + '''
DBCBASE = abc.ABC

def REQ(func):
    return func

ENS = REQ
INV = REQ
'''

HIER_PROGRAMS = {
    "overrides-of-every-member-kind": '''
class Base(DBCBASE):
    def __init__(self):
        self.v = 1
    @REQ
    def _get(self):
        return self.v
    x = property(_get, doc="doc of Base.x")
    @property
    @ENS
    def y(self):
        """Doc of Base.y getter."""
        return self.v
    @y.setter
    @REQ
    def y(self, value):
        self.v = value
    @REQ
    @ENS
    def m(self, a: int = 1) -> int:
        """Doc of Base.m."""
        return a
    @classmethod
    @REQ
    def cm(cls, a):
        return (cls.__name__, a)
    @staticmethod
    @REQ
    def st(a):
        return a
class K(Base):
    def _get2(self):
        return self.v + 1
    x = property(_get2, doc="explicit doc of K.x")
    @property
    def y(self):
        """Doc of K.y getter."""
        return self.v + 2
    @y.setter
    def y(self, value):
        self.v = value * 2
    def m(self, a: int = 1) -> int:
        """Doc of K.m."""
        return a + 1
    @classmethod
    def cm(cls, a):
        return super().cm(a + 1)
    @staticmethod
    def st(a):
        return a * 2
OPS = [("kcall", "cm", 2), ("kcall", "st", 3), ("rawtype", "st"), ("rawtype", "cm"), ("new", (), {}), ("getattr", "x"), ("getattr", "y"),
       ("setattr", "y", 5), ("getattr", "y"), ("call", "m", 3), ("call", "cm", 2), ("call", "st", 3), ("isinstance",)]
''',
    "inherits-without-overriding": '''
@INV
class Base(DBCBASE):
    def __init__(self, v=1):
        self.v = v
    @property
    @ENS
    def y(self):
        """Doc of Base.y getter."""
        return self.v
    @REQ
    def m(self, a=1):
        return a
    @classmethod
    @REQ
    def cm(cls, a):
        return (cls.__name__, a)
    @staticmethod
    @REQ
    def st(a):
        return a
class Middle(Base):
    def other(self):
        return "other"
@INV
class K(Middle):
    pass
OPS = [("kcall", "cm", 2), ("kcall", "st", 3), ("rawtype", "st"), ("rawtype", "cm"), ("new", (), {}), ("getattr", "y"), ("call", "m", 3),
       ("call", "cm", 2), ("call", "st", 3), ("call", "other"), ("new", (4,), {}), ("getattr", "y")]
''',
    "abstract-base": '''
class Base(DBCBASE):
    @abc.abstractmethod
    @REQ
    def area(self) -> float:
        """Doc of area."""
    @property
    @abc.abstractmethod
    def name(self):
        """Doc of name."""
    @REQ
    def describe(self):
        return (self.name, self.area())
class K(Base):
    def area(self) -> float:
        return 2.0
    @property
    def name(self):
        return "k"
class Partial(Base):
    def area(self) -> float:
        return 1.0
OPS = [("newof", "Base"), ("newof", "Partial"), ("new", (), {}), ("call", "area"), ("getattr", "name"), ("call", "describe"), ("abstracts", "Base"),
       ("abstracts", "Partial"), ("abstracts", "K")]
''',
    "class-keywords-and-init-subclass": '''
class Base(DBCBASE):
    registry = []
    def __init_subclass__(cls, flag=False, **kwargs):
        super().__init_subclass__(**kwargs)
        Base.registry.append((cls.__name__, flag))
    @REQ
    def m(self):
        return 1
class K(Base, flag=True):
    def m(self):
        return 2
class Other(Base):
    pass
OPS = [("new", (), {}), ("call", "m"), ("modattr", "Base", "registry")]
''',
    "mixin-and-multiple-inheritance": '''
class Mixin:
    def helper(self):
        return "helper"
    def m(self, a=0):
        return ("mixin", a)
@INV
class Base(DBCBASE):
    def __init__(self):
        self.v = 1
    @REQ
    def m(self, a=0):
        return ("base", a)
class Left(Base):
    def m(self, a=0):
        return ("left", super().m(a))
class Right(Base):
    def m(self, a=0):
        return ("right", super().m(a))
class K(Left, Right, Mixin):
    def m(self, a=0):
        return ("k", super().m(a))
OPS = [("new", (), {}), ("call", "m", 1), ("call", "helper"), ("mro",)]
''',
    "slots-generic-dataclass-on-dbc": '''
T = typing.TypeVar("T")
@INV
class Base(DBCBASE, typing.Generic[T]):
    __slots__ = ("v",)
    def __init__(self, v):
        self.v = v
    @REQ
    def get(self):
        return self.v
@dataclasses.dataclass
class K(Base[int]):
    w: int = 3
    def __post_init__(self):
        Base.__init__(self, self.w * 2)
    def get(self):
        return (super().get(), self.w)
OPS = [("new", (), {}), ("call", "get"), ("new", (5,), {}), ("call", "get"), ("eqself",), ("repr",)]
''',
}


def run_ops_extra(mod, op, inst):
    if op[0] == "newof":
        return ("instance", type(getattr(mod, op[1])()).__name__)
    if op[0] == "abstracts":
        return sorted(getattr(getattr(mod, op[1]), "__abstractmethods__", ()))
    if op[0] == "isabstract":
        member = inspect.getattr_static(getattr(mod, op[1]), op[2])
        return bool(getattr(member, "__isabstractmethod__", False))
    if op[0] == "modattr":
        return getattr(getattr(mod, op[1]), op[2])
    if op[0] == "mro":
        return [k.__name__ for k in type(inst).__mro__ if k.__module__ == mod.__name__]
    raise ValueError(op)


def run_hierarchies(w) -> None:
    for tag, template in HIER_PROGRAMS.items():
        w.count("class_programs")
        w.count("hierarchy_programs")
        w.case(("hierarchy", tag))
        case = {"hierarchy_program": tag}
        try:
            bare = prog.load_source(HIER_PRELUDE_BARE + template, w.scratch())
        except BaseException as err:  # pylint: disable=broad-except
            w.mark_inconclusive("bare twin of hierarchy {} failed to load: {!r}".format(tag, err))
            continue
        try:
            dec = prog.load_source(HIER_PRELUDE_DEC + template, w.scratch())
        except BaseException as err:  # pylint: disable=broad-except
            w.violation("C14/class-definition-fails/" + tag, "defining the hierarchy {} with (satisfied) contracts raised {}: {}".format(
                tag, type(err).__name__, str(err)[:200]), case)
            bare.unload()
            continue
        try:
            md_want, md_got = class_metadata(bare.module.K), class_metadata(dec.module.K)
            w.count("metadata_comparisons", len(md_want))
            # the DBC base itself is part of the MRO of the decorated twin only
            md_got = {k: v for k, v in md_got.items() if k in md_want}
            md_want["<class>"] = md_want["<class>"][:3] + ([n for n in md_want["<class>"][3] if n not in ("ABC", "DBC")],)
            md_got["<class>"] = md_got["<class>"][:3] + ([n for n in md_got["<class>"][3] if n not in ("ABC", "DBC")],)
            if md_want != md_got:
                diff = sorted(k for k in set(md_want) | set(md_got) if md_want.get(k) != md_got.get(k))
                member = diff[0].split(".")[-1]
                key = "C14/class-member-metadata-differs/" + member
                if md_want[diff[0]][0] == "property" and md_got.get(diff[0], ("",))[0] == "property" and md_want[diff[0]][1] != md_got[diff[0]][1]:
                    key = "C14/property-doc-lost-under-inheriting-metaclass"
                w.violation(key, "{}: members differ: {}".format(tag, [(k, md_got.get(k), md_want.get(k)) for k in diff[:3]]), case)
            want = run_ops(bare.module, bare.module.OPS)
            got = run_ops(dec.module, dec.module.OPS)
            w.count("class_operations", len(want))
            w.count("contract_evaluations_in_hierarchies", sum(1 for e in dec.hub.events if e.kind in ("cond", "inv")))
            if want != got:
                i = next(k for k in range(len(want)) if want[k] != got[k])
                w.violation("C14/class-behaviour-differs/" + tag, "{}: operation {} gives {} with contracts but {} without".format(
                    tag, bare.module.OPS[i], got[i], want[i]), case, {"with": got, "without": want})
        finally:
            bare.unload()
            dec.unload()


def run(w) -> None:
    rng = w.rng
    thorough = w.tier == "thorough"
    sigs = list(c05.signatures(3))
    kinds = ["function", "async", "method", "amethod", "static", "class", "pget"]
    n_total = 25000 if thorough else 2500
    batch = []
    for i in range(n_total):
        if i % w.nshards != w.shard:
            continue
        kind = kinds[i % len(kinds)]
        params = [dict(p) for p in (rng.choice(sigs) if kind != "pget" else [])]
        for p in params:
            p["dkey"] = "c{}_{}".format(i, p["name"])
        nc = rng.randint(1, 4)
        nf = rng.choice((0, 0, 1, 2))
        abstract = "none"
        if kind in ("method", "static", "class", "pget", "amethod") and rng.random() < 0.15:
            abstract = rng.choice(("inside", "outside"))
        batch.append(("c{}".format(i), params, kind, nc, nf, abstract))
        if len(batch) >= 30:
            run_callables(w, batch)
            batch = []
    if batch:
        run_callables(w, batch)
    if w.shard == 0:
        run_classes(w)
    if w.shard == 1 % w.nshards:
        run_hierarchies(w)
    w.exhaustive = False


def replay(case, w) -> None:
    if "hierarchy_program" in case:
        run_hierarchies(w)
        w.violations = [v for v in w.violations if v["case"].get("hierarchy_program") == case["hierarchy_program"]]
        return
    if "class_program" in case:
        run_classes(w)
        w.violations = [v for v in w.violations if v["case"].get("class_program") == case["class_program"]]
        return
    # re-render the same decorator stack deterministically is not possible from the text alone: run the exact source
    params = case["params"]
    src = [PRELUDE]
    fid = "r0"
    decos = [d for d in case["decorators"]]
    meta = {"fid": fid, "kind": case["kind"], "n_contract": case["n_contract"], "n_foreign": case["n_foreign"], "abstract": case["abstract"],
            "decos": decos}
    w.rng.seed(0)
    # fall back to a fresh batch with the same shape
    run_callables(w, [(fid, params, case["kind"], case["n_contract"], case["n_foreign"], case["abstract"])])
