"""C15 — disabled contracts are absent; enabled ones do not depend on interpreter mode."""
import json
import os
import re
import subprocess
from typing import Any, Dict

from vkit import core

ID = "C15"
LEVEL = "exploration"
SHARDS = {"quick": 1, "thorough": 1}
TIMEOUT = {"quick": 240, "thorough": 400}
DECIDING = ["configurations", "disabled_items_checked", "enabled_items_checked", "cross_mode_comparisons"]
RULE = (
    "one program (vkit/c15_child.py) applying require / ensure / snapshot / invariant (CALL and SETATTR, DBC and plain) to "
    "plain and async functions, methods, static and class methods, properties and an inherited method, with enabled in "
    "{default, True, False, icontract.SLOW}, executed in 9 subprocess configurations: interpreter mode {normal, -O, -OO} x "
    "ICONTRACT_SLOW {unset, empty, '1'} (plus 'true' in thorough). Monitors: when a decorator must be disabled: decorated is "
    "original, vars()/class dict unchanged, zero condition/capture events and violating inputs pass; when it must be enabled: "
    "violating inputs raise and conditions run; for enabled=True items traces, verdicts and messages are byte-identical across "
    "the interpreter modes (memory addresses masked). Non-trivial = every (item, configuration) pair; exhaustive over the matrix."
    ' A (possibly disabled) invariant on a plain sub-class of a class with an explicitly enabled invariant leaves the members of the sub-class what they are; cross-mode scenario: a constructor that is a callable object.'
)
ASSUMPTIONS = ["subprocess environment is otherwise identical", "decorators created with enabled=False are not validated (silent zone)"]

_ADDR = re.compile(r"0x[0-9a-fA-F]+")


def expected_enabled(ename: str, debug: bool, slow_env: Any) -> bool:
    if ename == "true":
        return True
    if ename == "false":
        return False
    if ename == "default":
        return debug
    if ename == "slow":
        return debug and bool(slow_env)
    raise ValueError(ename)


def run(w) -> None:
    child = os.path.join(os.path.dirname(os.path.dirname(os.path.abspath(__file__))), "c15_child.py")
    modes = [("normal", []), ("-O", ["-O"]), ("-OO", ["-OO"])]
    slows = [("unset", None), ("empty", ""), ("one", "1")]
    if w.tier == "thorough":
        slows.append(("true", "true"))
        slows.append(("zero", "0"))  # any non-empty string enables
    reports = {}  # type: Dict[Any, Dict[str, Any]]
    for mname, flags in modes:
        for sname, sval in slows:
            env = dict(os.environ)
            env.pop("ICONTRACT_SLOW", None)
            env.pop("PYTHONOPTIMIZE", None)
            if sval is not None:
                env["ICONTRACT_SLOW"] = sval
            env["PYTHONPATH"] = core.VERIF_DIR
            try:
                res = subprocess.run([core.PYTHON] + flags + [child, core.REPO], capture_output=True, text=True, env=env, timeout=120,
                                     cwd=w.scratch())
            except subprocess.TimeoutExpired:
                w.mark_inconclusive("child {} {} hit the watchdog".format(mname, sname))
                continue
            line = [ln for ln in res.stdout.splitlines() if ln.startswith("REPORT=")]
            if res.returncode != 0 or not line:
                w.violation("C15/child-crashed", "configuration {} ICONTRACT_SLOW={}: exit {}: {}".format(
                    mname, sname, res.returncode, res.stderr[-600:]), {"mode": mname, "slow": sname})
                continue
            w.count("configurations")
            rep = json.loads(line[0][len("REPORT="):])
            reports[(mname, sname)] = rep
            debug = mname == "normal"
            if rep["debug"] != debug:
                w.mark_inconclusive("child interpreter mode mismatch")
            want_slow = debug and bool(sval)
            if rep["slow"] != want_slow:
                w.violation("C15/SLOW-flag", "icontract.SLOW is {} under mode {} with ICONTRACT_SLOW={!r}; expected {}".format(
                    rep["slow"], mname, sval, want_slow), {"mode": mname, "slow": sname})
            for item, data in rep["items"].items():
                what, kind, ename = item.split("/")
                enabled = expected_enabled(ename, debug, sval)
                case = {"item": item, "mode": mname, "slow_env": sval}
                w.case((item, mname, sname))
                contract_events = [e for e in data["ok"]["events"] + data["bad"]["events"] if e != "body"]
                if not enabled:
                    w.count("disabled_items_checked")
                    if not data["same"]:
                        w.violation("C15/disabled-decorator-wrapped/{}".format(what), "{} (mode {}, ICONTRACT_SLOW={!r}): decorated object is not the original".format(
                            item, mname, sval), case, data)
                    if not data["vars_unchanged"]:
                        w.violation("C15/disabled-decorator-added-attributes/{}".format(what), "{} (mode {}, ICONTRACT_SLOW={!r}): attributes were added".format(
                            item, mname, sval), case, data)
                    expected_evs = ["post"] if what == "snapshot" else []
                    if [e for e in contract_events if e not in expected_evs]:
                        w.violation("C15/disabled-contract-evaluated/{}".format(what), "{} (mode {}, ICONTRACT_SLOW={!r}): events {}".format(
                            item, mname, sval, contract_events), case, data)
                    if what != "snapshot" and data["bad"]["outcome"] != "return":
                        w.violation("C15/disabled-contract-enforced/{}".format(what), "{} (mode {}, ICONTRACT_SLOW={!r}): violating input raised {}".format(
                            item, mname, sval, data["bad"].get("type")), case, data)
                elif what in ("invariant-async-condition", "invariant-invalid-error"):
                    # (an enabled invariant refuses these arguments when it is created: C19's business)
                    w.count("enabled_items_skipped")
                else:
                    w.count("enabled_items_checked")
                    if data["ok"]["outcome"] != "return":
                        w.violation("C15/enabled-contract-rejects-valid-input/{}".format(what), "{} (mode {}): {}".format(item, mname, data["ok"]), case, data)
                    if data["bad"]["outcome"] != "raise" or data["bad"].get("type") != "ViolationError":
                        w.violation("C15/enabled-contract-not-enforced/{}".format(what), "{} (mode {}, ICONTRACT_SLOW={!r}): violating input gave {}".format(
                            item, mname, sval, data["bad"]), case, data)
                    if not contract_events:
                        w.violation("C15/enabled-contract-not-evaluated/{}".format(what), "{} (mode {}): no condition events".format(item, mname), case, data)
                    if what == "snapshot" and "snap" not in data["ok"]["events"]:
                        w.violation("C15/enabled-snapshot-not-captured", "{} (mode {}): {}".format(item, mname, data["ok"]), case, data)
    # enabled=True items must behave identically in every interpreter mode
    for sname, _ in slows:
        base = reports.get(("normal", sname))
        if base is None:
            continue
        for mname in ("-O", "-OO"):
            other = reports.get((mname, sname))
            if other is None:
                continue
            for item, data in base["items"].items():
                if not item.endswith("/true"):
                    continue
                w.count("cross_mode_comparisons")
                a = _ADDR.sub("0x", json.dumps({k: v for k, v in data.items()}, sort_keys=True))
                b = _ADDR.sub("0x", json.dumps({k: v for k, v in other["items"][item].items()}, sort_keys=True))
                if a != b:
                    w.violation("C15/enabled-contract-depends-on-interpreter-mode", "{}: normal vs {} differ".format(item, mname),
                                {"item": item, "mode": mname, "slow": sname}, {"normal": data, mname: other["items"][item]})
    # scenarios with explicitly enabled contracts only (incl. their misuse): the same outcome in every mode
    for sname, _ in slows:
        base = reports.get(("normal", sname))
        if base is None:
            continue
        for mname in ("-O", "-OO"):
            other = reports.get((mname, sname))
            if other is None:
                continue
            for name, data in base.get("cross_mode", {}).items():
                w.count("cross_mode_comparisons")
                w.case(("cross-mode", name, mname, sname))
                got = other.get("cross_mode", {}).get(name)
                strip = lambda d: None if d is None else {k: (_ADDR.sub("0x", v) if isinstance(v, str) else v) for k, v in d.items() if k != "message"}
                if strip(got) != strip(data):
                    w.violation("C15/enabled-contract-depends-on-interpreter-mode", "scenario {}: normal interpreter gives {} but {} gives {}".format(
                        name, strip(data), mname, strip(got)), {"item": "cross_mode/" + name, "mode": mname, "slow": sname},
                        {"normal": data, mname: got})
    for key, rep in list(reports.items())[:2]:
        w.sample({"configuration": list(key), "item": "require/function/default", "report": rep["items"].get("require/function/default")})
    w.exhaustive = True


def replay(case, w) -> None:
    run(w)
