"""C18 — introspection data tells integrators the truth."""
import inspect
from typing import Any, Dict, List, Optional, Tuple

from vkit import gen, probe, prog, runner
from vkit.checks import c04
from vkit.model import ACCESSORS, Model, decos_of
from vkit.probe import Tok

ID = "C18"
LEVEL = "exploration"
SHARDS = {"quick": 8, "thorough": 16}
TIMEOUT = {"quick": 300, "thorough": 3400}
DECIDING = ["lists_compared", "manual_vs_real_calls", "classes_announced", "post_hoc_contracts_enforced"]
RULE = (
    "programs: the C04 hierarchy generator (all DAG shapes <=3 classes, sampled 4; member kinds method/static/class/property "
    "accessors/async; foreign decorators above the contracts; metaclass-attribute names) plus plain function stacks. Monitors: "
    "(a) walking __wrapped__ from the class attribute, the innermost carrier of the lists is the checker and its precondition "
    "groups / postconditions / snapshots and the class's __invariants__ equal the reference model's effective contracts (tokens, "
    "order; diamonds modulo per-path repetition); (b) a manual evaluator written like the documented integrators "
    "(select_condition_kwargs, select_capture_kwargs, Old; DNF over groups, CNF over postconditions) gives, for ALL truth "
    "assignments (cap 32/64), the same verdict as the real keyword-style call; (c) a recording wrapper installed over the "
    "registration hook sees every class created through the meta-class outside icontract exactly once; (d) contracts added by "
    "an integrator through add_*_to_checker after decoration are enforced by the next call. Non-trivial = member with effective "
    "contracts from >=1 class; distinct = (shape, kind, class, truth vector)."
    ' Same-name program: distinct classes sharing module and qualified name (class factory called three times, name'
    ' bound again, dataclass(slots=True), hand-made copy) are each announced exactly once.'
    ' The listed invariants of the event are evaluated by hand against an operation on an instance whose invariant does not hold (one falsy invariant at a time): the verdict equals that of the real operation.'
)
ASSUMPTIONS = ["the integrator recipe is the one of tests/test_for_integrators.py and the README"]

ANNOUNCED = []  # type: List[Any]
_HOOKED = False


def install_hook() -> None:
    """Wrap the registration hook the way icontract-hypothesis monkey-patches it."""
    global _HOOKED  # pylint: disable=global-statement
    if _HOOKED:
        return
    import icontract._metaclass  # pylint: disable=import-outside-toplevel

    original = icontract._metaclass._register_for_hypothesis

    def recording(cls):  # type: ignore
        ANNOUNCED.append(cls)
        return original(cls)

    icontract._metaclass._register_for_hypothesis = recording
    _HOOKED = True


def tok_of(contract: Any) -> str:
    d = getattr(contract, "description", None)
    if d and str(d).startswith("D:"):
        return str(d)[2:]
    return getattr(contract, "name", None) or repr(contract)


def raw_function(cls_obj: Any, m: Dict[str, Any]) -> Any:
    raw = inspect.getattr_static(cls_obj, m["name"])
    if m["kind"] in ACCESSORS:
        return {"pget": raw.fget, "pset": raw.fset, "pdel": raw.fdel}[m["kind"]]
    if isinstance(raw, (staticmethod, classmethod)):
        return raw.__func__
    return raw


def innermost_carrier(fn: Any) -> Optional[Any]:
    found = None
    cur = fn
    n = 0
    while cur is not None and n < 50:
        if "__preconditions__" in getattr(cur, "__dict__", {}) or "__postconditions__" in getattr(cur, "__dict__", {}):
            found = cur
        cur = getattr(cur, "__wrapped__", None)
        n += 1
    return found


def dedup(seq):
    seen = set()
    out = []
    for x in seq:
        if x not in seen:
            seen.add(x)
            out.append(x)
    return out


def compare_lists(w, model: Model, spec, cls: str, key: str, cls_obj: Any, meta) -> Optional[Any]:
    import icontract._checkers  # pylint: disable=import-outside-toplevel

    o = model.owner(cls, key)
    m = model.defines(o, key)
    fn = raw_function(cls_obj, m)
    chk = innermost_carrier(fn)
    lib_chk = icontract._checkers.find_checker(fn)
    want_pre = [[c["id"] for c in g] for g in model.eff_pre(o, key)]
    want_post = [c["id"] for c in model.eff_post(o, key)]
    want_snap = [s["name"] for s in model.eff_snaps(o, key)]
    case = {"prog": spec, "cls": cls, "key": key, "meta": meta}
    w.count("lists_compared")
    if chk is None:
        if want_pre or want_post:
            w.violation("C18/no-checker-found", "{}.{} has effective contracts {} {} but no object on the decorator stack lists any".format(
                cls, key, want_pre, want_post), case)
        return None
    if lib_chk is not chk:
        w.violation("C18/find_checker-returns-other-object", "find_checker returns {!r}, the innermost carrier is {!r}".format(lib_chk, chk), case)
    got_pre = [[tok_of(c) for c in g] for g in chk.__preconditions__]
    got_post = [tok_of(c) for c in chk.__postconditions__]
    got_snap = [tok_of(s) for s in chk.__postcondition_snapshots__]
    ids = [x for g in want_pre for x in g] + want_post
    dups = len(set(ids)) != len(ids)
    if dups:
        same = (dedup(tuple(g) for g in got_pre) == dedup(tuple(g) for g in want_pre) and dedup(got_post) == dedup(want_post)
                and dedup(got_snap) == dedup(want_snap))
    else:
        same = got_pre == want_pre and got_post == want_post and got_snap == want_snap
    if not same:
        w.violation("C18/lists-differ-from-effective-contracts",
                    "{}.{}: lists pre={} post={} snap={} but the effective contracts are pre={} post={} snap={}".format(
                        cls, key, got_pre, got_post, got_snap, want_pre, want_post, want_snap), case)
    return chk


def manual_verdict(hub, chk: Any, kwargs: Dict[str, Any], truth: Dict[str, Any], body) -> Tuple[str, Optional[str]]:
    """Judge a call by hand from the introspected lists, the way integrators do."""
    import icontract._checkers  # pylint: disable=import-outside-toplevel

    hub.reset()
    hub.truth = dict(truth)
    pre = chk.__preconditions__
    failed = None
    for group in pre:
        failed = None
        for contract in group:
            ck = icontract._checkers.select_condition_kwargs(contract=contract, resolved_kwargs=kwargs)
            res = contract.condition(**ck)
            if inspect.iscoroutine(res):
                res = probe.drive(res)
            if not res:
                failed = contract
                break
        if failed is None:
            break
    if failed is not None:
        return "pre", tok_of(failed)
    resolved = dict(kwargs)
    snaps = chk.__postcondition_snapshots__
    posts = chk.__postconditions__
    if posts and snaps:
        old = {}
        for snap in snaps:
            sk = icontract._checkers.select_capture_kwargs(a_snapshot=snap, resolved_kwargs=resolved)
            val = snap.capture(**sk)
            if inspect.iscoroutine(val):
                val = probe.drive(val)
            old[snap.name] = val
        resolved["OLD"] = icontract._checkers.Old(mapping=old)
    result = body()
    if posts:
        resolved["result"] = result
        for contract in posts:
            ck = icontract._checkers.select_condition_kwargs(contract=contract, resolved_kwargs=resolved)
            res = contract.condition(**ck)
            if inspect.iscoroutine(res):
                res = probe.drive(res)
            if not res:
                return "post", tok_of(contract)
    return "ok", None


def real_verdict(loaded, contracts, obs: runner.Obs, pre_ids: List[str], post_ids: List[str]) -> Tuple[str, Optional[str]]:
    if obs.returned:
        return "ok", None
    for cid in pre_ids:
        if c04.error_matches(loaded, contracts, obs.exc, cid):
            return "pre", cid
    for cid in post_ids:
        if c04.error_matches(loaded, contracts, obs.exc, cid):
            return "post", cid
    return "other", "{}: {}".format(type(obs.exc).__name__, str(obs.exc)[:200])


def judge_member(w, loaded, model: Model, contracts, spec, cls: str, key: str, meta) -> None:
    cls_obj = loaded.get(cls)
    chk = compare_lists(w, model, spec, cls, key, cls_obj, meta)
    if chk is None:
        return
    o = model.owner(cls, key)
    m = model.defines(o, key)
    if m["kind"] in ACCESSORS:
        names = []
    else:
        names = [p["name"] for p in m["params"] if p["name"] not in ("self", "cls")]
    pre_ids = [tok_of(c) for g in chk.__preconditions__ for c in g]
    post_ids = [tok_of(c) for c in chk.__postconditions__]
    ids = dedup(pre_ids + post_ids)
    inv_free = not model.invs_around(cls, m)
    hub = loaded.hub
    cap = 64 if w.tier == "thorough" else 32
    if not inv_free:
        judge_invariants_around_member(w, loaded, model, contracts, spec, cls, key, m, names, meta)
    for truth in gen.all_truth(ids, w.rng, cap):
        if not inv_free:
            break
        # keyword-style call, as the integrator recipe works on keyword dictionaries
        call = {"target": "member", "cls": cls, "key": key, "truth": truth, "pos": [], "kw": names}
        if m["kind"] == "pset":
            call = {"target": "member", "cls": cls, "key": key, "truth": truth}
        obs = runner.perform(loaded, model, call)
        if obs.setup_error:
            w.violation("C18/setup", obs.setup_error, {"prog": spec, "call": call})
            return
        real = real_verdict(loaded, contracts, obs, pre_ids, post_ids)
        # the same values judged by hand
        kwargs = dict(obs.kwargs)
        for n in names:
            kwargs.setdefault(n, obs.bound.get(n))
        first = m["params"][0]["name"] if m["params"] and m["params"][0]["name"] in ("self", "cls") else None
        if first is not None:
            kwargs[first] = obs.bound.get(first, obs.instance)
        if m["kind"] == "pset":
            kwargs[m["params"][1]["name"]] = obs.bound.get(m["params"][1]["name"])
        manual = manual_verdict(hub, chk, kwargs, truth, lambda: Tok("manual-result"))
        w.count("manual_vs_real_calls")
        w.case((meta, cls, tuple(sorted((k, str(v)) for k, v in truth.items()))) if ids else None)
        if manual[0] == "pre" and real == manual and chk.__postcondition_snapshots__ and chk.__postconditions__:
            # a call the lists refuse: an integrator never evaluates the captures for it, so captures which are not defined for the
            # refused arguments change nothing about the verdict
            obs2 = runner.perform(loaded, model, dict(call, truth=dict(truth, **{"snap:*": "raise"})))
            real2 = real_verdict(loaded, contracts, obs2, pre_ids, post_ids)
            w.count("manual_vs_real_calls")
            w.count("refused_calls_with_undefined_captures")
            if real2 != manual:
                w.violation("C18/manual-evaluation-disagrees-with-call",
                            "{}.{} with {} and captures that are not defined for refused arguments: evaluating the introspected lists by hand "
                            "gives {} but the real call gives {}".format(cls, key, truth, manual, real2), {"prog": spec, "call": call, "meta": meta})
        if manual[0] != real[0] or (manual[0] in ("pre", "post") and manual[1] != real[1]):
            w.violation("C18/manual-evaluation-disagrees-with-call",
                        "{}.{} with {}: evaluating the introspected lists by hand gives {} but the real call gives {}".format(
                            cls, key, truth, manual, real), {"prog": spec, "call": call, "meta": meta},
                        {"lists": {"pre": [[tok_of(c) for c in g] for g in chk.__preconditions__], "post": post_ids}})
        if w.counters["manual_vs_real_calls"] % 503 == 1:
            w.sample({"class": cls, "member": key, "truth": truth, "manual": manual, "real": real})


def judge_invariants_around_member(w, loaded, model: Model, contracts, spec, cls: str, key: str, m, names, meta) -> None:
    """An operation from outside on an instance whose invariant does not hold: evaluating the listed invariants of the event by hand
    (the way the integrators do) gives the verdict of the real operation."""
    import icontract  # pylint: disable=import-outside-toplevel

    cls_obj = loaded.get(cls)
    around = model.invs_around(cls, m)
    event = icontract.InvariantCheckEvent.SETATTR if (m["kind"] == "pset" and model.invs_on(cls, "SETATTR")) else icontract.InvariantCheckEvent.CALL
    listed = [c for c in getattr(cls_obj, "__invariants__", []) if event in c.check_on]
    want = dedup([i["id"] for i in around])
    hub = loaded.hub
    for falsy in want:
        # (the constructor evaluates every invariant: the instance is built while all of them hold, the one under test turns falsy
        # from its next evaluation on)
        n_ctor = sum(1 for i in model.eff_invs(cls) if i["id"] == falsy)
        truth = {falsy: {"seq": [["T", 0]] * n_ctor + [["F", 0]]}}
        call = {"target": "member", "cls": cls, "key": key, "truth": truth, "pos": [], "kw": names}
        if m["kind"] == "pset":
            call = {"target": "member", "cls": cls, "key": key, "truth": truth}
        obs = runner.perform(loaded, model, call)
        if obs.setup_error:
            return
        real = "ok" if obs.returned else next((cid for cid in want if c04.error_matches(loaded, contracts, obs.exc, cid)), "other")
        c_obs = runner.construct(loaded, model, cls)
        if not c_obs.returned:
            return
        hub.reset()
        hub.truth = {falsy: False}
        manual = "ok"
        for contract in listed:
            res = contract.condition(self=c_obs.instance) if "self" in contract.condition_arg_set else contract.condition()
            if not res:
                manual = tok_of(contract)
                break
        w.count("manual_vs_real_calls")
        w.count("manual_vs_real_operations_on_broken_objects")
        w.case((meta, cls, key, "inv-around", falsy))
        if manual != real:
            w.violation("C18/manual-invariant-evaluation-disagrees", "{}.{} on an instance whose invariant {} does not hold: by hand {} vs the real "
                        "operation {}".format(cls, key, falsy, manual, real), {"prog": spec, "cls": cls, "call": call, "meta": meta})



def judge_invariants(w, loaded, model: Model, contracts, spec, cls: str, meta) -> None:
    cls_obj = loaded.get(cls)
    want = [i["id"] for i in model.eff_invs(cls)]
    got = [tok_of(c) for c in getattr(cls_obj, "__invariants__", [])]
    w.count("lists_compared")
    dups = len(set(want)) != len(want)
    if (dedup(got) != dedup(want)) if dups else (got != want):
        w.violation("C18/invariant-list-differs", "{}.__invariants__ lists {} but the effective invariants are {}".format(cls, got, want),
                    {"prog": spec, "cls": cls, "meta": meta})
        return
    # the two event-specific lists (what the wrappers evaluate) are exactly the entries of the documented list for that event
    import icontract  # pylint: disable=import-outside-toplevel
    for attr, event in (("__invariants_on_call__", icontract.InvariantCheckEvent.CALL), ("__invariants_on_setattr__", icontract.InvariantCheckEvent.SETATTR)):
        listed = [c for c in getattr(cls_obj, "__invariants__", []) if event in c.check_on]
        filtered = list(getattr(cls_obj, attr, []))
        w.count("lists_compared")
        if [id(c) for c in filtered] != [id(c) for c in listed]:
            w.violation("C18/event-specific-invariant-list-differs-from-the-documented-list", "{}.{} holds {} but the entries of __invariants__ "
                        "for that event are {}".format(cls, attr, [tok_of(c) for c in filtered], [tok_of(c) for c in listed]),
                        {"prog": spec, "cls": cls, "meta": meta})
    if not want:
        return
    hub = loaded.hub
    for truth in gen.all_truth(dedup(want), w.rng, 16):
        obs = runner.perform(loaded, model, {"target": "construct", "cls": cls, "truth": truth})
        if obs.setup_error:
            continue
        real = "ok" if obs.returned else next((cid for cid in want if c04.error_matches(loaded, contracts, obs.exc, cid)), "other")
        # by hand on a healthy instance
        c_obs = runner.construct(loaded, model, cls)
        if not c_obs.returned:
            continue
        hub.reset()
        hub.truth = dict(truth)
        manual = "ok"
        for contract in cls_obj.__invariants__:
            res = contract.condition(self=c_obs.instance) if "self" in contract.condition_arg_set else contract.condition()
            if not res:
                manual = tok_of(contract)
                break
        w.count("manual_vs_real_calls")
        w.case((meta, cls, "inv", tuple(sorted((k, str(v)) for k, v in truth.items()))))
        if manual != real:
            w.violation("C18/manual-invariant-evaluation-disagrees", "{}: by hand {} vs construction {}".format(cls, manual, real),
                        {"prog": spec, "cls": cls, "truth": truth, "meta": meta})


def run_spec(w, spec, meta) -> None:
    install_hook()
    del ANNOUNCED[:]
    model = Model(spec)
    contracts = runner.index_contracts(spec)
    loaded = prog.load(spec, w.scratch())
    try:
        # (c) announcements
        created = [loaded.get(c) for c in model.classes if loaded.get(c) is not None]
        mine = [c for c in ANNOUNCED if getattr(c, "__module__", None) == loaded.module.__name__]
        for cls_obj in created:
            n = sum(1 for c in mine if c is cls_obj)
            w.count("classes_announced", n)
            if n != 1:
                w.violation("C18/class-announced-{}-times".format(n if n < 2 else "several"),
                            "class {} was announced {} times to the registration hook".format(cls_obj.__name__, n),
                            {"prog": spec, "cls": cls_obj.__name__, "meta": meta})
        foreign = [c for c in ANNOUNCED if getattr(c, "__module__", "").startswith("icontract")]
        if foreign:
            w.violation("C18/library-class-announced", "classes of the library itself were announced: {}".format(foreign), {"prog": spec})
        rejected = [c for c in ANNOUNCED if c not in created and getattr(c, "__module__", None) == loaded.module.__name__]
        kind = spec.get("kind")
        for cls in model.classes:
            if loaded.get(cls) is None:
                continue
            judge_invariants(w, loaded, model, contracts, spec, cls, meta)
            if kind in ("init", "new"):
                continue
            key = spec["key"]
            if model.owner(cls, key) is None:
                continue
            judge_member(w, loaded, model, contracts, spec, cls, key, meta)
    finally:
        loaded.unload()


POST_HOC = '''
import icontract
import icontract._checkers
import icontract._types

@icontract.require(lambda x: HUB.cond("orig_pre", {"x": x}), error=HUB.errinst("orig_pre"))
def f_pre(x):
    return HUB.body("f_pre", {"x": x})

@icontract.ensure(lambda result: HUB.cond("orig_post", {"result": result}), error=HUB.errinst("orig_post"))
def f_post(x):
    return HUB.body("f_post", {"x": x})

class K(icontract.DBC):
    @icontract.require(lambda x: HUB.cond("k_pre", {"x": x}), error=HUB.errinst("k_pre"))
    def m(self, x):
        return HUB.body("K_m", {"x": x})

def added_pre(x):
    return HUB.cond("added_pre", {"x": x})

def added_post(result, OLD):
    return HUB.cond("added_post", {"result": result, "OLD": OLD})

def added_snap(x):
    return HUB.capture("added_snap", {"x": x})

def replaced_pre(x):
    return HUB.cond("replaced_pre", {"x": x})

def replaced_post(result):
    return HUB.cond("replaced_post", {"result": result})

# a contracted function that is in use before it becomes a member of a contract-inheriting class
@icontract.require(lambda x: HUB.cond("shared_pre", {"x": x}), error=HUB.errinst("shared_pre"))
def shared(self, x):
    return HUB.body("shared", {"x": x})

class Base2(icontract.DBC):
    @icontract.require(lambda x: HUB.cond("base_pre", {"x": x}), error=HUB.errinst("base_pre"))
    @icontract.ensure(lambda result: HUB.cond("base_post", {"result": result}), error=HUB.errinst("base_post"))
    def compute(self, x):
        return HUB.body("Base2_compute", {"x": x})
'''

REUSE = '''
class Derived2(Base2):
    compute = shared
'''


def run_post_hoc(w) -> None:
    import icontract._checkers  # pylint: disable=import-outside-toplevel
    import icontract._types  # pylint: disable=import-outside-toplevel

    loaded = prog.load_source(POST_HOC, w.scratch())
    hub = loaded.hub
    mod = loaded.module
    try:
        targets = [("f_pre", mod.f_pre, lambda f: f(1)), ("f_post", mod.f_post, lambda f: f(1)),
                   ("K.m", inspect.getattr_static(mod.K, "m"), lambda f: mod.K().m(1))]
        for name, fn, call in targets:
            chk = icontract._checkers.find_checker(fn)
            # the function has been in use before the integrator adds contracts
            hub.reset()
            call(fn)
            icontract._checkers.add_precondition_to_checker(chk, icontract._types.Contract(
                condition=mod.added_pre, error=hub.errinst("added_pre")))
            icontract._checkers.add_postcondition_to_checker(chk, icontract._types.Contract(
                condition=mod.added_post, error=hub.errinst("added_post")))
            icontract._checkers.add_snapshot_to_checker(chk, icontract._types.Snapshot(capture=mod.added_snap, name="added"))
            for falsy, want in (("added_pre", hub.errinst("added_pre")), ("added_post", hub.errinst("added_post")), (None, None)):
                hub.reset()
                hub.truth = {falsy: False} if falsy else {}
                exc = None
                try:
                    call(fn)
                except BaseException as err:  # pylint: disable=broad-except
                    exc = err
                w.count("post_hoc_contracts_enforced")
                w.case(("post-hoc", name, falsy))
                evs = [e.id for e in hub.events]
                if exc is not want:
                    w.violation("C18/contract-added-by-integrator-not-enforced",
                                "{}: after add_*_to_checker with {} falsy the call gave {!r}; events {}".format(name, falsy, exc, evs),
                                {"post_hoc": name, "falsy": falsy})
                if falsy is None and not {"added_pre", "added_snap", "added_post"} <= set(evs):
                    w.violation("C18/contract-added-by-integrator-not-evaluated", "{}: events {}".format(name, evs), {"post_hoc": name})
            # ... and then REPLACES the lists by assignment (what the inheriting meta-class does when it merges): the wrapper
            # must read the lists of the checker at call time
            chk.__preconditions__ = [[icontract._types.Contract(condition=mod.replaced_pre, error=hub.errinst("replaced_pre"))]]
            chk.__postconditions__ = [icontract._types.Contract(condition=mod.replaced_post, error=hub.errinst("replaced_post"))]
            chk.__postcondition_snapshots__ = []
            for falsy, want in (("replaced_pre", hub.errinst("replaced_pre")), ("replaced_post", hub.errinst("replaced_post")),
                                ("added_pre", None), (None, None)):
                hub.reset()
                hub.truth = {falsy: False} if falsy else {}
                exc = None
                try:
                    call(fn)
                except BaseException as err:  # pylint: disable=broad-except
                    exc = err
                w.count("post_hoc_contracts_enforced")
                w.case(("post-hoc-replaced", name, falsy))
                evs = [e.id for e in hub.events]
                if exc is not want or (set(evs) & {"added_pre", "added_post", "added_snap", "orig_pre", "orig_post", "k_pre"}):
                    w.violation("C18/wrapper-evaluates-stale-lists", "{}: after the lists of the checker were replaced, with {} falsy the call "
                                "gave {!r}; events {}".format(name, falsy, exc, evs), {"post_hoc": name, "falsy": falsy})
        # a contracted function that was already called becomes a member of a DBC subclass: the meta-class merges the inherited
        # contracts into its checker
        hub.reset()
        mod.shared(None, 1)
        exec(compile(REUSE, loaded.path, "exec"), vars(mod))  # pylint: disable=exec-used
        chk = icontract._checkers.find_checker(inspect.getattr_static(mod.Derived2, "compute"))
        listed = [[getattr(c.error, "args", ("?",))[0] if not callable(c.error) else "?" for c in g] for g in chk.__preconditions__]
        for truth, want in (({"shared_pre": False}, None), ({"base_pre": False}, None), ({"shared_pre": False, "base_pre": False}, "some"),
                            ({"base_post": False}, hub.errinst("base_post"))):
            hub.reset()
            hub.truth = dict(truth)
            exc = None
            try:
                mod.Derived2().compute(1)
            except BaseException as err:  # pylint: disable=broad-except
                exc = err
            w.count("post_hoc_contracts_enforced")
            w.case(("reused-after-call", str(sorted(truth))))
            ok = (exc is None) if want is None else (exc is not None if want == "some" else exc is want)
            if not ok:
                w.violation("C18/wrapper-evaluates-stale-lists", "function re-used as a member after it had been called: with {} the call gave {!r} "
                            "although the checker lists the groups {}; events {}".format(truth, exc, listed, [e.id for e in hub.events]),
                            {"post_hoc": "reused-after-call", "truth": truth})
    finally:
        loaded.unload()


SAME_NAME_SOURCE = '''
import dataclasses
import icontract

CREATED = []


class Meta(icontract.DBCMeta):
    """Records every class object which the contract meta-class creates (the ground truth for the announcements)."""

    def __new__(mcs, name, bases, namespace, **kwargs):
        cls = super().__new__(mcs, name, bases, namespace, **kwargs)
        CREATED.append(cls)
        return cls


def make(limit):
    @icontract.invariant(lambda self: self.balance >= limit)
    class Account(metaclass=Meta):
        def __init__(self):
            self.balance = limit

    return Account


FIRST, SECOND, THIRD = make(0), make(10), make(20)


class Plain(metaclass=Meta):
    pass


PLAIN_1 = Plain


class Plain(metaclass=Meta):  # the name is bound again (an interactive session, a reloaded module)
    pass


@dataclasses.dataclass(slots=True)
class Slotted(metaclass=Meta):
    v: int = 0


REBUILT = type(PLAIN_1)(PLAIN_1.__name__, PLAIN_1.__bases__, dict(PLAIN_1.__dict__))
'''


def run_same_names(w) -> None:
    """Distinct classes that share module and qualified name (a class factory called several times, a name bound again, a class
    created anew by dataclass(slots=True) or by hand): every class object the meta-class creates is announced exactly once."""
    install_hook()
    del ANNOUNCED[:]
    loaded = prog.load_source(SAME_NAME_SOURCE, w.scratch())
    try:
        created = list(loaded.module.CREATED)
        w.distinct("same_name_groups", tuple(sorted({c.__qualname__ for c in created})))
        for cls_obj in created:
            n = sum(1 for c in ANNOUNCED if c is cls_obj)
            w.count("classes_announced", n)
            w.count("same_name_classes_checked")
            w.case(("same-name", cls_obj.__qualname__, created.index(cls_obj)))
            if n != 1:
                w.violation("C18/class-announced-{}-times".format(n if n < 2 else "several"),
                            "class #{} named {} (one of {} classes of that name) was announced {} times to the registration hook".format(
                                created.index(cls_obj), cls_obj.__qualname__, sum(1 for c in created if c.__qualname__ == cls_obj.__qualname__), n),
                            {"same_names": cls_obj.__qualname__})
        if len(created) < 8:
            w.mark_inconclusive("the same-name program created only {} classes".format(len(created)))
    finally:
        loaded.unload()


GETATTR_SOURCE = '''
import icontract


{decos}
class Account{base}:
    def __init__(self):
        self.x = 10
        self.limit = 100

    def __getattr__(self, name):
        """Looked up for the attributes the instance does not have: `spend_<n>` and `raise_<n>` change the state."""
        if name.startswith("spend_"):
            self.__dict__["x"] -= int(name[len("spend_"):])
            return self.__dict__["x"]
        if name.startswith("raise_"):
            self.__dict__["limit"] -= int(name[len("raise_"):])
            return self.__dict__["limit"]
        raise AttributeError(name)


class Derived(Account):
    """Inherits __getattr__."""
'''


def run_getattr(w) -> None:
    """`__getattr__` is a special method defined in Python like any other: a look-up of a missing attribute is a CALL, judged by the
    listed invariants of that event."""
    import icontract  # pylint: disable=import-outside-toplevel

    call_inv = "@icontract.invariant(lambda self: self.__dict__['x'] >= 0)"
    set_inv = "@icontract.invariant(lambda self: self.__dict__['limit'] >= 50, check_on=icontract.InvariantCheckEvent.SETATTR)"
    all_inv = "@icontract.invariant(lambda self: self.__dict__['limit'] >= 0, check_on=icontract.InvariantCheckEvent.ALL)"
    for dbc in (False, True):
        for tag, decos in (("call-only", call_inv), ("call-and-setattr", set_inv + "\n" + call_inv), ("setattr-then-call", call_inv + "\n" + set_inv),
                           ("call-and-all", all_inv + "\n" + call_inv)):
            loaded = prog.load_source(GETATTR_SOURCE.format(decos=decos, base="(icontract.DBC)" if dbc else ""), w.scratch())
            mod = loaded.module
            try:
                for cname in ("Account", "Derived"):
                    if cname == "Derived" and not dbc:
                        continue
                    cls_obj = getattr(mod, cname)
                    listed = [c for c in cls_obj.__invariants__ if icontract.InvariantCheckEvent.CALL in c.check_on]
                    for attr in ("spend_5", "spend_11", "raise_60", "raise_200"):
                        # by hand: the state after the look-up, judged by the listed invariants of the event
                        twin = cls_obj()
                        try:
                            twin.__dict__["x"], twin.__dict__["limit"] = 10, 100
                            if attr.startswith("spend_"):
                                twin.__dict__["x"] -= int(attr[6:])
                            else:
                                twin.__dict__["limit"] -= int(attr[6:])
                            manual = "ok" if all(c.condition(self=twin) for c in listed) else "violation"
                        except BaseException as err:  # pylint: disable=broad-except
                            manual = "error " + type(err).__name__
                        inst = cls_obj()
                        try:
                            getattr(inst, attr)
                            real = "ok"
                        except icontract.ViolationError:
                            real = "violation"
                        except BaseException as err:  # pylint: disable=broad-except
                            real = "raised " + type(err).__name__
                        w.count("manual_vs_real_calls")
                        w.count("getattr_lookups_judged")
                        w.case(("getattr", tag, dbc, cname, attr))
                        if manual != real:
                            w.violation("C18/manual-invariant-evaluation-disagrees", "{}{} [{}].{} (a look-up through __getattr__): by hand {} vs the real "
                                        "look-up {}".format(cname, " on DBC" if dbc else "", tag, attr, manual, real), {"getattr": tag, "dbc": dbc})
            finally:
                loaded.unload()


REPLACED_HOOK_SOURCE = '''
import icontract


class OnlyFunctionContracts(icontract.DBC):
    @icontract.require(lambda x: x > 0)
    def f(self, x):
        return x


@icontract.invariant(lambda self: self.x >= 0)
class FirstInvariantByDecorator(icontract.DBC):
    def __init__(self):
        self.x = 1


@icontract.invariant(lambda self: self.x < 100)
@icontract.invariant(lambda self: self.x >= 0, check_on=icontract.InvariantCheckEvent.SETATTR)
class TwoInvariantsByDecorator(icontract.DBC):
    def __init__(self):
        self.x = 1


class Derived(FirstInvariantByDecorator):
    pass


@icontract.invariant(lambda self: self.x != 7)
class DerivedWithOwn(FirstInvariantByDecorator):
    pass


@icontract.invariant(lambda self: True)
class Plain:
    """Not created through the meta-class: nothing to announce."""


CREATED = [OnlyFunctionContracts, FirstInvariantByDecorator, TwoInvariantsByDecorator, Derived, DerivedWithOwn]
'''


def run_replaced_hook(w) -> None:
    """An integrator may REPLACE the registration hook (not wrap it): the announcements do not depend on what the library's own default
    hook would have remembered. Every class created through the meta-class is announced exactly once, whoever gives it its invariants."""
    import icontract._metaclass  # pylint: disable=import-outside-toplevel

    announced = []  # type: List[Any]
    current = icontract._metaclass._register_for_hypothesis
    icontract._metaclass._register_for_hypothesis = announced.append
    try:
        loaded = prog.load_source(REPLACED_HOOK_SOURCE, w.scratch())
    finally:
        icontract._metaclass._register_for_hypothesis = current
    try:
        for cls_obj in loaded.module.CREATED:
            n = sum(1 for c in announced if c is cls_obj)
            w.count("classes_announced", n)
            w.count("classes_announced_to_a_replaced_hook")
            w.case(("replaced-hook", cls_obj.__name__))
            if n != 1:
                w.violation("C18/class-announced-{}-times".format(n if n < 2 else "several"), "with the registration hook replaced, class {} was announced "
                            "{} times".format(cls_obj.__name__, n), {"replaced_hook": cls_obj.__name__})
        if any(c is loaded.module.Plain for c in announced):
            w.violation("C18/library-class-announced", "a plain class given an invariant was announced although the meta-class did not create it",
                        {"replaced_hook": "Plain"})
    finally:
        loaded.unload()


def run(w) -> None:
    if w.shard == 3 % w.nshards:
        run_replaced_hook(w)
    install_hook()
    if w.shard == 2 % w.nshards:
        run_getattr(w)
    if w.shard == 1 % w.nshards:
        run_same_names(w)
    for meta, spec in c04.specs(w):
        w.count("programs")
        run_spec(w, spec, meta)
    if w.shard == 0:
        run_post_hoc(w)
    w.exhaustive = False


def replay(case, w) -> None:
    install_hook()
    if "getattr" in case:
        run_getattr(w)
        return
    if "replaced_hook" in case:
        run_replaced_hook(w)
        return
    if "post_hoc" in case:
        run_post_hoc(w)
        return
    if "same_names" in case:
        run_same_names(w)
        return
    run_spec(w, case["prog"], tuple(case.get("meta", ())))
