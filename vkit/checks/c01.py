"""C01 — preconditions gate every call: the body runs iff the effective precondition holds."""
from typing import Any, Dict, List

from vkit import gen, probe, prog, runner
from vkit.model import Model, decos_of, mkey

ID = "C01"
LEVEL = "exploration"
SHARDS = {"quick": 4, "thorough": 16}
TIMEOUT = {"quick": 240, "thorough": 3000}
DECIDING = ["pre_evaluations", "calls_pre_false", "calls_pre_true"]
RULE = (
    "programs: every callable kind (function, method, static/class method, property get/set/del, __init__, __new__, "
    "__call__) x sync/async x 0..3 own preconditions (0..5 thorough) x 0..3 inherited groups (chains, two-base joins) x "
    "surroundings {none, ensure, ensure+snapshot, class invariant}; conditions as named defs, lambdas, coroutine "
    "functions and awaitable-returning functions with all four error forms; ALL truth assignments per callable "
    "(capped at 64, then sampled) with return values drawn from pools of truthy/falsy objects. A case is one call; it "
    "is non-trivial if at least one precondition was evaluated; distinct = distinct (callable kind, async, group "
    "shape, surroundings, truth vector) tuples. A fixed family of special signatures (positional-only next to **kwargs, "
    "keyword-only after *args, defaults; functions, a method and a static method; sync and async) is called with "
    "colliding keywords: the precondition must be evaluated on the value Python binds for the body and gate on it."
)
ASSUMPTIONS = [
    "the reference model (vkit/model.py) encodes the statement's DNF semantics",
    "probes observe every evaluation because every condition/body is harness-supplied",
]


def programs(w) -> Any:
    """Yield (prog, [(call, ids-to-assign, meta)])."""
    rng = w.rng
    thorough = w.tier == "thorough"
    max_own = 5 if thorough else 3
    rounds = 150 if thorough else 10
    surrounds = ("none", "post", "post+snap", "inv")
    index = 0
    for rnd in range(rounds):
        for kind in gen.CALLABLE_KINDS:
            for is_async in (False, True):
                if is_async and kind in ("pget", "pset", "pdel", "init", "new"):
                    continue
                index += 1
                if index % w.nshards != w.shard:
                    continue
                ids = gen.Ids()
                funcs = []
                classes = []
                calls = []
                for n_pre in range(0, max_own + 1):
                    for sur in surrounds:
                        n_post = 1 if sur in ("post", "post+snap") else 0
                        n_snap = 1 if sur == "post+snap" else 0
                        if kind == "function":
                            if sur == "inv":
                                continue
                            m = gen.make_member(ids, rng, kind, ids.new("f"), is_async, n_pre, n_post, n_snap)
                            funcs.append(m)
                            calls.append(({"target": "func", "name": m["name"]},
                                          [c["id"] for c in decos_of(m, "pre")],
                                          {"kind": kind, "async": is_async, "shape": [n_pre], "sur": sur}))
                            continue
                        # class kinds: own group on one class, or a hierarchy with inherited groups
                        shapes = [[n_pre]]
                        if kind == "call":
                            pass  # __call__ is looked up on the metaclass of the bases: hierarchies are C04's business
                        elif kind not in ("init", "new") and n_pre <= 2:
                            shapes.append([rng.randint(1, 2), n_pre])
                            shapes.append([rng.randint(1, 2), None, n_pre])  # gap: middle class does not override
                            if thorough or rnd == 0:
                                shapes.append([rng.randint(1, 2), rng.randint(0, 2), n_pre])
                            # two direct bases which both state preconditions for the member (either group admits the call)
                            shapes.append(("join", rng.randint(1, 2), rng.randint(1, 2), n_pre))
                        elif kind in ("init", "new") and n_pre <= 2:
                            shapes.append([rng.randint(1, 2), n_pre])  # ctor contracts are not inherited
                        for shape in shapes:
                            if isinstance(shape, tuple):
                                base = ids.new("m")
                                roots = []
                                for npre_l in shape[1:3]:
                                    cname = ids.new("K")
                                    members = [gen.make_member(ids, rng, kind, base, is_async, npre_l, 0, 0)]
                                    if kind in ("pset", "pdel"):
                                        members.insert(0, gen.make_member(ids, rng, "pget", base, False, 0, 0, 0))
                                    classes.append(gen.chain_class(cname, [], members, [], dbc=True))
                                    roots.append(cname)
                                cname = ids.new("K")
                                members = [gen.make_member(ids, rng, kind, base, is_async, shape[3], n_post, n_snap)]
                                if kind in ("pset", "pdel"):
                                    members.insert(0, gen.make_member(ids, rng, "pget", base, False, 0, 0, 0))
                                classes.append(gen.chain_class(cname, roots, members, [gen.make_inv(ids, rng)] if sur == "inv" else [], dbc=True))
                                for name in roots + [cname]:
                                    calls.append((name, base, kind, {"kind": kind, "async": is_async, "shape": list(shape), "sur": sur}))
                                continue
                            prev = []  # type: List[str]
                            names = []
                            base = ids.new("m") if rng.random() < 0.9 else "_" + ids.new("m")
                            for level, npre_l in enumerate(shape):
                                cname = ids.new("K")
                                members = []
                                if npre_l is not None:
                                    members.append(gen.make_member(ids, rng, kind, base, is_async, npre_l,
                                                                   n_post if level == len(shape) - 1 else 0,
                                                                   n_snap if level == len(shape) - 1 else 0))
                                    if kind not in ("init", "new") and level > 0 and npre_l and rng.random() < 0.3:
                                        # the override applies a precondition decorator OBJECT of an ancestor again (one contract
                                        # listed in two groups: each group still is the conjunction of all its members)
                                        pool = [d for c in classes if c["name"] in prev for bm in c["members"] if bm["name"] == members[-1]["name"]
                                                and bm["kind"] == members[-1]["kind"] for d in bm["decos"]
                                                if d[0] == "pre" and d[1].get("form") in ("def", "lambda") and not d[1].get("via_helper")]
                                        if pool:
                                            picked = rng.choice(pool)
                                            picked[1]["shared"] = True
                                            picked[1]["form"] = "def"
                                            members[-1]["decos"].insert(rng.randint(0, len(members[-1]["decos"])), picked)
                                    if kind not in ("init", "new") and members[-1]["decos"] and rng.random() < 0.2:
                                        # a foreign functools.wraps decorator above the contracts: the checker is not the
                                        # outermost object of the stack any more
                                        members[-1]["decos"].append(["foreign", "F" + cname])
                                    if kind == "pset" or kind == "pdel":
                                        # a property needs its getter first
                                        getter = gen.make_member(ids, rng, "pget", base, False, 0, 0, 0)
                                        members.insert(0, getter)
                                invs = [gen.make_inv(ids, rng)] if sur == "inv" and level == 0 else []
                                classes.append(gen.chain_class(cname, prev[-1:], members, invs, dbc=(kind != "call")))
                                prev.append(cname)
                                names.append(cname)
                            for cname in names:
                                calls.append((cname, base, kind, {"kind": kind, "async": is_async, "shape": shape, "sur": sur}))
                yield {"funcs": funcs, "classes": classes}, calls


def call_for(model: Model, entry) -> Any:
    """Turn a pending (class, member base name, kind) into a call spec and the condition ids to enumerate."""
    if isinstance(entry[0], dict):
        return entry
    cname, base, kind, meta = entry
    if kind in ("init", "new"):
        key = "__init__" if kind == "init" else "__new__"
        o = model.owner(cname, key)
        if o is None:
            return None
        m = model.defines(o, key)
        ids = [c["id"] for c in decos_of(m, "pre")]
        return {"target": "construct", "cls": cname}, ids, dict(meta, on=cname)
    key = gen.member_name(kind, base)
    if kind in ("pget", "pset", "pdel"):
        key = "{}.{}".format(base, kind)
    o = model.owner(cname, key)
    if o is None:
        return None
    groups = model.eff_pre(o, key)
    ids = []
    for g in groups:
        for c in g:
            if c["id"] not in ids:
                ids.append(c["id"])
    return {"target": "member", "cls": cname, "key": key}, ids, dict(meta, on=cname)


def judge(w, loaded, model: Model, contracts, call, truth, meta) -> None:
    """The C01 monitor for one call."""
    import icontract  # pylint: disable=import-outside-toplevel

    call = dict(call, truth=truth)
    exp = runner.expected_for(model, call)
    obs = runner.perform(loaded, model, call)
    case = {"prog": model.prog, "call": call, "meta": meta}
    if obs.setup_error:
        w.violation("C01/setup", obs.setup_error, case)
        return
    keys = obs.keys()
    n_pre = sum(1 for k in keys if k[0] == "cond")
    w.count("pre_evaluations", n_pre)
    w.count("events", len(keys))
    nontrivial = None
    if n_pre:
        nontrivial = (meta["kind"], meta["async"], str(meta["shape"]), meta["sur"], tuple(sorted((k, v[0]) for k, v in truth.items())))
    w.case(nontrivial)
    w.distinct("traces", keys)
    pre_true = exp.outcome[0] != "violation" and exp.outcome[0] != "async_on_sync"
    body_ran = any(k[0] == "body" for k in keys)
    snaps = [k for k in keys if k[0] == "snap"]
    detail = {"expected": repr(exp), "observed": obs.describe()}
    if exp.outcome[0] == "async_on_sync":
        w.count("calls_async_on_sync")
        if obs.returned or type(obs.exc) is not ValueError or body_ran:
            w.violation("C01/async-condition-on-sync-not-rejected", "coroutine condition on sync callable: {}".format(
                obs.describe()), case, detail)
        return
    if pre_true:
        w.count("calls_pre_true")
        if not body_ran:
            w.violation(classify(model, call, "body-skipped"), "effective precondition holds but the body was not entered: {}".format(
                obs.describe()["outcome"]), case, detail)
        elif not obs.returned:
            w.violation(classify(model, call, "raised-though-pre-holds"), "effective precondition holds but the call raised {}".format(
                obs.describe()["outcome"]), case, detail)
    else:
        w.count("calls_pre_false")
        if body_ran:
            w.violation(classify(model, call, "body-entered"), "effective precondition is false but the body was entered", case, detail)
        if snaps:
            w.violation("C01/snapshot-captured-though-pre-false", "snapshot captured although the precondition failed: {}".format(snaps),
                        case, detail)
        if obs.returned:
            w.violation(classify(model, call, "returned-though-pre-false"), "effective precondition is false but the call returned", case, detail)
        else:
            # the error must be the error of one of the falsy conditions of the effective precondition
            falsy = [cid for cid, v in truth.items() if v[0] == "F"]
            ok = False
            for cid in falsy:
                fake = runner.Expected() if hasattr(runner, "Expected") else None
                c = contracts[cid]
                err = c.get("err", "default")
                exc = obs.exc
                hub = loaded.hub
                if err == "default":
                    ok = type(exc) is icontract.ViolationError and ("D:" + cid + ":") in str(exc)
                elif err == "class":
                    ok = type(exc) is hub.errclasses.get(cid) and ("D:" + cid + ":") in str(exc)
                elif err == "instance":
                    ok = exc is hub.errinsts.get(cid)
                elif err in ("factory", "method"):
                    made = hub.factory_made.get(cid, [])
                    ok = len(made) >= 1 and exc is made[-1]
                if ok:
                    break
            if not ok:
                w.violation(classify(model, call, "wrong-error"), "precondition failed but the caller got {} which is not the error of "
                            "any falsy condition {}".format(obs.describe()["outcome"], falsy), case, detail)
    # evaluated preconditions must belong to the effective precondition
    if w.counters.get("evaluations", 0) % 50 == 1:
        w.sample({"call": call, "meta": meta, "observed": obs.describe()})


def classify(model: Model, call, what: str) -> str:
    """Mechanism key: structural features of the failing case + deviation shape."""
    if call["target"] == "member":
        key = call["key"]
        cls = call["cls"]
        o = model.owner(cls, key)
        # mixed bases: some providing base has no precondition while another has
        if o is not None and len(model.bases(o)) >= 2:
            flags = []
            for b in model.bases(o):
                bo = model.owner(b, key)
                if bo is not None:
                    flags.append(bool(model.eff_pre(bo, key)))
            if flags and any(flags) and not all(flags):
                return "C01/mixed-bases-one-without-precondition/" + what
    return "C01/" + what


def run_program(w, prog_spec, pending) -> None:
    model = Model(prog_spec)
    contracts = runner.index_contracts(prog_spec)
    loaded = prog.load(prog_spec, w.scratch())
    try:
        for name, err in loaded.hub.creation_errors.items():
            if name in model.funcs or model.class_rejection(name) is None:
                w.violation("C01/definition-failed", "definition of {} raised {}: {}".format(name, type(err).__name__, str(err)[:300]),
                            {"prog": prog_spec})
        for entry in pending:
            resolved = call_for(model, entry)
            if resolved is None:
                continue
            call, ids, meta = resolved
            cls = call.get("cls")
            if cls is not None and loaded.get(cls) is None:
                continue
            cap = 64 if w.tier == "quick" else 128
            for truth in gen.all_truth(ids, w.rng, cap):
                judge(w, loaded, model, contracts, call, truth, meta)
    finally:
        loaded.unload()


SIGNATURE_SOURCE = '''
import icontract

LOG = []


def positive_x(x):
    LOG.append(("pre", "x", x))
    return x > 0


def positive_k(k):
    LOG.append(("pre", "k", k))
    return k > 0


@icontract.require(positive_x)
{a}def posonly_kwargs(x, /, **kwargs):
    LOG.append(("body", "x", x))
    return x


@icontract.require(positive_x)
{a}def posonly_default_kwargs(x=1, /, **kwargs):
    LOG.append(("body", "x", x))
    return x


@icontract.require(positive_k)
{a}def kwonly_after_varargs(x, *rest, k=10):
    LOG.append(("body", "k", k))
    return k


@icontract.require(positive_x)
{a}def default_then_kwargs(a, x=-1, **kwargs):
    LOG.append(("body", "x", x))
    return x


class K:
    @icontract.require(positive_x)
    {a}def method(self, x, /, *rest, **kwargs):
        LOG.append(("body", "x", x))
        return x

    @staticmethod
    @icontract.require(positive_k)
    {a}def static(*rest, k=-2, **kwargs):
        LOG.append(("body", "k", k))
        return k
'''

# (callable, positional arguments, keyword arguments, the parameter the precondition reads, the value the body receives for it)
SIGNATURE_CALLS = [
    ("posonly_kwargs", (1,), {"x": -5}, 1), ("posonly_kwargs", (-1,), {"x": 5}, -1), ("posonly_kwargs", (2,), {"y": -3}, 2),
    ("posonly_kwargs", (0,), {"x": 1}, 0),
    ("posonly_default_kwargs", (), {"x": -7}, 1), ("posonly_default_kwargs", (-3,), {"x": 7}, -3), ("posonly_default_kwargs", (), {}, 1),
    ("kwonly_after_varargs", (1, -2, -3), {}, 10), ("kwonly_after_varargs", (1, 2), {"k": -4}, -4), ("kwonly_after_varargs", (-1,), {"k": 1}, 1),
    ("default_then_kwargs", (1,), {}, -1), ("default_then_kwargs", (1,), {"x": 3}, 3), ("default_then_kwargs", (1, 2), {"y": -1}, 2),
    ("K.method", (1,), {"x": -5}, 1), ("K.method", (-1, 2), {"x": 5}, -1),
    ("K.static", (1, 2), {}, -2), ("K.static", (-1,), {"k": 3}, 3), ("K.static", (), {"k": -3, "x": 1}, -3),
]


def run_signatures(w) -> None:
    """Special signatures (positional-only next to **kwargs, keyword-only after *args, defaults), sync and async: the precondition
    must gate the call on the very value which the body receives - the expected value is fixed by Python's own binding rules."""
    import icontract  # pylint: disable=import-outside-toplevel

    for is_async in (False, True):
        loaded = prog.load_source(SIGNATURE_SOURCE.replace("{a}", "async " if is_async else ""), w.scratch())
        mod = loaded.module
        try:
            for name, args, kwargs, received in SIGNATURE_CALLS:
                target = mod
                for part in name.split("."):
                    target = getattr(target, part)
                if name == "K.method":
                    target = getattr(mod.K(), "method")
                del mod.LOG[:]
                try:
                    res = target(*args, **kwargs)
                    if is_async:
                        res = probe.drive(res)
                    outcome = "returned"
                except icontract.ViolationError:
                    outcome = "violation"
                except BaseException as err:  # pylint: disable=broad-except
                    outcome = "raised {}: {}".format(type(err).__name__, str(err)[:100])
                log = list(mod.LOG)
                holds = received > 0
                w.count("pre_evaluations", len([e for e in log if e[0] == "pre"]))
                w.count("calls_pre_true" if holds else "calls_pre_false")
                w.count("signature_calls")
                w.case(("signature", name, is_async, str(args), str(sorted(kwargs.items()))))
                case = {"signature": name, "async": is_async, "args": list(args), "kwargs": kwargs}
                entered = [e for e in log if e[0] == "body"]
                seen = [e[2] for e in log if e[0] == "pre"]
                what = "{}{}(*{}, **{}): the body receives {!r}, the precondition was evaluated on {}, outcome {}, log {}".format(
                    "async " if is_async else "", name, args, kwargs, received, seen, outcome, log)
                if seen != [received]:
                    w.violation("C01/precondition-evaluated-on-other-value-than-the-body-receives", what, case)
                elif holds and (outcome != "returned" or not entered):
                    w.violation("C01/body-skipped", what, case)
                elif not holds and (outcome != "violation" or entered):
                    w.violation("C01/body-entered", what, case)
        finally:
            loaded.unload()


RECURSION_SOURCE = '''
import icontract

ENTERED = []


@icontract.require(lambda n: n >= 0)
{a}def countdown(n):
    """Preconditions only (no postcondition); calls itself from its body."""
    ENTERED.append(("countdown", n))
    if n != 0:
        return {w}countdown(n - 2)
    return 0


@icontract.require(lambda n: n >= 0)
@icontract.require(lambda n: n < 100)
{a}def even(n):
    ENTERED.append(("even", n))
    return True if n == 0 else {w}odd(n - 3)


@icontract.require(lambda n: n >= 0)
{a}def odd(n):
    ENTERED.append(("odd", n))
    return False if n == 0 else {w}even(n - 3)


class Node:
    def __init__(self, value, nxt=None):
        self.value, self.nxt = value, nxt

    @icontract.require(lambda self: self.value >= 0)
    {a}def walk(self):
        ENTERED.append(("walk", self.value))
        return 0 if self.nxt is None else 1 + {w}self.nxt.walk()
'''


def run_recursion_from_body(w) -> None:
    """Calls of a function made from its own body (directly, through another function, on another object) are calls like any other:
    a violated precondition keeps the body from running."""
    import icontract  # pylint: disable=import-outside-toplevel

    for is_async in (False, True):
        loaded = prog.load_source(RECURSION_SOURCE.format(a="async " if is_async else "", w="await " if is_async else ""), w.scratch())
        mod = loaded.module
        try:
            for tag, call, want_entered in (
                    ("recursion", lambda: mod.countdown(3), [("countdown", 3), ("countdown", 1)]),
                    ("mutual-recursion", lambda: mod.even(7), [("even", 7), ("odd", 4), ("even", 1)]),
                    ("same-method-of-another-object", lambda: mod.Node(1, mod.Node(2, mod.Node(-3, mod.Node(4)))).walk(), [("walk", 1), ("walk", 2)])):
                del mod.ENTERED[:]
                try:
                    res = call()
                    if is_async:
                        res = probe.drive(res)
                    outcome = "returned {!r}".format(res)
                except icontract.ViolationError:
                    outcome = "violation"
                except BaseException as err:  # pylint: disable=broad-except
                    outcome = "raised {}: {}".format(type(err).__name__, str(err)[:100])
                w.count("pre_evaluations", len(want_entered) + 1)
                w.count("calls_pre_false")
                w.count("recursive_calls_from_body")
                w.case(("recursion-from-body", tag, is_async))
                if outcome != "violation" or list(mod.ENTERED) != want_entered:
                    w.violation("C01/body-entered", "{}{}: {}; bodies entered {} (the nested call with violating arguments must be refused before its body; "
                                "expected {})".format("async " if is_async else "", tag, outcome, list(mod.ENTERED), want_entered),
                                {"recursion": tag, "async": is_async})
        finally:
            loaded.unload()


INSIDE_ANOTHER_CHECK_SOURCE = '''
import icontract

ENTERED = []


@icontract.require(lambda x: x > 0)
{a}def helper(x):
    ENTERED.append(("helper", x))
    return x


{a}def try_all(values):
    out = []
    for value in values:
        try:
            out.append({w}helper(value))
        except icontract.ViolationError:
            out.append("refused")
    return out


@icontract.invariant(lambda self: True)
class Holder:
    {a}def in_a_method_body(self, values):
        """The instance stays marked for the whole body: the calls of ``helper`` are made while a check is in flight."""
        return {w}try_all(values)


{a}def all_tried(values):
    OUTCOMES.append({w}try_all(values))
    return True


OUTCOMES = []


@icontract.require(all_tried)
{a}def in_a_condition_of_another_function(values):
    return OUTCOMES[-1]
'''


def run_calls_inside_another_check(w) -> None:
    """Several calls of one contracted function made while ANOTHER check of the flow is in flight (in the body of a method of a class
    with invariants, in a condition of another function): each of them is gated by its own precondition, also the second and third."""
    for is_async in (False, True):
        loaded = prog.load_source(INSIDE_ANOTHER_CHECK_SOURCE.format(a="async " if is_async else "", w="await " if is_async else ""), w.scratch())
        mod = loaded.module
        try:
            for tag, call in (("method-body-of-a-class-with-invariants", lambda vs: mod.Holder().in_a_method_body(vs)),
                              ("condition-of-another-function", lambda vs: mod.in_a_condition_of_another_function(vs))):
                for values in ([1, -5], [-5, 1, -6], [1, 2, -3, 4, -1]):
                    del mod.ENTERED[:]
                    try:
                        res = call(list(values))
                        if is_async:
                            res = probe.drive(res)
                        outcome = res
                    except BaseException as err:  # pylint: disable=broad-except
                        outcome = "raised {}: {}".format(type(err).__name__, str(err)[:100])
                    want = [v if v > 0 else "refused" for v in values]
                    want_entered = [("helper", v) for v in values if v > 0]
                    w.count("pre_evaluations", len(values))
                    w.count("calls_pre_false", sum(1 for v in values if v <= 0))
                    w.count("calls_pre_true", sum(1 for v in values if v > 0))
                    w.count("calls_inside_another_check", len(values))
                    w.case(("inside-another-check", tag, tuple(values), is_async))
                    if outcome != want or list(mod.ENTERED) != want_entered:
                        w.violation("C01/body-entered", "{}{} with {}: outcomes {} and bodies entered {} (expected {} and {}): every call is gated by its "
                                    "own precondition, whatever was checked before it in the same flow".format(
                                        "async " if is_async else "", tag, values, outcome, list(mod.ENTERED), want, want_entered),
                                    {"inside_another_check": tag, "async": is_async})
        finally:
            loaded.unload()


def run(w) -> None:
    w.exhaustive = False
    if w.shard == 2 % w.nshards:
        run_calls_inside_another_check(w)
    if w.shard == 0:
        run_signatures(w)
    if w.shard == 1 % w.nshards:
        run_recursion_from_body(w)
    for prog_spec, pending in programs(w):
        w.count("programs")
        run_program(w, prog_spec, pending)


def replay(case, w) -> None:
    if "inside_another_check" in case:
        run_calls_inside_another_check(w)
        return
    if "signature" in case:
        run_signatures(w)
        return
    if "recursion" in case:
        run_recursion_from_body(w)
        return
    prog_spec = case["prog"]
    model = Model(prog_spec)
    contracts = runner.index_contracts(prog_spec)
    loaded = prog.load(prog_spec, w.scratch())
    try:
        if "call" in case:
            judge(w, loaded, model, contracts, {k: v for k, v in case["call"].items() if k != "truth"},
                  case["call"].get("truth", {}), case.get("meta", {"kind": "?", "async": False, "shape": [], "sur": "?"}))
        else:
            for name, err in loaded.hub.creation_errors.items():
                w.violation("C01/definition-failed", "definition of {} raised {!r}".format(name, err), case)
    finally:
        loaded.unload()
