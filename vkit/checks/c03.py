"""C03 — invariants are checked around every public operation on a constructed object (and never during construction)."""
import inspect
import itertools
from typing import Any, Dict, List, Optional, Tuple

from vkit import gen, probe, prog
from vkit.model import is_public
from vkit.probe import truth_bool

ID = "C03"
LEVEL = "exploration"
SHARDS = {"quick": 4, "thorough": 16}
TIMEOUT = {"quick": 300, "thorough": 3000}
DECIDING = ["invariant_evaluations", "operations", "constructions", "exempt_operations", "ops_with_falsy_before"]
RULE = (
    "classes: chains of 1..3 classes (DBC and plain roots) x flavour {plain, __slots__, dataclass, frozen dataclass, no __init__, "
    "own __new__} x subclass constructors calling super().__init__() first / in the middle / last / never, assigning attributes "
    "and calling public methods during construction, subclasses adding __init__ to a base without one x invariants with "
    "check_on in {CALL, SETATTR, ALL} in every decorator order, split across base and subclasses x members {public method, "
    "public and protected coroutine (async def) methods driven through a real suspension, "
    "_protected, __private, __call__, __len__, __eq__, __getattr__, __repr__, __getattribute__, __setattr__ defined in Python, "
    "property get/set/del, class method, static method} x operation sequences (construct, call, attribute set on plain attribute "
    "and on property, delete, len(), call(), ==, repr(), missing attribute) x truth sequences in which an invariant flips "
    "between its before- and after-evaluation. Oracle: the statement's clauses on the probe log: after the outermost constructor "
    "returns all invariants once in order; selected set before and after each public/dunder/property operation; falsy before => "
    "body not run and that invariant's error; never an evaluation while the object is under construction or around exempt "
    "members. Non-trivial = operation on a class with at least one invariant; distinct = (class shape, flavour, invariant "
    "layout, operation, truth sequence)."
    ' Fixed scenarios: factory / nested / sibling __new__ (an object of the same class built inside __new__ is chec'
    'ked on its own), special methods bound to functions defined under another name (the event they stand for selec'
    'ts the invariants).'
)
ASSUMPTIONS = [
    "C-level slot wrappers inherited from object, evaluation after a body that raised, construction paths bypassing the "
    "constructor, and non-DBC subclasses of invariant-carrying classes are silent zones and are not generated",
]

CHECK_ONS = ("CALL", "SETATTR", "ALL")


class ClassPlan:
    """Structure of one generated class (what the oracle needs) together with its source."""

    def __init__(self, name: str) -> None:
        self.name = name
        self.base = None  # type: Optional[str]
        self.invs = []  # type: List[Dict[str, Any]]   # nearest-first
        self.members = {}  # type: Dict[str, str]   # member name -> kind
        self.has_init = False
        self.init_params = 0
        self.super_pos = None  # type: Optional[str]
        self.flavour = "plain"
        self.dbc = True
        self.py_setattr = False
        self.py_getattribute = False
        self.ext = {}  # type: Dict[str, str]   # property name -> "setter" | "deleter" | "both" (accessors added to an inherited property)
        self.ext_owner = {}  # type: Dict[str, str]
        self.src = ""


def plans_to_json(plans: Dict[str, ClassPlan]) -> Dict[str, Any]:
    return {n: {k: v for k, v in vars(p).items() if k != "src"} for n, p in plans.items()}


def plans_from_json(data: Dict[str, Any]) -> Dict[str, ClassPlan]:
    out = {}
    for n, d in data.items():
        p = ClassPlan(n)
        for k, v in d.items():
            setattr(p, k, v)
        out[n] = p
    return out


def render_class(plan: ClassPlan, plans: Dict[str, ClassPlan], rng) -> str:
    lines = []
    for inv in reversed(plan.invs):
        fn = "lambda self: HUB.inv({!r}, self)".format(inv["id"]) if inv["self"] else "lambda: HUB.inv({!r}, None)".format(inv["id"])
        lines.append("@icontract.invariant({}, description={!r}, check_on=icontract.InvariantCheckEvent.{}, error=HUB.errinst({!r}))".format(
            fn, "D:" + inv["id"], inv["check_on"], inv["id"]))
    if plan.flavour in ("dataclass", "frozen"):
        lines.append("@dataclasses.dataclass" + ("(frozen=True)" if plan.flavour == "frozen" else ""))
    bases = plan.base or ("icontract.DBC" if plan.dbc else "")
    if plan.flavour == "namedtuple":
        bases = "typing.NamedTuple"
    lines.append("class {}{}:".format(plan.name, "({})".format(bases) if bases else ""))
    body = []
    n = plan.name
    if plan.flavour == "namedtuple":
        body.append("a: int = 1")
        body.append("pval: int = 0")
    if plan.flavour == "own-new" and plan.base is None:
        body += ["def __new__(cls, *args, **kwargs):", "    HUB.log('new-body', {!r})".format(n), "    return super().__new__(cls)"]
    if plan.flavour == "slots":
        body.append("__slots__ = ('a', 'b', 'pval', 'store') if {} else ()".format(plan.base is None))
    if plan.flavour in ("dataclass", "frozen"):
        body.append("a: int = 1")
        body.append("pval: int = 0")
    if plan.has_init:
        params = ["self"] + ["x{}".format(i) for i in range(plan.init_params)]
        body.append("def __init__({}):".format(", ".join(params)))
        body.append("    HUB.log('ctor-enter', {!r}, {{'self': self}})".format(n))
        body.append("    try:")
        stmts = []
        sup = None
        if plan.base is not None and plan.super_pos is not None:
            base_plan = plans[plan.base]
            # find the nearest ancestor with an __init__ to know how many arguments to pass
            anc = base_plan
            while anc is not None and not anc.has_init:
                anc = plans.get(anc.base) if anc.base else None
            nargs = anc.init_params if anc is not None else 0
            sup = "super().__init__({})".format(", ".join("0" for _ in range(nargs)))
        own = ["self.a = 1", "self.b = 2", "HUB.body('{}___init__', {{'self': self}})".format(n)]
        if plan.members.get("pub") and rng.random() < 0.5:
            own.append("self.pub()")
        if sup is None:
            stmts = own
        elif plan.super_pos == "first":
            stmts = [sup] + own
        elif plan.super_pos == "last":
            stmts = own + [sup]
        else:
            stmts = own[:1] + [sup] + own[1:]
        for s in stmts:
            body.append("        " + s)
        body.append("    finally:")
        body.append("        HUB.log('ctor-exit', {!r}, {{'self': self}})".format(n))
    for name, kind in plan.members.items():
        mid = "{}_{}".format(n, name)
        if kind == "method":
            if name == "__eq__":
                body += ["def __eq__(self, other):", "    return HUB.body({!r}, {{'self': self}}) is not None and self is other".format(mid),
                         "def __hash__(self):", "    return 1"]
            elif name == "__len__":
                body += ["def __len__(self):", "    HUB.body({!r}, {{'self': self}})".format(mid), "    return 3"]
            elif name == "__repr__":
                body += ["def __repr__(self):", "    HUB.body({!r}, {{'self': self}})".format(mid), "    return '<{}>'".format(n)]
            elif name == "__getattr__":
                body += ["def __getattr__(self, item):", "    if item.startswith('__') or item in ('a', 'b', 'pval', 'store'):",
                         "        raise AttributeError(item)", "    return HUB.body({!r}, {{'self': self}})".format(mid)]
            elif name == "__getattribute__":
                body += ["def __getattribute__(self, item):", "    if item == 'watched':", "        HUB.body({!r}, {{'self': self}})".format(mid),
                         "        return 7", "    return object.__getattribute__(self, item)"]
            elif name == "__setattr__":
                body += ["def __setattr__(self, key, value):", "    HUB.body({!r}, {{'self': self}})".format(mid),
                         "    object.__setattr__(self, key, value)"]
            elif name == "__call__":
                body += ["def __call__(self, q=0):", "    return HUB.body({!r}, {{'self': self}})".format(mid)]
            elif name in ("apub", "_aprot"):
                # public / protected coroutine methods: the invariants surround the awaited call, with a real suspension inside
                body += ["async def {}(self, q=0):".format(name), "    await TICK('body')", "    return HUB.body({!r}, {{'self': self}})".format(mid)]
            else:
                body += ["def {}(self, q=0):".format(name), "    return HUB.body({!r}, {{'self': self}})".format(mid)]
        elif kind == "static":
            body += ["@staticmethod", "def {}(q=0):".format(name), "    return HUB.body({!r}, {{}})".format(mid)]
        elif kind == "class":
            body += ["@classmethod", "def {}(cls, q=0):".format(name), "    return HUB.body({!r}, {{'cls': cls}})".format(mid)]
        elif kind == "prop_ext":
            # new accessors derived from the (already wrapped) property of an ancestor
            ext = plan.ext[name]
            first = True
            if ext in ("setter", "both"):
                body += ["@{}.{}.setter".format(plan.ext_owner[name], name), "def {}(self, value):".format(name),
                         "    HUB.body({!r}, {{'self': self}})".format(mid + "_set")]
                first = False
            if ext in ("deleter", "both"):
                body += ["@{}.deleter".format(name if not first else "{}.{}".format(plan.ext_owner[name], name)), "def {}(self):".format(name),
                         "    HUB.body({!r}, {{'self': self}})".format(mid + "_del")]
        elif kind == "prop":
            body += ["@property", "def {}(self):".format(name), "    return HUB.body({!r}, {{'self': self}})".format(mid + "_get"),
                     "@{}.setter".format(name), "def {}(self, value):".format(name),
                     "    HUB.body({!r}, {{'self': self}})".format(mid + "_set"),
                     "@{}.deleter".format(name), "def {}(self):".format(name), "    HUB.body({!r}, {{'self': self}})".format(mid + "_del")]
    if not body:
        body.append("pass")
    lines += ["    " + b for b in body]
    return "\n".join(lines) + "\n"


def make_program(rng, ids: gen.Ids, depth: int, dbc: bool, flavour: str) -> Tuple[str, Dict[str, ClassPlan], List[str]]:
    plans = {}  # type: Dict[str, ClassPlan]
    order = []
    prev = None
    pool = ["pub", "pub2", "apub", "_aprot", "_prot", "__priv", "__call__", "__len__", "__eq__", "__getattr__", "__repr__", "__getattribute__",
            "__setattr__", "prop", "cm", "sm"]
    for level in range(depth):
        plan = ClassPlan(ids.new("K"))
        plan.base = prev
        plan.dbc = dbc
        plan.flavour = flavour if level == 0 else "plain"
        n_inv = rng.choice((0, 1, 1, 2, 3)) if (level > 0 or depth > 1) else rng.choice((1, 1, 2, 3))
        if not dbc and level > 0:
            n_inv = 0  # non-DBC subclasses adding invariants are documented as undefined
        for _ in range(n_inv):
            plan.invs.append({"id": ids.new("i"), "check_on": rng.choice(CHECK_ONS), "self": rng.random() < 0.85})
        if plan.flavour in ("plain", "slots", "own-new"):
            if level == 0:
                plan.has_init = rng.random() < 0.75
            else:
                plan.has_init = rng.random() < 0.6
            if plan.has_init:
                plan.init_params = rng.randint(0, 1)
                if level > 0:
                    plan.super_pos = rng.choice(("first", "middle", "last", None))
        chosen = rng.sample(pool, rng.randint(2, 6)) if plan.flavour not in ("frozen",) else rng.sample(
            [p for p in pool if p not in ("__setattr__", "__eq__")], rng.randint(2, 5))
        if plan.flavour in ("dataclass", "frozen"):
            chosen = [c for c in chosen if c not in ("__eq__", "__repr__", "__setattr__")]
        if plan.flavour == "slots":
            chosen = [c for c in chosen if c not in ("__getattr__",)]
        if plan.flavour == "namedtuple":
            chosen = [c for c in chosen if c not in ("__setattr__", "__getattr__", "__eq__", "__len__", "prop", "__getattribute__")] or ["pub"]
        for name in chosen:
            kind = {"prop": "prop", "cm": "class", "sm": "static"}.get(name, "method")
            plan.members[name] = kind
        if level > 0 and "prop" not in plan.members and plan.flavour == "plain" and rng.random() < 0.4:
            anc = prev
            owner = None
            while anc is not None:
                if plans[anc].members.get("prop") in ("prop", "prop_ext"):
                    owner = anc
                    break
                anc = plans[anc].base
            if owner is not None and plans[order[0]].flavour not in ("frozen",):
                plan.members["prop"] = "prop_ext"
                plan.ext["prop"] = rng.choice(("setter", "deleter", "both"))
                plan.ext_owner["prop"] = owner
        plans[plan.name] = plan
        order.append(plan.name)
        prev = plan.name
    src = [HEADER]
    for name in order:
        plans[name].src = render_class(plans[name], plans, rng)
        src.append(plans[name].src)
        src.append("\n")
    return "".join(src), plans, order


HEADER = "import dataclasses\nimport typing\nimport icontract\nfrom vkit.probe import Tick as TICK\n\n"


class Oracle:
    def __init__(self, plans: Dict[str, ClassPlan]) -> None:
        self.plans = plans

    def chain(self, cls: str) -> List[str]:
        out = []
        cur = cls  # type: Optional[str]
        while cur is not None:
            out.append(cur)
            cur = self.plans[cur].base
        return out

    def invs(self, cls: str) -> List[Dict[str, Any]]:
        res = []  # type: List[Dict[str, Any]]
        for c in reversed(self.chain(cls)):
            res.extend(self.plans[c].invs)
        return res

    def invs_on(self, cls: str, event: str) -> List[Dict[str, Any]]:
        return [i for i in self.invs(cls) if i["check_on"] in (event, "ALL")]

    def owner(self, cls: str, member: str) -> Optional[str]:
        for c in self.chain(cls):
            if member in self.plans[c].members:
                return c
        return None

    def has_init(self, cls: str) -> bool:
        return any(self.plans[c].has_init for c in self.chain(cls))

    def init_params(self, cls: str) -> int:
        for c in self.chain(cls):
            if self.plans[c].has_init:
                return self.plans[c].init_params
        return 0


def expected_inv_sequence(invs: List[Dict[str, Any]], truth: Dict[str, Any], phases: int) -> Tuple[List[str], Optional[str], int]:
    """Expected inv event ids for ``phases`` passes (1 = after only, 2 = before+after); returns (ids, failing id, failing phase)."""
    evals = {}  # type: Dict[str, int]
    out = []
    for phase in range(phases):
        for inv in invs:
            n = evals.get(inv["id"], 0)
            evals[inv["id"]] = n + 1
            spec = truth.get(inv["id"], True)
            if isinstance(spec, dict):
                seq = spec["seq"]
                spec = seq[min(n, len(seq) - 1)]
            out.append(inv["id"])
            if not truth_bool(spec):
                return out, inv["id"], phase
    return out, None, -1


def operations(oracle: Oracle, cls: str) -> List[Dict[str, Any]]:
    ops = []  # type: List[Dict[str, Any]]
    chain = oracle.chain(cls)
    flavour = oracle.plans[chain[-1]].flavour
    members = {}
    acc_owner = {}  # type: Dict[str, Dict[str, str]]
    for c in reversed(chain):
        for m, k in oracle.plans[c].members.items():
            if k == "prop":
                acc_owner[m] = {"get": c, "set": c, "del": c}
                members[m] = (c, "prop")
            elif k == "prop_ext":
                ext = oracle.plans[c].ext[m]
                cur = dict(acc_owner.get(m, {}))
                if ext in ("setter", "both"):
                    cur["set"] = c
                if ext in ("deleter", "both"):
                    cur["del"] = c
                acc_owner[m] = cur
                members[m] = (c, "prop")
            else:
                members[m] = (c, k)
    for name, (owner, kind) in members.items():
        if kind == "prop":
            own = acc_owner[name]
            ops.append({"op": "pget", "name": name, "owner": own["get"]})
            ops.append({"op": "pget_direct", "name": name, "owner": own["get"]})
            ops.append({"op": "pset_direct", "name": name, "owner": own["set"]})
            ops.append({"op": "pdel_direct", "name": name, "owner": own["del"]})
            if flavour != "frozen":
                ops.append({"op": "pset", "name": name, "owner": own["set"]})
                ops.append({"op": "pdel", "name": name, "owner": own["del"]})
        elif kind in ("static", "class"):
            ops.append({"op": "call", "name": name, "owner": owner, "kind": kind})
        else:
            ops.append({"op": "call", "name": name, "owner": owner, "kind": "method"})
    if flavour not in ("frozen", "namedtuple"):
        ops.append({"op": "setattr", "name": "a" if flavour != "own-new" else "a"})
    return ops


def perform_op(inst: Any, cls_obj: Any, op: Dict[str, Any]) -> Tuple[bool, Any]:
    name = op["name"]
    try:
        if op["op"] == "pget":
            return True, getattr(inst, name)
        if op["op"] == "pget_direct":
            return True, getattr(type(inst), name).fget(inst)
        if op["op"] == "pset_direct":
            return True, getattr(type(inst), name).fset(inst, 6)
        if op["op"] == "pdel_direct":
            return True, getattr(type(inst), name).fdel(inst)
        if op["op"] == "pset":
            setattr(inst, name, 5)
            return True, None
        if op["op"] == "pdel":
            delattr(inst, name)
            return True, None
        if op["op"] == "setattr":
            setattr(inst, name, 11)
            return True, None
        if name == "__call__":
            return True, inst()
        if name == "__len__":
            return True, len(inst)
        if name == "__eq__":
            return True, inst == inst
        if name == "__repr__":
            return True, repr(inst)
        if name == "__getattr__":
            return True, inst.some_missing_attribute
        if name == "__getattribute__":
            return True, inst.watched
        if name == "__setattr__":
            setattr(inst, "b", 12)
            return True, None
        if name == "__priv":
            return True, getattr(inst, "_{}__priv".format(op["owner"]))()
        res = getattr(inst, name)()
        if inspect.iscoroutine(res):
            res = probe.drive(res)
        return True, res
    except BaseException as err:  # pylint: disable=broad-except
        return False, err


def selected_set(oracle: Oracle, cls: str, op: Dict[str, Any]) -> Tuple[List[Dict[str, Any]], str]:
    """Which invariants must run around the operation, per the statement. Returns (set, reason)."""
    name = op["name"]
    if op["op"] == "setattr" or name == "__setattr__":
        return oracle.invs_on(cls, "SETATTR"), "attribute assignment"
    if op["op"] == "pset":
        s = oracle.invs_on(cls, "SETATTR")
        if s:
            return s, "attribute assignment to a property"
        return oracle.invs_on(cls, "CALL"), "property setter"
    if op["op"] == "pdel":
        # deleting goes through object.__delattr__ (a C slot wrapper, silent zone) and then the deleter (property accessor)
        return oracle.invs_on(cls, "CALL"), "property deleter"
    if op["op"] in ("pget", "pget_direct", "pset_direct", "pdel_direct"):
        return oracle.invs_on(cls, "CALL"), "property accessor"
    if op.get("kind") in ("static", "class"):
        return [], "static/class method"
    if name in ("__repr__", "__getattribute__"):
        return [], "exempt dunder"
    if not is_public(name):
        return [], "non-public method"
    return oracle.invs_on(cls, "CALL"), "public/dunder method"


def classify(oracle: Oracle, cls: str, what: str, op: Optional[Dict[str, Any]], got_none: bool = False) -> str:
    chain = oracle.chain(cls)
    if what in ("invariant-evaluated-during-construction", "construction-raised", "invariants-after-construction-differ"):
        # mechanism 1: a class that carries invariants (own or inherited) but has no Python-level constructor anywhere
        # above it gets its __new__ wrapped; a descendant then adds an __init__
        for i, c in enumerate(chain):
            if oracle.plans[c].has_init and any(oracle.invs(a) and not oracle.has_init(a) for a in chain[i + 1:]):
                return "C03/new-wrapper-inherited-by-subclass-with-init"
        # mechanism 2: a constructor calls the constructor of its base class
        nested = any(oracle.plans[c].has_init and oracle.plans[c].super_pos is not None and oracle.plans[c].base is not None and
                     oracle.has_init(oracle.plans[c].base) for c in chain)
        if nested and oracle.invs(cls):
            return "C03/nested-ctor-checks-unfinished-object"
    if what == "invariants-around-operation-differ" and op is not None and op.get("owner") and got_none:
        # mechanism: the member is defined by a subclass created through the meta-class and the LAST inherited-or-own
        # invariant does not select the event the member needs, while an earlier one does
        invs = oracle.invs(cls)
        need = "SETATTR" if op["name"] == "__setattr__" else "CALL"
        if invs and invs[-1]["check_on"] not in (need, "ALL") and any(i["check_on"] in (need, "ALL") for i in invs):
            return "C03/wrapping-decided-by-last-invariant-only"
    return "C03/" + what


def judge_construction(w, hub, oracle: Oracle, cls: str, cls_obj: Any, truth: Dict[str, Any], case: Dict[str, Any]) -> Any:
    hub.reset()
    hub.truth = dict(truth)
    nargs = oracle.init_params(cls)
    inst = None
    exc = None
    try:
        inst = cls_obj(*([0] * nargs))
    except BaseException as err:  # pylint: disable=broad-except
        exc = err
    w.count("constructions")
    events = hub.events
    invs = oracle.invs(cls)
    w.count("invariant_evaluations", sum(1 for e in events if e.kind == "inv"))
    w.case(("ctor", case["shape"], tuple(sorted((k, str(v)) for k, v in truth.items()))) if invs else None)
    # (1) nothing is evaluated while the object is under construction
    depth = 0
    during = []
    after = []
    # with a Python-level constructor the object is under construction until the outermost __init__ has returned,
    # i.e. also between __new__ and the start of __init__
    pending_ctor = any(ev.kind == "ctor-enter" for ev in events)
    for ev in events:
        if ev.kind == "ctor-enter":
            depth += 1
            pending_ctor = False
        elif ev.kind == "ctor-exit":
            depth -= 1
        elif ev.kind == "inv":
            if depth > 0 or pending_ctor:
                during.append(ev.id)
            else:
                after.append(ev.id)
    detail = {"events": [repr(e) for e in events], "exception": repr(exc)}
    if during:
        w.violation(classify(oracle, cls, "invariant-evaluated-during-construction", None),
                    "invariants {} were evaluated before the outermost constructor of {} returned".format(during, cls), case, detail)
        return None
    want, failing, _ = expected_inv_sequence(invs, truth, 1)
    if exc is not None and failing is None:
        w.violation(classify(oracle, cls, "construction-raised", None), "constructing {} with all invariants true raised {}: {}".format(
            cls, type(exc).__name__, str(exc)[:200]), case, detail)
        return None
    if after != want:
        w.violation(classify(oracle, cls, "invariants-after-construction-differ", None),
                    "after the constructor of {} returned, invariants {} were evaluated, expected {}".format(cls, after, want), case, detail)
        return None
    if failing is not None:
        if exc is not hub.errinsts.get(failing):
            w.violation("C03/wrong-error-after-construction", "invariant {} is false after construction but the caller got {!r}".format(
                failing, exc), case, detail)
        return None
    return inst


def judge_operation(w, hub, oracle: Oracle, cls: str, cls_obj: Any, inst: Any, op: Dict[str, Any], truth: Dict[str, Any],
                    case: Dict[str, Any]) -> None:
    hub.reset()
    hub.truth = dict(truth)
    target = inst
    ok, res = perform_op(target, cls_obj, op)
    events = hub.events
    sel, reason = selected_set(oracle, cls, op)
    w.count("operations")
    w.count("invariant_evaluations", sum(1 for e in events if e.kind == "inv"))
    if not sel:
        w.count("exempt_operations")
    w.case(("op", case["shape"], op["op"], op["name"], tuple(sorted((k, str(v)) for k, v in truth.items()))) if oracle.invs(cls) else None)
    got = [e.id for e in events if e.kind == "inv"]
    want, failing, phase = expected_inv_sequence(sel, truth, 2)
    case = dict(case, op=op, truth=truth)
    detail = {"events": [repr(e) for e in events], "outcome": repr(res), "selected": [i["id"] for i in sel], "reason": reason}
    bodies = [e.id for e in events if e.kind == "body"]
    own_body = "{}_{}".format(op.get("owner"), op["name"]) if op["op"] == "call" else None
    if op["op"] in ("pget", "pset", "pdel", "pget_direct", "pset_direct", "pdel_direct"):
        own_body = "{}_{}_{}".format(op["owner"], op["name"], op["op"][1:4])
    if got != want:
        # a body that raised ends the operation: evaluations after it are a silent zone
        w.violation(classify(oracle, cls, "invariants-around-operation-differ", op, got_none=not got),
                    "{} {} on {} ({}): invariants evaluated {}, expected {}".format(op["op"], op["name"], cls, reason, got, want), case, detail)
        return
    if failing is not None:
        if phase == 0:
            w.count("ops_with_falsy_before")
            if own_body is not None and own_body in bodies:
                w.violation(classify(oracle, cls, "body-ran-although-invariant-failed-before", op),
                            "invariant {} failed before {} but the body ran".format(failing, op["name"]), case, detail)
        if ok or res is not hub.errinsts.get(failing):
            w.violation("C03/wrong-error-for-failed-invariant", "invariant {} is false ({}) but the caller got {!r}".format(
                failing, "before" if phase == 0 else "after", res), case, detail)
    else:
        if not ok:
            w.violation("C03/operation-raised-with-true-invariants", "{} {} raised {!r}".format(op["op"], op["name"], res), case, detail)
        elif own_body is not None and own_body not in bodies:
            w.violation("C03/body-did-not-run", "{} {}: body {} did not run".format(op["op"], op["name"], own_body), case, detail)


def truth_sequences(rng, invs: List[Dict[str, Any]], n: int) -> List[Dict[str, Any]]:
    ids = [i["id"] for i in invs]
    out = [{}]  # type: List[Dict[str, Any]]
    for iid in ids:
        out.append({iid: {"seq": [["F", rng.randrange(11)]]}})  # false before
        out.append({iid: {"seq": [["T", rng.randrange(11)], ["F", rng.randrange(11)]]}})  # flips between before and after
    while len(out) < n and ids:
        t = {}
        for iid in ids:
            r = rng.random()
            if r < 0.25:
                t[iid] = {"seq": [["T", 1], ["F", rng.randrange(11)]]}
            elif r < 0.4:
                t[iid] = {"seq": [["F", rng.randrange(11)]]}
        out.append(t)
    return out[:max(n, 1 + 2 * len(ids))]


def run_program(w, src: str, plans: Dict[str, ClassPlan], order: List[str], shape: str) -> None:
    rng = w.rng
    oracle = Oracle(plans)
    try:
        loaded = prog.load_source(src, w.scratch())
    except BaseException as err:  # pylint: disable=broad-except
        w.violation("C03/definition-failed", "defining the classes raised {}: {}".format(type(err).__name__, str(err)[:300]),
                    {"source": src, "shape": shape})
        return
    hub = loaded.hub
    try:
        for cls in order:
            cls_obj = getattr(loaded.module, cls)
            case = {"source": src, "shape": shape, "cls": cls, "plans": plans_to_json(plans)}
            invs = oracle.invs(cls)
            for truth in truth_sequences(rng, invs, 4):
                # construction under this truth (single evaluation of each invariant)
                t1 = {k: (v["seq"][0] if isinstance(v, dict) else v) for k, v in truth.items()}
                judge_construction(w, hub, oracle, cls, cls_obj, t1, case)
            ops = operations(oracle, cls)
            for op in ops:
                sel, _ = selected_set(oracle, cls, op)
                for truth in truth_sequences(rng, sel if sel else invs[:1], 3 if w.tier == "quick" else 6):
                    inst = judge_construction(w, hub, oracle, cls, cls_obj, {}, case)
                    if inst is None:
                        break
                    judge_operation(w, hub, oracle, cls, cls_obj, inst, op, truth, case)
            if w.counters.get("evaluations", 0) % 40 < 3:
                w.sample({"class": cls, "shape": shape, "invariants": [(i["id"], i["check_on"]) for i in invs],
                          "operations": [o["op"] + ":" + o["name"] for o in ops][:8]})
    finally:
        loaded.unload()


FACTORY_SOURCE = '''
import icontract


@icontract.invariant(lambda self: HUB.inv("shape", self))
class Shape{base}:
    """No __init__ of its own (its __new__ gets wrapped); __new__ is a factory that may return a subclass instance."""

    def __new__(cls, kind="plain", radius=0):
        target = cls
        if cls is Shape and kind == "circle":
            target = Circle
        elif cls is Shape and kind == "square":
            target = Square
        return object.__new__(target)

    def area(self):
        return HUB.body("area", {{"self": self}})


{deco}
class Circle(Shape):
    def __init__(self, kind="circle", radius=1):
        HUB.log("init-enter", "Circle", {{"self": self}})
        self.radius = radius
        HUB.log("init-exit", "Circle", {{"self": self}})


class Square(Shape):
    """A subclass without __init__: complete as soon as __new__ returns."""
'''


NESTED_NEW_SOURCE = '''
import icontract


@icontract.invariant(lambda self: HUB.inv("base", self))
class NB(icontract.DBC):
    """Constructed by __new__ only (no __init__ anywhere in the hierarchy)."""

    def __new__(cls, x=0):
        HUB.log("new-enter", "NB", None)
        obj = super().__new__(cls)
        obj.x = x
        HUB.log("new-exit", "NB", None)
        return obj


@icontract.invariant(lambda self: HUB.inv("derived", self) and self.y >= 0)
class ND(NB):
    def __new__(cls, x=0, y=1):
        HUB.log("new-enter", "ND", None)
        obj = super().__new__(cls, x)
        obj.y = y
        HUB.log("new-exit", "ND", None)
        return obj


class NE(ND):
    def __new__(cls, x=0, y=1, z=2):
        HUB.log("new-enter", "NE", None)
        obj = super().__new__(cls, x, y)
        obj.z = z
        HUB.log("new-exit", "NE", None)
        return obj
'''


def run_nested_new(w) -> None:
    """__new__ of a derived class calling super().__new__(): only the outermost __new__ hands over a finished object."""
    loaded = prog.load_source(NESTED_NEW_SOURCE, w.scratch())
    mod, hub = loaded.module, loaded.hub
    try:
        for cname, want_invs in (("NB", ["base"]), ("ND", ["base", "derived"]), ("NE", ["base", "derived"])):
            hub.reset()
            case = {"nested_new": cname}
            w.count("constructions")
            w.count("nested_new_constructions")
            w.case(("nested-new", cname))
            try:
                obj = getattr(mod, cname)()
                outcome = type(obj).__name__
            except BaseException as err:  # pylint: disable=broad-except
                outcome = "raise {}: {}".format(type(err).__name__, str(err)[:120])
            kinds = [(e.kind, e.id) for e in hub.events]
            last_exit = max([i for i, k in enumerate(kinds) if k == ("new-exit", cname)], default=None)
            early = [i2 for k, i2 in (kinds[:last_exit] if last_exit is not None else kinds) if k == "inv"]
            if early:
                w.violation("C03/invariant-evaluated-inside-nested-new", "{}(): invariants {} were evaluated before the outermost __new__ had "
                            "returned (events {}; outcome {})".format(cname, early, kinds, outcome), case)
                continue
            if outcome != cname:
                w.violation("C03/construction-through-nested-new-fails", "{}(): {}; events {}".format(cname, outcome, kinds), case)
                continue
            invs = [i2 for k, i2 in kinds if k == "inv"]
            if invs != want_invs:
                w.violation("C03/invariants-after-construction-differ", "{}(): after the construction the invariants {} were evaluated, expected {}".format(
                    cname, invs, want_invs), case)
    finally:
        loaded.unload()


SIBLING_NEW_SOURCE = '''
import icontract


@icontract.invariant(lambda self: HUB.inv("pos:" + repr(tuple(self)), self) and self[0] > 0)
class Pos(tuple):
    """An immutable value constructed by __new__ alone; the construction may build further values of the same class."""

    def __new__(cls, x, sibling=None):
        if sibling is not None:
            SIBLINGS.append(("built", Pos(sibling)))
        return super().__new__(cls, (x,))


@icontract.invariant(lambda self: HUB.inv("node:" + str(self.v), self) and self.v > 0)
class Node(icontract.DBC):
    def __new__(cls, v, child=None):
        self = super().__new__(cls)
        self.v = v
        self.child = None if child is None else cls(child)
        return self


class Leaf(Node):
    def __new__(cls, v, child=None, extra=None):
        self = super().__new__(cls, v, child)
        self.extra = None if extra is None else Leaf(extra)
        return self


SIBLINGS = []
'''


def run_sibling_new(w) -> None:
    """A __new__ that constructs ANOTHER object of the same class on its way: that object is a constructed object of its own and
    must satisfy the invariants when its construction ends, whatever construction is in flight around it."""
    import icontract  # pylint: disable=import-outside-toplevel

    loaded = prog.load_source(SIBLING_NEW_SOURCE, w.scratch())
    mod, hub = loaded.module, loaded.hub
    try:
        for tag, make, want in (
                ("tuple-valid-sibling", lambda: mod.Pos(1, sibling=5), "returned"), ("tuple-invalid-sibling", lambda: mod.Pos(1, sibling=-5), "violation"),
                ("tuple-invalid-alone", lambda: mod.Pos(-5), "violation"),
                ("dbc-valid-child", lambda: mod.Node(1, child=2), "returned"), ("dbc-invalid-child", lambda: mod.Node(1, child=-2), "violation"),
                ("derived-invalid-child-built-by-base", lambda: mod.Leaf(1, child=-2), "violation"),
                ("derived-invalid-extra-built-by-derived", lambda: mod.Leaf(1, extra=-3), "violation"),
                ("derived-valid", lambda: mod.Leaf(1, child=2, extra=3), "returned")):
            hub.reset()
            del mod.SIBLINGS[:]
            w.count("constructions")
            w.count("sibling_new_constructions")
            w.case(("sibling-new", tag))
            try:
                make()
                outcome = "returned"
            except icontract.ViolationError:
                outcome = "violation"
            except BaseException as err:  # pylint: disable=broad-except
                outcome = "raise {}: {}".format(type(err).__name__, str(err)[:120])
            invs = [e.id for e in hub.events if e.kind == "inv"]
            if outcome != want:
                w.violation("C03/object-built-inside-new-of-its-own-class-not-checked" if outcome == "returned" else "C03/construction-with-sibling-fails",
                            "{}: {} (expected {}); invariant evaluations {}".format(tag, outcome, want, invs), {"sibling_new": tag})
    finally:
        loaded.unload()


ALIASED_SOURCE = '''
import icontract


def _guarded(self, name, value):
    object.__setattr__(self, name, value)


def _measure(self):
    return abs(self.x)


@icontract.invariant(lambda self: HUB.inv("on_setattr", self) and self.x > 0, check_on=icontract.InvariantCheckEvent.SETATTR)
class OnSetattr{base}:
    __setattr__ = _guarded  # a function defined elsewhere, under another name

    def __init__(self):
        object.__setattr__(self, "x", 1)

    def get(self):
        return self.x


@icontract.invariant(lambda self: HUB.inv("on_call", self) and self.x > 0)
class OnCall{base}:
    __len__ = _measure  # likewise for the other special methods

    def __init__(self):
        self.x = 1

    size = _measure
'''


def run_aliased_members(w) -> None:
    """Special methods bound to functions that were defined under another name: the event they stand for decides which invariants
    surround them, not the name the function happens to carry."""
    import icontract  # pylint: disable=import-outside-toplevel

    for base in ("", "(icontract.DBC)"):
        loaded = prog.load_source(ALIASED_SOURCE.replace("{base}", base), w.scratch())
        mod, hub = loaded.module, loaded.hub
        try:
            for tag, setup, op, want, want_invs in (
                    ("setattr-alias-violating", lambda: mod.OnSetattr(), lambda o: setattr(o, "x", -1), "violation", None),
                    ("setattr-alias-fine", lambda: mod.OnSetattr(), lambda o: setattr(o, "x", 5), "returned", ["on_setattr", "on_setattr"]),
                    ("method-of-setattr-only-class", lambda: mod.OnSetattr(), lambda o: o.get(), "returned", []),
                    ("len-alias-on-broken-object", lambda: mod.OnCall(), lambda o: (o.__dict__.__setitem__("x", -2), len(o)), "violation", None),
                    ("len-alias-fine", lambda: mod.OnCall(), len, "returned", ["on_call", "on_call"]),
                    ("method-alias-fine", lambda: mod.OnCall(), lambda o: o.size(), "returned", ["on_call", "on_call"])):
                obj = setup()
                hub.reset()
                try:
                    op(obj)
                    outcome = "returned"
                except icontract.ViolationError:
                    outcome = "violation"
                except BaseException as err:  # pylint: disable=broad-except
                    outcome = "raise {}: {}".format(type(err).__name__, str(err)[:120])
                invs = [e.id for e in hub.events if e.kind == "inv"]
                w.count("operations")
                w.count("aliased_member_operations")
                w.case(("aliased-member", tag, base))
                if outcome != want or (want_invs is not None and invs != want_invs):
                    w.violation("C03/member-bound-under-another-name-surrounded-by-wrong-invariants", "{} ({}): {} with invariant evaluations {} "
                                "(expected {}{})".format(tag, base or "plain class", outcome, invs, want,
                                                       "" if want_invs is None else " with " + str(want_invs)), {"aliased": tag, "base": base})
        finally:
            loaded.unload()


SETSTATE_SOURCE = '''
import icontract


@icontract.invariant(lambda self: HUB.inv("positive:" + str(self.__dict__.get("x", "blank")), self) and self.x > 0)
class Stateful{base}:
    def __init__(self, x):
        self.x = x

    def __getstate__(self):
        return {{"x": self.x}}

    def __setstate__(self, state):
        HUB.body("setstate", {{"state": state}})
        self.x = state["x"]
'''


def run_setstate(w) -> None:
    """copy / pickle build a blank object and hand the state over with __setstate__: the object is under construction until
    __setstate__ returns - no invariant before it, all of them right after it."""
    import copy  # pylint: disable=import-outside-toplevel
    import pickle  # pylint: disable=import-outside-toplevel

    import icontract  # pylint: disable=import-outside-toplevel

    for base in ("", "(icontract.DBC)"):
        loaded = prog.load_source(SETSTATE_SOURCE.format(base=base), w.scratch())
        mod, hub = loaded.module, loaded.hub
        try:
            original = mod.Stateful(3)
            for tag, op, want, want_events in (
                    ("copy", lambda: copy.copy(original), "returned", [("body", "setstate"), ("inv", "positive:3")]),
                    ("deepcopy", lambda: copy.deepcopy(original), "returned", [("body", "setstate"), ("inv", "positive:3")]),
                    ("pickle", lambda: pickle.loads(pickle.dumps(original)), "returned", [("body", "setstate"), ("inv", "positive:3")]),
                    ("invalid-state", lambda: mod.Stateful.__new__(mod.Stateful).__setstate__({"x": -4}), "violation", None)):
                hub.reset()
                try:
                    op()
                    outcome = "returned"
                except icontract.ViolationError:
                    outcome = "violation"
                except BaseException as err:  # pylint: disable=broad-except
                    outcome = "raise {}: {}".format(type(err).__name__, str(err)[:120])
                # (__getstate__ of the original is an ordinary public operation on a finished object; only what follows it is judged)
                evs = [(e.kind, e.id) for e in hub.events]
                if ("body", "setstate") in evs:
                    evs = evs[evs.index(("body", "setstate")):]
                before = [e for e in [(e.kind, e.id) for e in hub.events] if e[0] == "inv" and e[1] == "positive:blank"]
                w.count("operations")
                w.count("setstate_operations")
                w.case(("setstate", tag, base))
                if outcome != want or before or (want_events is not None and evs != want_events):
                    w.violation("C03/invariant-evaluated-on-blank-object-before-setstate", "{} ({}): {}; invariants evaluated on the blank object: {}; "
                                "events from __setstate__ on: {} (expected {} with {})".format(tag, base or "plain class", outcome, before, evs, want, want_events),
                                {"setstate": tag, "base": base})
        finally:
            loaded.unload()


FAILED_INIT_SOURCE = '''
import icontract


@icontract.invariant(lambda self: HUB.inv("positive", self) and self.x > 0)
class Account{base}:
    def __init__(self, x, fail=None):
        self.x = x
        if fail is not None:
            raise fail

    def __setstate__(self, state):
        self.x = state["x"]
        if state.get("fail") is not None:
            raise state["fail"]

    def withdraw(self, amount):
        self.x -= amount
        return self.x
'''


def run_failed_construction(w) -> None:
    """A constructor (or __setstate__) whose body raises: the very same object initialised again, and the objects constructed
    afterwards (which often get the address of the abandoned one), are checked like any other."""
    import icontract  # pylint: disable=import-outside-toplevel

    for base in ("", "(icontract.DBC)"):
        loaded = prog.load_source(FAILED_INIT_SOURCE.format(base=base), w.scratch())
        mod, hub = loaded.module, loaded.hub
        try:
            for how in ("init", "setstate"):
                obj = mod.Account.__new__(mod.Account)
                try:
                    if how == "init":
                        obj.__init__(1, fail=ValueError("body failed"))
                    else:
                        obj.__setstate__({"x": 1, "fail": ValueError("body failed")})
                except ValueError:
                    pass
                for tag, op, want in (
                        ("same-object-initialised-again-invalid", lambda: obj.__init__(-5), "violation"),
                        ("same-object-initialised-again-valid", lambda: obj.__init__(5), "returned"),
                        ("method-on-that-object-breaking-the-invariant", lambda: obj.withdraw(100), "violation"),
                        ("fresh-objects-invalid", lambda: [mod.Account(-1) for _ in range(1)], "violation"),
                        ("fresh-objects-valid-then-broken", lambda: [mod.Account(10).withdraw(100) for _ in range(1)], "violation")):
                    hub.reset()
                    try:
                        op()
                        outcome = "returned"
                    except icontract.ViolationError:
                        outcome = "violation"
                    except BaseException as err:  # pylint: disable=broad-except
                        outcome = "raise {}: {}".format(type(err).__name__, str(err)[:120])
                    w.count("operations")
                    w.count("failed_construction_followups")
                    w.case(("failed-construction", how, tag, base))
                    if outcome != want:
                        w.violation("C03/object-unchecked-after-a-constructor-body-raised", "after {} raised in its body ({}): {} {} (expected {}); invariant "
                                    "evaluations {}".format("__init__" if how == "init" else "__setstate__", base or "plain class", tag, outcome, want,
                                                            [e.id for e in hub.events if e.kind == "inv"]), {"failed_construction": how, "base": base})
        finally:
            loaded.unload()


SHARED_DECORATOR_SOURCE = '''
import icontract


def positive(self):
    return HUB.inv("positive:" + type(self).__name__, self) and self.x > 0


checked = icontract.invariant(positive)


@checked
class Base{base}:
    def __init__(self, x=1):
        self.x = x

    def get(self):
        return self.x


@checked
class Derived(Base):
    """Decorated with the very same decorator object as its base; defines a constructor and members of its own."""

    def __init__(self, x=1, shift=0):
        super().__init__(1)
        self.x = x + shift

    def spoil(self):
        self.x = -1

    @property
    def doubled(self):
        return self.x * 2
'''


def run_shared_decorator(w) -> None:
    """One invariant decorator object applied to a class and again to its sub-class: the sub-class's own constructor and members are
    wrapped like those of any decorated class (the invariant itself is listed once)."""
    import icontract  # pylint: disable=import-outside-toplevel

    for base in ("", "(icontract.DBC)"):
        loaded = prog.load_source(SHARED_DECORATOR_SOURCE.format(base=base), w.scratch())
        mod, hub = loaded.module, loaded.hub
        try:
            for tag, op, want in (
                    ("derived-constructor-breaks-it-after-super", lambda: mod.Derived(1, shift=-5), "violation"),
                    ("derived-constructor-fine", lambda: mod.Derived(2, shift=1), "returned"),
                    ("own-method-breaks-it", lambda: mod.Derived(2).spoil(), "violation"),
                    ("own-property-on-broken-object", lambda: (lambda d: (d.__dict__.__setitem__("x", -3), d.doubled))(mod.Derived(2)), "violation"),
                    ("inherited-method-on-broken-object", lambda: (lambda d: (d.__dict__.__setitem__("x", -3), d.get()))(mod.Derived(2)), "violation"),
                    ("base-unaffected", lambda: mod.Base(3).get(), "returned")):
                hub.reset()
                try:
                    op()
                    outcome = "returned"
                except icontract.ViolationError:
                    outcome = "violation"
                except BaseException as err:  # pylint: disable=broad-except
                    outcome = "raise {}: {}".format(type(err).__name__, str(err)[:120])
                invs = [e.id for e in hub.events if e.kind == "inv"]
                w.count("operations")
                w.count("shared_decorator_operations")
                w.case(("shared-decorator", tag, base))
                if outcome != want:
                    w.violation("C03/members-of-a-class-decorated-with-a-shared-decorator-object-unchecked", "{} ({}): {} (expected {}); invariant "
                                "evaluations {}".format(tag, base or "plain classes", outcome, want, invs), {"shared_decorator": tag, "base": base})
        finally:
            loaded.unload()


def run_factory_new(w) -> None:
    """__new__ of a class without __init__ acting as a factory for its subclasses (which may have constructors)."""
    # (only on the contract-inheriting base: invariants on plain subclasses of invariant-carrying classes are a silent zone)
    for base, deco in (("(icontract.DBC)", '@icontract.invariant(lambda self: HUB.inv("circle", self) and self.radius > 0)'),):
        loaded = prog.load_source(FACTORY_SOURCE.format(base=base, deco=deco), w.scratch())
        mod, hub = loaded.module, loaded.hub
        try:
            for tag, make, want_cls, want_invs in (
                    ("factory-returns-subclass-with-init", lambda: mod.Shape("circle", 2), "Circle", ["shape", "circle"]),
                    ("subclass-constructed-directly", lambda: mod.Circle("circle", 3), "Circle", ["shape", "circle"]),
                    ("factory-returns-subclass-without-init", lambda: mod.Shape("square"), "Square", ["shape"]),
                    ("plain-instance", lambda: mod.Shape(), "Shape", ["shape"])):
                hub.reset()
                case = {"factory_new": tag, "base": base}
                w.count("constructions")
                w.count("factory_new_constructions")
                w.case(("factory-new", tag, base))
                try:
                    obj = make()
                    outcome = type(obj).__name__
                except BaseException as err:  # pylint: disable=broad-except
                    outcome = "raise {}: {}".format(type(err).__name__, str(err)[:120])
                kinds = [(e.kind, e.id) for e in hub.events]
                if outcome != want_cls:
                    w.violation("C03/construction-through-factory-new-fails", "{}: expected an instance of {}, got {}; events {}".format(
                        tag, want_cls, outcome, kinds), case)
                    continue
                invs = [i for k, i in kinds if k == "inv"]
                if ("init-exit", "Circle") in kinds:
                    pos = kinds.index(("init-exit", "Circle"))
                    early = [i for k, i in kinds[:pos] if k == "inv"]
                    if early:
                        w.violation("C03/invariant-evaluated-during-construction", "{}: invariants {} were evaluated before __init__ of the returned "
                                    "object had finished".format(tag, early), case)
                        continue
                if invs != want_invs:
                    w.violation("C03/invariants-after-construction-differ", "{}: after the construction the invariants {} were evaluated, expected {}".format(
                        tag, invs, want_invs), case)
        finally:
            loaded.unload()


BUILTIN_BASES_SOURCE = '''
import collections
import icontract


def well_formed(self):
    HUB.inv("inv:" + type(self).__name__, self)
    return len(self.args if isinstance(self, BaseException) else self) > 0


@icontract.invariant(well_formed)
class NonEmptyList(list{base}):
    def first(self):
        HUB.body("first", {{}})
        return self[0]


@icontract.invariant(well_formed)
class NonEmptyDict(dict{base}):
    def first(self):
        HUB.body("first", {{}})
        return sorted(self)[0]


@icontract.invariant(well_formed)
class NonEmptySet(set{base}):
    def first(self):
        HUB.body("first", {{}})
        return sorted(self)[0]


@icontract.invariant(well_formed)
class NonEmptyDeque(collections.deque{base}):
    def first(self):
        HUB.body("first", {{}})
        return self[0]


@icontract.invariant(well_formed)
class NonEmptyBytes(bytearray{base}):
    def first(self):
        HUB.body("first", {{}})
        return self[0]


@icontract.invariant(well_formed)
class Reasoned(Exception{base}):
    def first(self):
        HUB.body("first", {{}})
        return self.args[0]


class LongerList(NonEmptyList):
    """Inherits the constructor of the built-in through the class with invariants."""
'''


def run_builtin_bases(w) -> None:
    """Classes with invariants derived from a built-in type which has a constructor slot of its own (list, dict, set, deque,
    bytearray, Exception) and no Python-level __init__: the invariants are evaluated right after the construction - once - and
    around the methods defined in Python."""
    import icontract  # pylint: disable=import-outside-toplevel

    for base in ("", ", icontract.DBC"):
        loaded = prog.load_source(BUILTIN_BASES_SOURCE.format(base=base), w.scratch())
        mod, hub = loaded.module, loaded.hub
        try:
            for cname, good, bad in (("NonEmptyList", ([1, 2],), ([],)), ("NonEmptyDict", ({"k": 1},), ({},)), ("NonEmptySet", ({3},), (set(),)),
                                     ("NonEmptyDeque", ([1],), ([],)), ("NonEmptyBytes", (b"ab",), (b"",)), ("Reasoned", ("why",), ()),
                                     ("LongerList", ([1, 2, 3],), ([],))):
                if cname == "LongerList" and not base:
                    continue  # (a plain sub-class of a class with invariants: contract inheritance needs DBC)
                cls_obj = getattr(mod, cname)
                for tag, args, want_outcome in (("valid", good, "returned"), ("invalid", bad, "violation")):
                    hub.reset()
                    obj = None
                    try:
                        obj = cls_obj(*args)
                        outcome = "returned"
                    except icontract.ViolationError:
                        outcome = "violation"
                    except BaseException as err:  # pylint: disable=broad-except
                        outcome = "raised {}: {}".format(type(err).__name__, str(err)[:100])
                    invs = [e.id for e in hub.events if e.kind == "inv"]
                    w.count("constructions")
                    w.count("builtin_base_constructions")
                    w.case(("builtin-base", cname, base, tag))
                    case = {"builtin_base": cname, "dbc": bool(base), "input": tag}
                    if outcome != want_outcome or invs != ["inv:" + cname]:
                        w.violation("C03/invariants-after-construction-differ", "{}({}) [{}]: {} with invariant evaluations {} (expected {} with "
                                    "exactly one evaluation right after the constructor of the built-in returned)".format(
                                        cname, ", ".join(map(repr, args)), "DBC" if base else "decorator only", outcome, invs, want_outcome), case)
                        continue
                    if obj is not None:
                        hub.reset()
                        obj.first()
                        kinds = [e.kind for e in hub.events]
                        w.count("operations")
                        if kinds != ["inv", "body", "inv"]:
                            w.violation("C03/invariants-around-operation-differ", "{}.first(): events {} (expected inv, body, inv)".format(cname, kinds), case)
        finally:
            loaded.unload()


def run(w) -> None:
    rng = w.rng
    if w.shard == 1 % w.nshards:
        run_builtin_bases(w)
    if w.shard == 0:
        run_factory_new(w)
        run_nested_new(w)
        run_sibling_new(w)
        run_aliased_members(w)
        run_setstate(w)
        run_failed_construction(w)
        run_shared_decorator(w)
    n = 12000 if w.tier == "thorough" else 1200
    flavours = ["plain", "plain", "plain", "slots", "dataclass", "frozen", "own-new", "namedtuple"]
    for i in range(n):
        if i % w.nshards != w.shard:
            continue
        ids = gen.Ids()
        depth = rng.choice((1, 2, 2, 3))
        dbc = rng.random() < 0.8
        flavour = rng.choice(flavours)
        if flavour == "namedtuple":
            dbc = False
        if not dbc or flavour == "frozen":
            # subclasses of invariant-carrying classes that are not built on DBC are documented as undefined behaviour;
            # subclasses of frozen dataclasses cannot assign in their constructors
            depth = 1
        src, plans, order = make_program(rng, ids, depth, dbc, flavour)
        w.count("programs")
        run_program(w, src, plans, order, "{}/{}/{}".format(depth, "dbc" if dbc else "plain", flavour))
    w.exhaustive = False


def replay(case, w) -> None:
    if "builtin_base" in case:
        run_builtin_bases(w)
        return
    if "factory_new" in case:
        run_factory_new(w)
        return
    if "nested_new" in case:
        run_nested_new(w)
        return
    if "sibling_new" in case:
        run_sibling_new(w)
        return
    if "aliased" in case:
        run_aliased_members(w)
        return
    if "setstate" in case:
        run_setstate(w)
        return
    if "failed_construction" in case:
        run_failed_construction(w)
        return
    if "shared_decorator" in case:
        run_shared_decorator(w)
        return
    plans = plans_from_json(case["plans"])
    oracle = Oracle(plans)
    loaded = prog.load_source(case["source"], w.scratch())
    try:
        cls = case["cls"]
        cls_obj = getattr(loaded.module, cls)
        base_case = {"source": case["source"], "shape": case["shape"], "cls": cls, "plans": case["plans"]}
        if "op" in case:
            inst = judge_construction(w, loaded.hub, oracle, cls, cls_obj, {}, base_case)
            if inst is not None:
                judge_operation(w, loaded.hub, oracle, cls, cls_obj, inst, case["op"], case.get("truth", {}), base_case)
        else:
            for truth in ({},) + tuple({i["id"]: ["F", 0]} for i in oracle.invs(cls)):
                judge_construction(w, loaded.hub, oracle, cls, cls_obj, truth, base_case)
    finally:
        loaded.unload()
