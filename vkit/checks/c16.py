"""C16 — deterministic evaluation order and first-failure reporting (exact trace comparison against the model)."""
import inspect
from typing import Any, Dict, List

from vkit import gen, probe, prog, runner
from vkit.model import Model

ID = "C16"
LEVEL = "exploration"
SHARDS = {"quick": 4, "thorough": 16}
TIMEOUT = {"quick": 240, "thorough": 3000}
DECIDING = ["events", "cases_with_two_or_more_falsy"]
RULE = (
    "programs: inheritance DAGs (all shapes over <=3 classes, sampled 4-class shapes incl. diamonds) x member kind "
    "(method, static, class, property accessors, __init__, plain function stacks) x sync/async x per class {absent, "
    "plain, pre, post, both} with 1..2 (thorough 1..3) stacked conditions and snapshots, CALL invariants on random classes; "
    "truth assignments: all (cap 48/128) incl. those with several simultaneously falsy contracts, invariants may flip between "
    "their before and after evaluation. Oracle: the model's exact event sequence (phases, inherited before own, stacked "
    "innermost first, group short-circuit, first-failure error identity; lambda conditions re-evaluated exactly once when "
    "violated); a contract that reaches a function along several paths (diamonds) counts once. Non-trivial = at least two contracts falsy simultaneously; "
    "distinct = distinct (shape, kind, async, class called, truth vector)."
    ' Fixed scenarios: constructor chain; a class created anew from its own namespace (type(cls)(...), dataclass(sl'
    'ots=True)) and decorator objects shared by base and sub-class (ensure, invariant) - every contract once per ch'
    'eck, inherited before own.'
)
ASSUMPTIONS = ["reference model encodes the order rules of the statement", "generator stays out of the C04 accept-all corner (mixed bases)"]


def hierarchies(w):
    rng = w.rng
    thorough = w.tier == "thorough"
    shapes = gen.dag_shapes(1) + gen.dag_shapes(2) + gen.dag_shapes(3)
    shapes4 = gen.dag_shapes(4)
    kinds = ["method", "static", "class", "pget", "pset", "pdel", "init", "method", "new"]
    # (the plan - which programs exist, in which order - comes from a stream that is the same in every shard, so that the running
    # index means the same program everywhere; only the content of a program comes from the shard's own stream)
    plan = __import__("random").Random("C16-plan/{}/{}".format(w.tier, getattr(w, "seed", 0)))
    rounds = 40 if thorough else 4
    idx = 0
    for rnd in range(rounds):
        extra = plan.sample(shapes4, 40 if thorough else 12)
        for shape in shapes + extra:
            for kind in (kinds if len(shape) <= 3 else plan.sample(kinds, 3)):
                for is_async in ((False, True) if kind in ("method", "static", "class") else (False,)):
                    idx += 1
                    if idx % w.nshards != w.shard:
                        continue
                    ids = gen.Ids()
                    spec = gen.hier_program(ids, rng, shape, kind, is_async, inv_prob=0.35, max_conj=3 if thorough else 2,
                                            avoid_mixed=True)
                    yield shape, kind, is_async, spec


def function_stacks(w):
    """Plain functions with stacked decorators (no classes): the order of stacked decorators."""
    rng = w.rng
    for rnd in range(60 if w.tier == "thorough" else 6):
        if rnd % w.nshards != w.shard % max(1, min(w.nshards, 2)):
            continue
        ids = gen.Ids()
        funcs = []
        for is_async in (False, True):
            for n_pre in range(0, 4):
                for n_post in range(0, 4):
                    n_snap = rng.randint(0, 2) if n_post else 0
                    funcs.append(gen.make_member(ids, rng, "function", ids.new("f"), is_async, n_pre, n_post, n_snap))
        yield {"funcs": funcs, "classes": []}


def classify(d: runner.Discrepancy, exp, obs) -> str:
    if d.kind == "events":
        ea, oa = d.info.get("expected_at"), d.info.get("observed_at")
        if ea is not None and oa is not None and ea[0] == oa[0] and ea[0] in ("cond", "inv", "snap"):
            return "C16/order-differs"
        if ea is None:
            return "C16/evaluated-after-first-failure-or-extra-evaluation"
        if oa is None:
            return "C16/evaluation-missing"
        return "C16/phase-order-differs"
    if d.kind == "error-identity":
        return "C16/wrong-contract-reported"
    return "C16/" + d.kind


def judge(w, loaded, model, contracts, call, meta) -> None:
    exp, obs, discs = runner.run_case(loaded, model, contracts, call, check_identity=False)
    keys = obs.keys()
    w.count("events", len(keys))
    truth = call.get("truth", {})
    n_falsy = sum(1 for v in truth.values() if (isinstance(v, list) and v[0] == "F") or (isinstance(v, dict) and any(x[0] == "F" for x in v["seq"])))
    nontrivial = None
    if n_falsy >= 2:
        w.count("cases_with_two_or_more_falsy")
        nontrivial = (meta, tuple(sorted((k, str(v)) for k, v in truth.items())))
    w.case(nontrivial)
    w.distinct("traces", keys)
    if exp.has_dups:
        w.count("cases_with_diamond_repetition")
    if any(k[0] == "cond" and keys.count(k) > 1 for k in keys):
        w.count("cases_with_lambda_reevaluation_or_repetition")
    case = {"prog": model.prog, "call": call, "meta": meta}
    repeated = None
    if discs:
        # mechanism: a contract inherited along several paths (diamond) is listed - and evaluated - once per path
        required = [e[:2] for e in exp.events if len(e) == 2]
        if runner.dedup([k for k in keys if k[0] != "error"]) == runner.dedup([k for k in required if k[0] != "error"]) and \
                len(keys) > len(runner.dedup(keys)):
            repeated = "C16/contract-inherited-along-several-paths-evaluated-repeatedly"
    for d in discs:
        w.violation(repeated or classify(d, exp, obs), d.what, case, {"expected": repr(exp), "observed": obs.describe()})
    # at-most-once clause (single inheritance path): no condition id more than once, except the documented re-evaluation
    if not exp.has_dups and not discs:
        pass
    if w.counters["evaluations"] % 97 == 1:
        w.sample({"call": call, "meta": meta, "expected": [list(e) for e in exp.events], "outcome": list(exp.outcome),
                  "observed": obs.describe()})


def truth_variants(w, ids: List[str], inv_ids: List[str], cap: int):
    rng = w.rng
    for truth in gen.all_truth(ids, rng, cap):
        # let some invariants flip between before and after
        for iid in sorted(set(inv_ids)):
            if iid in truth and isinstance(truth[iid], list) and rng.random() < 0.3:
                first = truth[iid]
                second = ["T" if first[0] == "F" else "F", rng.randrange(11)]
                truth[iid] = {"seq": [first, second]}
        yield truth


def run_spec(w, spec, meta_base) -> None:
    model = Model(spec)
    contracts = runner.index_contracts(spec)
    loaded = prog.load(spec, w.scratch())
    cap = 128 if w.tier == "thorough" else 48
    try:
        for d in runner.check_definitions(loaded, model):
            w.violation("C16/definition", d.what, {"prog": spec})
        for name, err in loaded.hub.creation_errors.items():
            if name in model.funcs:
                w.violation("C16/definition", "function {} failed to define: {!r}".format(name, err), {"prog": spec})
        for m in spec.get("funcs", []):
            ids = [c["id"] for dk, c in m["decos"] if dk in ("pre", "post")]
            for truth in truth_variants(w, ids, [], cap):
                for body in ({}, {"*": {"raise": "BodyError"}}) if len(ids) <= 2 else ({},):
                    judge(w, loaded, model, contracts, {"target": "func", "name": m["name"], "truth": truth, "body": body},
                          ("func", m["async"], len(ids)))
        kind = spec.get("kind")
        for cls in model.classes:
            if loaded.get(cls) is None:
                continue
            inv_ids = [i["id"] for i in model.eff_invs(cls)]
            if kind in ("init", "new"):
                key = "__init__" if kind == "init" else "__new__"
                o = model.owner(cls, key)
                ids = []
                if o is not None:
                    m = model.defines(o, key)
                    ids = [c["id"] for dk, c in m["decos"] if dk in ("pre", "post")]
                for truth in truth_variants(w, ids + inv_ids, [], cap):
                    judge(w, loaded, model, contracts, {"target": "construct", "cls": cls, "truth": truth}, meta_base + (cls,))
                continue
            key = spec["key"]
            if model.owner(cls, key) is None:
                continue
            ids = gen.effective_ids(model, cls, key)
            for truth in truth_variants(w, ids, inv_ids, cap):
                judge(w, loaded, model, contracts, {"target": "member", "cls": cls, "key": key, "truth": truth}, meta_base + (cls,))
            # construction with invariants (all of them, in order, first failure reported)
            if inv_ids:
                for truth in gen.all_truth(inv_ids, w.rng, 16):
                    judge(w, loaded, model, contracts, {"target": "construct", "cls": cls, "truth": truth}, meta_base + (cls, "ctor"))
    finally:
        loaded.unload()


CTOR_CHAIN_SOURCE = '''
import icontract


@icontract.invariant(lambda self: HUB.inv("root_outer", self))
@icontract.invariant(lambda self: HUB.inv("root_inner", self))
class Root(icontract.DBC):
    """No constructor of its own: its __new__ carries the invariant check."""

    def get(self):
        return HUB.body("Root_get", {"self": self})


@icontract.invariant(lambda self: HUB.inv("mid", self))
class Mid(Root):
    @icontract.require(lambda n: HUB.cond("mid_pre", {"n": n}), error=HUB.errinst("mid_pre"))
    @icontract.ensure(lambda self: HUB.cond("mid_post", {"self": self}), error=HUB.errinst("mid_post"))
    def __init__(self, n=1):
        HUB.body("Mid___init__", {"self": self})
        self.n = n


@icontract.invariant(lambda self: HUB.inv("leaf", self))
class Leaf(Mid):
    """Inherits the constructor."""


class LeafWithInit(Mid):
    def __init__(self, n=2):
        HUB.body("LeafWithInit___init__", {"self": self})
        super().__init__(n)
'''


def run_ctor_chain(w) -> None:
    """Phase order of a construction when the root has no constructor (wrapped __new__) and a class in the middle defines one."""
    loaded = prog.load_source(CTOR_CHAIN_SOURCE, w.scratch())
    mod, hub = loaded.module, loaded.hub
    try:
        want = {
            "Root": [("inv", "root_inner"), ("inv", "root_outer")],
            "Mid": [("cond", "mid_pre"), ("body", "Mid___init__"), ("cond", "mid_post"), ("inv", "root_inner"), ("inv", "root_outer"), ("inv", "mid")],
            "Leaf": [("cond", "mid_pre"), ("body", "Mid___init__"), ("cond", "mid_post"), ("inv", "root_inner"), ("inv", "root_outer"), ("inv", "mid"),
                     ("inv", "leaf")],
            "LeafWithInit": [("body", "LeafWithInit___init__"), ("cond", "mid_pre"), ("body", "Mid___init__"), ("cond", "mid_post"),
                             ("inv", "root_inner"), ("inv", "root_outer"), ("inv", "mid")],
        }
        for cname, expected in want.items():
            for falsy in (None, "root_inner", "mid", "mid_post"):
                if falsy is not None and not any(i == falsy for _k, i in expected):
                    continue
                hub.reset()
                hub.truth = {falsy: False} if falsy else {}
                w.count("calls")
                w.count("ctor_chain_constructions")
                w.case(("ctor-chain", cname, falsy))
                try:
                    getattr(mod, cname)()
                    outcome = "return"
                except BaseException as err:  # pylint: disable=broad-except
                    outcome = "raise " + ("errinst:" + falsy if falsy and err is hub.errinsts.get(falsy) else type(err).__name__)
                got = [(e.kind, e.id) for e in hub.events]
                exp = list(expected)
                if falsy is not None:
                    exp = exp[: exp.index(next(e for e in exp if e[1] == falsy)) + 1]
                w.count("events_compared", len(got))
                if falsy is not None and got == exp + [exp[-1]]:
                    got = got[:-1]  # the documented re-evaluation of the violated lambda for its message
                if got != exp:
                    w.violation("C16/order-differs", "construction of {} ({} falsy): events {} but the phases are {}".format(cname, falsy, got, exp),
                                {"ctor_chain": cname, "falsy": falsy})
                elif falsy is not None and not outcome.startswith("raise"):
                    w.violation("C16/wrong-contract-reported", "construction of {} with {} falsy returned".format(cname, falsy), {"ctor_chain": cname})
    finally:
        loaded.unload()


RECREATED_SOURCE = '''
import dataclasses
import icontract


def mk(kind, ident, value=True):
    def cond(**kwargs):
        getattr(HUB, kind)(ident, kwargs)
        return value
    return cond


def pre_base(x):
    return HUB.cond("pre_base", {"x": x})


def pre_own(x):
    return HUB.cond("pre_own", {"x": x})


def snap_base(x):
    return HUB.capture("snap_base", {"x": x})


def post_base(result, OLD):
    return HUB.cond("post_base", {"result": result})


def post_own(result):
    return HUB.cond("post_own", {"result": result})


def post_shared(result):
    return HUB.cond("post_shared", {"result": result})


shared = icontract.ensure(post_shared)


@icontract.invariant(lambda self: HUB.inv("inv_base", self))
class Base(icontract.DBC):
    @icontract.require(pre_base)
    @icontract.snapshot(snap_base, name="s")
    @icontract.ensure(post_base)
    def f(self, x):
        return HUB.body("Base.f", {"x": x})

    @shared
    def g(self, x):
        return HUB.body("Base.g", {"x": x})


@icontract.invariant(lambda self: HUB.inv("inv_own", self))
class Derived(Base):
    @icontract.require(pre_own)
    @icontract.ensure(post_own)
    def f(self, x):
        return HUB.body("Derived.f", {"x": x})

    @shared
    def g(self, x):
        return HUB.body("Derived.g", {"x": x})


shared_invariant = icontract.invariant(lambda self: HUB.inv("inv_shared", self))


@shared_invariant
class SBase(icontract.DBC):
    def h(self, x):
        return HUB.body("SBase.h", {"x": x})


@shared_invariant
class SDerived(SBase):
    pass


# the class created anew from its own namespace (what dataclasses.dataclass(slots=True), attrs and class decorators which
# rebuild the class do): the functions in the namespace already carry the merged contracts
Rebuilt = type(Derived)(Derived.__name__, Derived.__bases__, dict(Derived.__dict__))


@dataclasses.dataclass(slots=True)
class Slotted(Base):
    v: int = 0

    @icontract.ensure(post_own)
    def f(self, x):
        return HUB.body("Slotted.f", {"x": x})
'''


def run_recreated(w) -> None:
    """A contract which reaches a function twice although there is a single inheritance path (the class is created anew from its
    namespace; one decorator object is applied to the base method and to the override): still evaluated once per check, inherited
    postconditions before the own ones."""
    loaded = prog.load_source(RECREATED_SOURCE, w.scratch())
    mod, hub = loaded.module, loaded.hub
    try:
        want_f = [("inv", "inv_base"), ("inv", "inv_own"), ("cond", "pre_base"), ("snap", "snap_base"), ("body", "Derived.f"), ("cond", "post_base"),
                  ("cond", "post_own"), ("inv", "inv_base"), ("inv", "inv_own")]
        want_g = [("inv", "inv_base"), ("inv", "inv_own"), ("body", "Derived.g"), ("cond", "post_shared"), ("inv", "inv_base"), ("inv", "inv_own")]
        want_slotted = [("inv", "inv_base"), ("cond", "pre_base"), ("snap", "snap_base"), ("body", "Slotted.f"), ("cond", "post_base"), ("cond", "post_own"),
                        ("inv", "inv_base")]
        # (the order of the classes matters: Derived is called again after Rebuilt was created from its namespace)
        want_h = [("inv", "inv_shared"), ("body", "SBase.h"), ("inv", "inv_shared")]
        for cname, member, want in (("SBase", "h", want_h), ("SDerived", "h", want_h), ("Derived", "f", want_f), ("Rebuilt", "f", want_f), ("Derived", "g", want_g), ("Rebuilt", "g", want_g),
                                    ("Slotted", "f", want_slotted)):
            obj = getattr(mod, cname)()
            hub.reset()
            try:
                getattr(obj, member)(1)
                outcome = "returned"
            except BaseException as err:  # pylint: disable=broad-except
                outcome = "raised {}: {}".format(type(err).__name__, str(err)[:120])
            evs = [(e.kind, e.id) for e in hub.events]
            w.count("events", len(evs))
            w.count("recreated_class_calls")
            w.case(("recreated", cname, member))
            if outcome != "returned" or evs != want:
                w.violation("C16/contract-reaching-a-function-twice-evaluated-repeatedly", "{}().{}(1) {}: events {} but every contract is evaluated once "
                            "per check in the documented order {}".format(cname, member, outcome, evs, want), {"recreated": cname})
    finally:
        loaded.unload()


SAME_PREDICATE_SOURCE = '''
import icontract


class BaseError(Exception):
    pass


class MidError(Exception):
    pass


class DerivedError(Exception):
    pass


def is_even(x):
    HUB.cond("is_even", {{"x": x}})
    return x % 2 == 0


def is_div3(x):
    HUB.cond("is_div3", {{"x": x}})
    return x % 3 == 0


class K(icontract.DBC):
    @icontract.require(is_even, error=BaseError)
    {a}def m(self, x):
        HUB.body("K.m", {{}})
        return x


class L(K):
    @icontract.require(is_div3, error=MidError)
    {a}def m(self, x):
        HUB.body("L.m", {{}})
        return x


class M(L):
    """States the predicate of K again, with an error of its own: a third group, tried last."""
    @icontract.require(is_even, error=DerivedError)
    {a}def m(self, x):
        HUB.body("M.m", {{}})
        return x


class N(K):
    @icontract.require(is_even, error=DerivedError)
    {a}def m(self, x):
        HUB.body("N.m", {{}})
        return x
'''


def run_same_predicate_groups(w) -> None:
    """Precondition groups of a hierarchy which use the very same predicate FUNCTION in different contracts (each with an error of its
    own): every group is tried in order, and when none holds the error is that of the first falsy condition of the LAST group tried."""
    for is_async in (False, True):
        loaded = prog.load_source(SAME_PREDICATE_SOURCE.format(a="async " if is_async else ""), w.scratch())
        mod, hub = loaded.module, loaded.hub
        try:
            for cname, x, want_events, want_outcome in (
                    ("M", 5, ["is_even", "is_div3", "is_even"], "DerivedError"), ("M", 3, ["is_even", "is_div3", "M.m"], "returned"),
                    ("M", 4, ["is_even", "M.m"], "returned"), ("L", 5, ["is_even", "is_div3"], "MidError"),
                    ("N", 5, ["is_even", "is_even"], "DerivedError"), ("N", 4, ["is_even", "N.m"], "returned"), ("K", 5, ["is_even"], "BaseError")):
                hub.reset()
                try:
                    res = getattr(mod, cname)().m(x)
                    if inspect.iscoroutine(res):
                        res = probe.drive(res)
                    outcome = "returned"
                except BaseException as err:  # pylint: disable=broad-except
                    outcome = type(err).__name__
                events = [e.id for e in hub.events]
                w.count("calls")
                w.count("same_predicate_group_calls")
                w.count("events_compared", len(events))
                w.case(("same-predicate-groups", cname, x, is_async))
                if events != want_events or outcome != want_outcome:
                    w.violation("C16/wrong-contract-reported", "{}().m({}) [{}]: evaluated {} and ended with {} (expected {} and {}): each group is "
                                "tried in order, the error is that of the last group tried".format(
                                    cname, x, "async" if is_async else "sync", events, outcome, want_events, want_outcome),
                                {"same_predicate": cname, "x": x})
        finally:
            loaded.unload()


def run(w) -> None:
    if w.shard == 2 % w.nshards:
        run_same_predicate_groups(w)
    w.exhaustive = False
    if w.shard == 0:
        run_ctor_chain(w)
    if w.shard == 1 % w.nshards:
        run_recreated(w)
    for shape, kind, is_async, spec in hierarchies(w):
        w.count("programs")
        run_spec(w, spec, (str(shape), kind, is_async))
    for spec in function_stacks(w):
        w.count("programs")
        run_spec(w, spec, ("funcs",))


def replay(case, w) -> None:
    if "ctor_chain" in case:
        run_ctor_chain(w)
        return
    if "recreated" in case:
        run_recreated(w)
        return
    if "same_predicate" in case:
        run_same_predicate_groups(w)
        return
    spec = case["prog"]
    model = Model(spec)
    contracts = runner.index_contracts(spec)
    loaded = prog.load(spec, w.scratch())
    try:
        if "call" in case:
            judge(w, loaded, model, contracts, case["call"], tuple(case.get("meta", ())))
        else:
            for d in runner.check_definitions(loaded, model):
                w.violation("C16/definition", d.what, {"prog": spec})
    finally:
        loaded.unload()
