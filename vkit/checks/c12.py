"""C12 — concurrent callers never disable each other's checks (gate-level schedule exploration + stress)."""
import asyncio
import contextvars
import itertools
import random
import sys
import threading
import time
from typing import Any, Callable, Dict, List, Optional, Tuple

from vkit import prog

ID = "C12"
LEVEL = "exploration"
SHARDS = {"quick": 4, "thorough": 12}
TIMEOUT = {"quick": 400, "thorough": 3400}
DECIDING = ["schedules_explored", "calls_judged", "calls_overlapping_with_another", "stress_calls"]
RULE = (
    "configurations of 2..3 concurrent calls (late caller violates a precondition / calls a method of an object whose invariant is "
    "temporarily false / everything valid) to the same contracted async function, to async and sync methods of the same and of "
    "different objects, x context-inheritance modes {asyncio tasks created before the parent ran contracted code, tasks created "
    "after it, asyncio.gather, TaskGroup, asyncio.to_thread; threads with a fresh context, threads running in a context copied "
    "before / after the parent's first checked call}. Probes park at GATES (inside async/sync conditions, at body entry and exit); "
    "a director releases exactly one parked task/thread at a time following an enumerated choice sequence (depth-first over all "
    "sequences; since the library awaits nothing but user awaitables, gate order is the complete set of asyncio interleavings of a "
    "configuration; threads: the same at gate level), exhaustively for the quick configurations and up to a cap for larger ones; "
    "a stress tier runs free threads with switch interval 1e-6 and seeded sleep(0) injection on every line of the checker module "
    "(sys.monitoring). Histories: a context copied during a call and used by a later thread / task after the caller is gone (recycled "
    "thread identifiers and task ids are provoked by repetition and counted), callbacks scheduled from a sync method run as an "
    "event-loop callback. Oracle: the verdict of every call under every schedule equals its sequential verdict. Non-trivial = schedule "
    "in which two calls overlapped inside the library's bookkeeping window; distinct = (configuration, mode, release sequence)."
    ' Import orders: child processes import icontract before asyncio / after it / import asyncio only inside the co'
    'routines; the verdict of a call made in a task while its parent has a call in flight on the same object / func'
    'tion equals the verdict of the same call made alone.'
    ' Shared context: two tasks created with one contextvars.Context; six kinds of first call (method of an object with invariants, with contracts of its own, function with a postcondition / precondition, suspended in its capture / condition) finish while the judged call (method re-entering its object; function re-entered from its condition) is suspended.'
)
ASSUMPTIONS = ["gate granularity: preemption between library statements is sampled by the stress tier, not enumerated"]

SOURCE = '''
import icontract

class Rejected(Exception):
    pass

# ---- async function whose precondition and postcondition suspend (coroutine-function conditions)
async def af_pre(x, tag):
    await GATES.agate(tag, "pre")
    return x > 0

async def af_post(result, tag):
    await GATES.agate(tag, "post")
    return result > 0

@icontract.require(af_pre, error=lambda x, tag: Rejected("pre:" + tag))
@icontract.ensure(af_post, error=lambda tag: Rejected("post:" + tag))
async def af(x, tag):
    await GATES.agate(tag, "body")
    return x

# ---- sync function whose conditions park (threads)
def sf_pre(x, tag):
    GATES.tgate(tag, "pre")
    return x > 0

@icontract.require(sf_pre, error=lambda x, tag: Rejected("pre:" + tag))
def sf(x, tag):
    GATES.tgate(tag, "body")
    return x

@icontract.require(lambda x: x > 0, error=lambda x, tag: Rejected("pre:" + tag))
def quick(x, tag):
    return x

# ---- async function with a precondition only whose body starts the other calls of the configuration: the tasks made there
#      copy the context of this call while it is in flight
@icontract.require(lambda x: x > 0, error=lambda x, tag: Rejected("pre:" + tag))
async def afan(x, tag):
    GATES.spawn(tag)
    await GATES.agate(tag, "body")
    return x

@icontract.require(lambda x: x > 0, error=lambda x, tag: Rejected("pre:" + tag))
def sfan(x, tag):
    GATES.spawn(tag)
    GATES.tgate(tag, "body")
    return x

# ---- objects with invariants
@icontract.invariant(lambda self: self.ok, error=lambda self: Rejected("inv:" + self.name))
class K(icontract.DBC):
    def __init__(self, name):
        self.name = name
        self.ok = True

    async def aslow(self, tag):
        """Breaks the invariant temporarily while suspended."""
        self.ok = False
        await GATES.agate(tag, "body")
        self.ok = True
        return tag

    async def acheck(self, tag):
        await GATES.agate(tag, "body")
        return tag

    async def ahold(self, tag):
        """Stays inside the method for a while without touching the state."""
        await GATES.agate(tag, "body")
        return tag

    async def abreak(self, tag):
        """Breaks the invariant for good: the check after the call must always report it."""
        await GATES.agate(tag, "body")
        self.ok = False
        return tag

    def thold(self, tag):
        GATES.tgate(tag, "body")
        return tag

    def tbreak(self, tag):
        GATES.tgate(tag, "body")
        self.ok = False
        return tag

    @icontract.require(lambda x: x > 0, error=lambda x, tag: Rejected("pre:" + tag))
    async def aarg(self, x, tag):
        await GATES.agate(tag, "body")
        return x

    async def aspawn(self, tag):
        """Starts the other calls of the configuration from inside its body (a worker started by a method)."""
        GATES.spawn(tag)
        await GATES.agate(tag, "body")
        return tag

    def tspawn(self, tag):
        GATES.spawn(tag)
        GATES.tgate(tag, "body")
        return tag

    def tspawn_fail(self, tag):
        """Lets the harness copy the context / schedule work from its body and then ends abnormally."""
        GATES.spawn(tag)
        raise RuntimeError("body failed: " + tag)

    async def aspawn_fail(self, tag):
        GATES.spawn(tag)
        raise RuntimeError("body failed: " + tag)

    def repair(self, tag):
        self.ok = True
        return tag

    def tslow(self, tag):
        self.ok = False
        GATES.tgate(tag, "body")
        self.ok = True
        return tag

    def tcheck(self, tag):
        GATES.tgate(tag, "body")
        return tag


class KW(K):
    """Starts the other calls of the configuration from inside its constructor (``self.task = loop.create_task(...)``)."""

    def __init__(self, name, tag):
        super().__init__(name)
        GATES.spawn(tag)
'''


class Gates:
    """Parks callers at named gates; a director releases them one at a time."""

    def __init__(self) -> None:
        self.mode = "free"  # free | asyncio | threads
        self.parked = {}  # type: Dict[str, Any]
        self.log = []  # type: List[Tuple[str, str]]
        self.lock = threading.Lock()
        self.cv = threading.Condition(self.lock)
        self.spawner = None  # type: Any

    def spawn(self, tag: str) -> None:
        """Called from inside the body of a contracted call: lets the harness start further calls from there."""
        if self.spawner is not None:
            self.spawner(tag)

    # asyncio
    async def agate(self, tag: str, where: str) -> None:
        if self.mode != "asyncio":
            return
        fut = asyncio.get_running_loop().create_future()
        self.parked[tag] = (where, fut)
        await fut

    # threads
    def tgate(self, tag: str, where: str) -> None:
        if self.mode != "threads":
            return
        ev = threading.Event()
        with self.cv:
            self.parked[tag] = (where, ev)
            self.cv.notify_all()
        ev.wait(timeout=30)


class Explorer:
    """Depth-first enumeration of choice sequences (stateless model-checking style)."""

    def __init__(self, cap: int) -> None:
        self.cap = cap
        self.prefix = []  # type: List[int]
        self.done = False
        self.count = 0
        self.trace = []  # type: List[Tuple[int, int]]  # (choice, number of options)

    def start_run(self) -> None:
        self.trace = []

    def choose(self, n_options: int) -> int:
        i = len(self.trace)
        c = self.prefix[i] if i < len(self.prefix) else 0
        if c >= n_options:
            c = n_options - 1
        self.trace.append((c, n_options))
        return c

    def finish_run(self) -> None:
        self.count += 1
        # next prefix: increment the last choice that can be incremented
        t = self.trace
        while t and t[-1][0] + 1 >= t[-1][1]:
            t.pop()
        if not t or self.count >= self.cap:
            self.done = True
            return
        self.prefix = [c for c, _n in t[:-1]] + [t[-1][0] + 1]


# ---------------------------------------------------------------------------------------------------------------------
# asyncio configurations
# ---------------------------------------------------------------------------------------------------------------------

def async_configs() -> List[Dict[str, Any]]:
    """Each call: (tag, factory-name, args, expected verdict)."""
    return [
        {"name": "same-function-late-invalid", "calls": [("a", "af", (1,), "ok"), ("b", "af", (-1,), "pre:b")]},
        {"name": "same-function-both-valid", "calls": [("a", "af", (1,), "ok"), ("b", "af", (2,), "ok")]},
        {"name": "same-function-three", "calls": [("a", "af", (1,), "ok"), ("b", "af", (-1,), "pre:b"), ("c", "af", (3,), "ok")]},
        {"name": "same-object-invariant-broken-meanwhile", "calls": [("a", "o1.aslow", (), "ok"), ("b", "o1.acheck", (), "inv:o1|ok")]},
        {"name": "different-objects", "calls": [("a", "o1.aslow", (), "ok"), ("b", "o2.acheck", (), "ok")]},
        # the late caller itself breaks the invariant: its verdict does not depend on the schedule at all
        {"name": "same-object-late-call-breaks-invariant", "calls": [("a", "o1.ahold", (), "ok|inv:o1"), ("b", "o1.abreak", (), "inv:o1")]},
        {"name": "same-object-both-break-invariant", "calls": [("a", "o1.abreak", (), "inv:o1"), ("b", "o1.abreak", (), "inv:o1")]},
        {"name": "same-method-two-objects-late-invalid", "calls": [("a", "o1.aarg", (1,), "ok"), ("b", "o2.aarg", (-1,), "pre:b")]},
        {"name": "same-object-same-method-late-invalid", "calls": [("a", "o1.aarg", (1,), "ok"), ("b", "o1.aarg", (-1,), "pre:b")]},
        # calls started from INSIDE the body of a call in flight (they inherit a copy of its context taken at that moment)
        {"name": "spawned-inside-method-body-breaks-invariant", "spawned_by": "a",
         "calls": [("a", "o1.aspawn", (), "ok|inv:o1"), ("b", "o1.abreak", (), "inv:o1")]},
        {"name": "spawned-inside-method-body-two-workers", "spawned_by": "a",
         "calls": [("a", "o1.aspawn", (), "ok|inv:o1"), ("b", "o1.ahold", (), "ok|inv:o1"), ("c", "o1.abreak", (), "inv:o1")]},
        {"name": "spawned-inside-method-body-other-object", "spawned_by": "a",
         "calls": [("a", "o1.aspawn", (), "ok"), ("b", "o2.abreak", (), "inv:o2")]},
        {"name": "spawned-inside-method-body-to-thread", "spawned_by": "a",
         "calls": [("a", "o1.aspawn", (), "ok|inv:o1"), ("b", "thread:o1.tbreak", (), "inv:o1")]},
        # ... from inside a SYNC method / a constructor running in a task (self.worker = loop.create_task(...))
        {"name": "spawned-inside-sync-method-in-task", "spawned_by": "a",
         "calls": [("a", "sync:o1.tspawn", (), "ok"), ("b", "sync:o1.tbreak", (), "inv:o1"), ("c", "o1.abreak", (), "inv:o1")]},
        {"name": "spawned-inside-constructor-in-task", "spawned_by": "a",
         "calls": [("a", "ctor:o3", (), "ok"), ("b", "sync:o3.tbreak", (), "inv:o3"), ("c", "o3.abreak", (), "inv:o3")]},
        {"name": "spawned-inside-function-body-late-invalid", "spawned_by": "a",
         "calls": [("a", "afan", (1,), "ok"), ("b", "afan", (-1,), "pre:b")]},
        {"name": "spawned-inside-function-body-fan-out", "spawned_by": "a",
         "calls": [("a", "afan", (1,), "ok"), ("b", "afan", (-1,), "pre:b"), ("c", "af", (-2,), "pre:c"), ("d", "afan", (2,), "ok")]},
    ]


ASYNC_MODES = ["tasks-before-parent-ran-contracts", "tasks-after-parent-ran-contracts", "gather-after", "taskgroup-after",
               "objects-constructed-in-parent-first"]


def outcome_of(exc: Optional[BaseException], res: Any) -> str:
    if exc is None:
        return "ok"
    if type(exc).__name__ == "Rejected":
        return str(exc)
    return "{}: {}".format(type(exc).__name__, str(exc)[:80])


def run_async_schedule(mod: Any, gates: Gates, config: Dict[str, Any], mode: str, explorer: Explorer) -> Tuple[Dict[str, str], List[str], bool]:
    """One run of the configuration under the explorer's current choice prefix, in a pristine context."""
    results = {}  # type: Dict[str, str]
    release_seq = []  # type: List[str]
    overlapped = [False]

    async def one(tag: str, target: str, args: tuple) -> None:
        try:
            if target.startswith("thread:"):
                oname, mname = target[len("thread:"):].split(".")
                res = await asyncio.to_thread(getattr(objs[oname], mname), *args, tag)
            elif target.startswith("sync:"):
                # a synchronous contracted call made by this task
                oname, mname = target[len("sync:"):].split(".")
                res = getattr(objs[oname], mname)(*args, tag)
            elif target.startswith("ctor:"):
                oname = target[len("ctor:"):]
                objs[oname] = mod.KW(oname, tag)
                res = tag
            elif "." in target:
                oname, mname = target.split(".")
                res = await getattr(objs[oname], mname)(*args, tag)
            else:
                res = await getattr(mod, target)(*args, tag)
            results[tag] = outcome_of(None, res)
        except BaseException as err:  # pylint: disable=broad-except
            results[tag] = outcome_of(err, None)

    objs = {}  # type: Dict[str, Any]

    async def main() -> None:
        gates.mode = "free"
        if mode == "objects-constructed-in-parent-first":
            # the very first contracted operation of the parent context is the construction of the objects
            objs["o1"] = mod.K("o1")
            objs["o2"] = mod.K("o2")
        else:
            # the objects are made in a context of their own so that constructing them leaves no trace in the parent's context
            objs["o1"] = contextvars.Context().run(mod.K, "o1")
            objs["o2"] = contextvars.Context().run(mod.K, "o2")
        if mode not in ("tasks-before-parent-ran-contracts", "objects-constructed-in-parent-first"):
            # the parent executes contracted code before spawning: the copies of its context made for the tasks are
            # taken after the library created its bookkeeping in this context
            mod.quick(1, "parent")
            await mod.af(1, "parent")
            objs["o1"].name  # noqa
        gates.mode = "asyncio"
        gates.parked = {}
        calls = config["calls"]
        n_calls = len(calls)

        async def director() -> None:
            while len(results) < n_calls:
                for _ in range(4):
                    await asyncio.sleep(0)
                if len(results) >= n_calls:
                    break
                parked = sorted(gates.parked)
                if not parked:
                    continue
                c = explorer.choose(len(parked))
                tag = parked[c]
                where, fut = gates.parked.pop(tag)
                # two calls overlap inside the library if another one is parked in a contract / body while this one proceeds
                if len(parked) >= 2:
                    overlapped[0] = True
                release_seq.append("{}@{}".format(tag, where))
                fut.set_result(None)

        director_task = asyncio.ensure_future(director())
        spawned_by = config.get("spawned_by")
        if spawned_by is not None:
            first = [c for c in calls if c[0] == spawned_by]
            rest = [c for c in calls if c[0] != spawned_by]
            tasks = []
            done_once = [False]

            def spawner(tag: str) -> None:
                if tag == spawned_by and not done_once[0]:
                    done_once[0] = True
                    for t, target, args, _exp in rest:
                        tasks.append(asyncio.ensure_future(one(t, target, args)))

            gates.spawner = spawner
            try:
                tasks.extend(asyncio.ensure_future(one(t, target, args)) for t, target, args, _exp in first)
                await director_task
                await asyncio.wait(tasks)
            finally:
                gates.spawner = None
            gates.mode = "free"
            return
        if mode == "gather-after":
            await asyncio.gather(*[one(tag, target, args) for tag, target, args, _exp in calls])
        elif mode == "taskgroup-after":
            async with asyncio.TaskGroup() as tg:
                for tag, target, args, _exp in calls:
                    tg.create_task(one(tag, target, args))
        else:
            tasks = [asyncio.ensure_future(one(tag, target, args)) for tag, target, args, _exp in calls]
            await asyncio.wait(tasks)
        await director_task
        gates.mode = "free"

    async def main_gather() -> None:
        await main()

    ctx = contextvars.Context()  # pristine: the library's context variable is unset here
    explorer.start_run()
    ctx.run(asyncio.run, main())
    explorer.finish_run()
    return results, release_seq, overlapped[0]


def explore_async(w, mod: Any, gates: Gates, cap: int) -> None:
    for config in async_configs():
        for mode in ("tasks-before-parent-ran-contracts", "tasks-after-parent-ran-contracts", "gather-after", "taskgroup-after",
                     "objects-constructed-in-parent-first"):
            if config.get("spawned_by") and mode in ("gather-after", "taskgroup-after"):
                continue  # the spawning call itself is a plain task; how the *parent* started it makes no difference
            explorer = Explorer(cap)
            n = 0
            while not explorer.done:
                results, seq, overlapped = run_async_schedule(mod, gates, config, mode, explorer)
                n += 1
                w.count("schedules_explored")
                w.distinct("schedules:{}:{}".format(config["name"], mode), "|".join(seq))
                w.case((config["name"], mode, tuple(seq)) if overlapped else None)
                if overlapped:
                    w.count("schedules_with_overlap")
                for tag, _target, _args, exp in config["calls"]:
                    w.count("calls_judged")
                    if overlapped:
                        w.count("calls_overlapping_with_another")
                    got = results.get(tag, "<no result>")
                    if got not in exp.split("|"):
                        w.violation(classify(mode, config), "configuration {} in mode {} under schedule {}: call {} gave {!r}, sequentially it gives {!r}".format(
                            config["name"], mode, seq, tag, got, exp),
                            {"engine": "asyncio", "config": config["name"], "mode": mode, "prefix": [c for c, _n in explorer.trace]},
                            {"results": results, "schedule": seq})
            w.notes.setdefault("schedules_per_config", {})["{}/{}".format(config["name"], mode)] = n
            if n and len(w.samples) < 3:
                w.sample({"config": config["name"], "mode": mode, "schedules": n, "last_schedule": seq, "results": results})


def classify(mode: str, config: Optional[Dict[str, Any]] = None) -> str:
    if config is not None and config.get("spawned_by"):
        # mechanism: the in-progress marks of a call in flight are inherited by the tasks / threads started from its body
        if "function" in config["name"]:
            return "C12/checks-disabled-in-flow-started-during-a-function-call"
        return "C12/checks-disabled-in-flow-started-during-a-call"
    if "after" in mode or mode in ("to_thread", "copied-after", "objects-constructed-in-parent-first", "context-copied-after-ctor"):
        return "C12/in-progress-set-aliased-across-context-copies"
    return "C12/verdict-depends-on-concurrent-call"


# ---------------------------------------------------------------------------------------------------------------------
# threads: gate-level baton passing
# ---------------------------------------------------------------------------------------------------------------------

def thread_configs() -> List[Dict[str, Any]]:
    return [
        {"name": "same-function-late-invalid", "calls": [("a", "sf", (1,), "ok"), ("b", "sf", (-1,), "pre:b")]},
        {"name": "same-function-three", "calls": [("a", "sf", (1,), "ok"), ("b", "sf", (-1,), "pre:b"), ("c", "sf", (2,), "ok")]},
        {"name": "same-object-invariant-broken-meanwhile", "calls": [("a", "o1.tslow", (), "ok"), ("b", "o1.tcheck", (), "inv:o1|ok")]},
        {"name": "different-objects", "calls": [("a", "o1.tslow", (), "ok"), ("b", "o2.tcheck", (), "ok")]},
        {"name": "same-object-late-call-breaks-invariant", "calls": [("a", "o1.thold", (), "ok|inv:o1"), ("b", "o1.tbreak", (), "inv:o1")]},
        {"name": "spawned-inside-method-body-breaks-invariant", "spawned_by": "a",
         "calls": [("a", "o1.tspawn", (), "ok|inv:o1"), ("b", "o1.tbreak", (), "inv:o1")]},
        {"name": "spawned-inside-method-body-other-object", "spawned_by": "a",
         "calls": [("a", "o1.tspawn", (), "ok"), ("b", "o2.tbreak", (), "inv:o2")]},
        {"name": "spawned-inside-function-body-late-invalid", "spawned_by": "a",
         "calls": [("a", "sfan", (1,), "ok"), ("b", "sfan", (-1,), "pre:b"), ("c", "sf", (-1,), "pre:c")]},
    ]


THREAD_MODES = ["fresh-thread", "context-copied-before", "context-copied-after", "to_thread", "context-copied-after-ctor"]


def run_thread_schedule(mod: Any, gates: Gates, config: Dict[str, Any], mode: str, explorer: Explorer) -> Tuple[Dict[str, str], List[str], bool]:
    results = {}  # type: Dict[str, str]
    seq = []  # type: List[str]
    overlapped = [False]
    objs = {}

    def one(tag: str, target: str, args: tuple) -> None:
        try:
            if "." in target:
                oname, mname = target.split(".")
                res = getattr(objs[oname], mname)(*args, tag)
            else:
                res = getattr(mod, target)(*args, tag)
            results[tag] = outcome_of(None, res)
        except BaseException as err:  # pylint: disable=broad-except
            results[tag] = outcome_of(err, None)
        finally:
            with gates.cv:
                finished.add(tag)
                gates.cv.notify_all()

    finished = set()

    def parent() -> None:
        gates.mode = "free"
        if mode == "context-copied-after-ctor":
            objs["o1"] = mod.K("o1")
            objs["o2"] = mod.K("o2")
        else:
            objs["o1"] = contextvars.Context().run(mod.K, "o1")
            objs["o2"] = contextvars.Context().run(mod.K, "o2")
        ctx_before = contextvars.copy_context()
        if mode in ("context-copied-after", "to_thread"):
            mod.quick(1, "parent")
            objs["o1"].name  # noqa
        ctx_after = contextvars.copy_context()
        gates.mode = "threads"
        gates.parked = {}
        threads = []
        spawned_by = config.get("spawned_by")
        done_once = [False]

        def spawner(tag: str) -> None:
            # runs inside the body of the call `spawned_by`: the new threads run in a copy of ITS context (asyncio.to_thread style)
            if tag != spawned_by or done_once[0]:
                return
            done_once[0] = True
            for t, target, args, _exp in config["calls"]:
                if t == spawned_by:
                    continue
                if mode == "fresh-thread":
                    th2 = threading.Thread(target=one, args=(t, target, args), daemon=True)
                else:
                    th2 = threading.Thread(target=contextvars.copy_context().run, args=(one, t, target, args), daemon=True)
                threads.append(th2)
                th2.start()

        gates.spawner = spawner if spawned_by else None
        for tag, target, args, _exp in config["calls"]:
            if spawned_by and tag != spawned_by:
                continue
            if mode == "fresh-thread":
                th = threading.Thread(target=one, args=(tag, target, args), daemon=True)
            elif mode == "context-copied-before":
                th = threading.Thread(target=ctx_before.copy().run, args=(one, tag, target, args), daemon=True)
            else:
                # what asyncio.to_thread / run_in_executor with a copied context do
                th = threading.Thread(target=ctx_after.copy().run, args=(one, tag, target, args), daemon=True)
            threads.append(th)
        for th in list(threads):  # (the spawner appends the threads it starts itself)
            th.start()
        n_calls = len(config["calls"])
        deadline = time.time() + 20
        while True:
            with gates.cv:
                # wait until every unfinished thread is parked
                while len(gates.parked) + len(finished) < n_calls and time.time() < deadline:
                    gates.cv.wait(timeout=0.05)
                if len(finished) >= n_calls:
                    break
                parked = sorted(gates.parked)
                if not parked:
                    if time.time() >= deadline:
                        break
                    continue
                c = explorer.choose(len(parked))
                tag = parked[c]
                where, ev = gates.parked.pop(tag)
                if len(parked) >= 2:
                    overlapped[0] = True
                seq.append("{}@{}".format(tag, where))
            ev.set()
            # wait for the released thread to park again or finish
            with gates.cv:
                while tag not in gates.parked and tag not in finished and time.time() < deadline:
                    gates.cv.wait(timeout=0.05)
        for th in list(threads):
            th.join(timeout=5)
        gates.mode = "free"
        gates.spawner = None

    explorer.start_run()
    runner_thread = threading.Thread(target=contextvars.Context().run, args=(parent,), daemon=True)
    runner_thread.start()
    runner_thread.join(timeout=40)
    explorer.finish_run()
    return results, seq, overlapped[0]


def explore_threads(w, mod: Any, gates: Gates, cap: int) -> None:
    for config in thread_configs():
        for mode in THREAD_MODES:
            explorer = Explorer(cap)
            n = 0
            while not explorer.done:
                results, seq, overlapped = run_thread_schedule(mod, gates, config, mode, explorer)
                n += 1
                w.count("schedules_explored")
                w.distinct("schedules:threads:{}:{}".format(config["name"], mode), "|".join(seq))
                w.case(("threads", config["name"], mode, tuple(seq)) if overlapped else None)
                for tag, _target, _args, exp in config["calls"]:
                    w.count("calls_judged")
                    if overlapped:
                        w.count("calls_overlapping_with_another")
                    got = results.get(tag, "<no result>")
                    if got == "<no result>":
                        w.mark_inconclusive("thread schedule {} of {} in mode {} did not finish (watchdog)".format(seq, config["name"], mode))
                    elif got not in exp.split("|"):
                        w.violation(classify(mode if mode != "context-copied-after" else "copied-after", config),
                                    "threads: configuration {} in mode {} under schedule {}: call {} gave {!r}, sequentially it gives {!r}".format(
                                        config["name"], mode, seq, tag, got, exp),
                                    {"engine": "threads", "config": config["name"], "mode": mode, "prefix": [c for c, _n in explorer.trace]},
                                    {"results": results, "schedule": seq})
            w.notes.setdefault("schedules_per_config", {})["threads/{}/{}".format(config["name"], mode)] = n


# ---------------------------------------------------------------------------------------------------------------------
# histories: contexts copied during a call and used after that call (and its thread / task) is gone; loop callbacks
# ---------------------------------------------------------------------------------------------------------------------

def explore_histories(w, mod: Any, gates: Gates, tries: int) -> None:
    """Deterministic histories in which the identity of a finished thread / task may be recycled, or no task is involved."""
    import gc  # pylint: disable=import-outside-toplevel

    def verdict(fn, *args) -> str:
        try:
            return outcome_of(None, fn(*args))
        except BaseException as err:  # pylint: disable=broad-except
            return outcome_of(err, None)

    def judge(name: str, got: str, want: str, detail: Dict[str, Any]) -> None:
        w.count("calls_judged")
        w.count("history_calls_judged")
        if got != want:
            w.violation("C12/stale-inherited-mark-honoured", "history {}: the call gave {!r}, sequentially it gives {!r} ({})".format(name, got, want, detail),
                        {"engine": "history", "history": name}, detail)

    gates.mode = "free"

    # (1) a context copied inside a method in flight in thread T1 is used by a NEW thread after T1 has exited (thread
    #     identifiers are recycled by the operating system)
    def history_thread() -> None:
        o = contextvars.Context().run(mod.K, "o1")
        copies = []
        gates.spawner = lambda tag: copies.append(contextvars.copy_context())
        t1 = threading.Thread(target=contextvars.Context().run, args=(o.tspawn, "a"))
        t1.start()
        t1.join()
        gates.spawner = None
        ident1 = t1.ident
        del t1
        reused = 0
        for _ in range(tries):
            box = {}
            o.ok = True

            def work() -> None:
                box["ident"] = threading.get_ident()
                box["got"] = verdict(o.tbreak, "b")

            t2 = threading.Thread(target=copies[0].run, args=(work,))
            t2.start()
            t2.join()
            if box.get("ident") == ident1:
                reused += 1
            judge("context-copied-in-a-call-used-by-a-later-thread", box.get("got", "<no result>"), "inv:o1", {"thread_ident_recycled": box.get("ident") == ident1})
        w.count("histories_with_recycled_thread_ident", reused)

    # (2) ... by a NEW task after the parent task has been collected (id() of task objects is recycled)
    def history_task() -> None:
        async def main() -> None:
            loop = asyncio.get_running_loop()
            o = contextvars.Context().run(mod.K, "o1")
            copies = []
            gates.spawner = lambda tag: copies.append(contextvars.copy_context())
            parent = loop.create_task(o.aspawn("a"))
            await parent
            gates.spawner = None
            pid = id(parent)
            del parent
            gc.collect()
            reused = 0
            for _ in range(tries):
                o.ok = True
                box = {}

                async def child() -> None:
                    try:
                        box["got"] = outcome_of(None, await o.abreak("b"))
                    except BaseException as err:  # pylint: disable=broad-except
                        box["got"] = outcome_of(err, None)

                task = loop.create_task(child(), context=copies[0].copy())
                hit = id(task) == pid
                await task
                del task
                if hit:
                    reused += 1
                judge("context-copied-in-a-call-used-by-a-later-task", box.get("got", "<no result>"), "inv:o1", {"task_id_recycled": hit})
            w.count("histories_with_recycled_task_id", reused)

        contextvars.Context().run(asyncio.run, main())

    # (3) event-loop callbacks (no task at all): a sync method run as a callback schedules another callback from its body
    def history_callbacks() -> None:
        async def main() -> None:
            loop = asyncio.get_running_loop()
            for starter_in_task in (False, True):
                o = contextvars.Context().run(mod.K, "o1")
                box = {}
                done = loop.create_future()

                def later() -> None:
                    box["got"] = verdict(o.tbreak, "b")
                    done.set_result(None)

                gates.spawner = lambda tag: loop.call_soon(later)
                if starter_in_task:
                    o.tspawn("a")
                else:
                    loop.call_soon(o.tspawn, "a")
                await done
                gates.spawner = None
                judge("callback-scheduled-inside-a-sync-method-run-{}".format("in-a-task" if starter_in_task else "as-a-callback"),
                      box.get("got", "<no result>"), "inv:o1", {})

        contextvars.Context().run(asyncio.run, main())

    # (4) the same, but the call during which the context was copied ends ABNORMALLY (body raises / invariant violated)
    def history_after_failed_call() -> None:
        async def main() -> None:
            loop = asyncio.get_running_loop()
            for how in ("body-raises", "invariant-violated"):
                o = contextvars.Context().run(mod.K, "o1")
                box = {}
                done = loop.create_future()

                def later() -> None:
                    o.ok = True
                    box["got"] = verdict(o.tbreak, "b")
                    done.set_result(None)

                def first() -> None:
                    gates.spawner = lambda tag: loop.call_soon(later)
                    try:
                        if how == "body-raises":
                            o.tspawn_fail("a")
                        else:
                            o.ok = False  # the check before the call fails: ...
                            gates.spawner = None
                            loop.call_soon(later)  # (the copy is taken by the caller in this variant)
                            o.thold("a")
                    except BaseException:  # pylint: disable=broad-except
                        pass
                    finally:
                        gates.spawner = None

                loop.call_soon(first)
                await done
                judge("callback-scheduled-from-a-call-that-failed-" + how, box.get("got", "<no result>"), "inv:o1", {})

        contextvars.Context().run(asyncio.run, main())

        # a context copied inside a method that raises, used by later threads (recycled thread identifiers)
        o = contextvars.Context().run(mod.K, "o1")
        copies = []
        gates.spawner = lambda tag: copies.append(contextvars.copy_context())

        def failing() -> None:
            try:
                o.tspawn_fail("a")
            except RuntimeError:
                pass

        t1 = threading.Thread(target=contextvars.Context().run, args=(failing,))
        t1.start()
        t1.join()
        gates.spawner = None
        ident1 = t1.ident
        del t1
        reused = 0
        for _ in range(tries):
            box = {}
            o.ok = True

            def work() -> None:
                box["ident"] = threading.get_ident()
                box["got"] = verdict(o.tbreak, "b")

            t2 = threading.Thread(target=copies[0].run, args=(work,))
            t2.start()
            t2.join()
            if box.get("ident") == ident1:
                reused += 1
            judge("context-copied-in-a-failed-call-used-by-a-later-thread", box.get("got", "<no result>"), "inv:o1",
                  {"thread_ident_recycled": box.get("ident") == ident1})
        w.count("histories_with_recycled_thread_ident", reused)

    for hist in (history_thread, history_task, history_callbacks, history_after_failed_call):
        try:
            hist()
        finally:
            gates.spawner = None
    w.case(("histories", w.shard))


# ---------------------------------------------------------------------------------------------------------------------
# stress: free threads, tiny switch interval, sleep(0) injected on every line of the checker module
# ---------------------------------------------------------------------------------------------------------------------

def stress(w, mod: Any, gates: Gates, rounds: int, n_threads: int) -> None:
    import icontract._checkers as chk  # pylint: disable=import-outside-toplevel

    gates.mode = "free"
    rng = random.Random(w.seed * 7919 + w.shard)
    injected = [0]
    mon = getattr(sys, "monitoring", None)
    tool = 4
    enabled = False
    if mon is not None:
        try:
            mon.use_tool_id(tool, "vkit-yield")
            inj_rng = random.Random(w.seed + 17)
            lock = threading.Lock()

            def on_line(code, lineno):  # pylint: disable=unused-argument
                with lock:
                    go = inj_rng.random() < 0.15
                if go:
                    injected[0] += 1
                    time.sleep(0)

            mon.register_callback(tool, mon.events.LINE, on_line)
            seen = set()

            def enable(code) -> None:
                if id(code) in seen:
                    return
                seen.add(id(code))
                mon.set_local_events(tool, code, mon.events.LINE)
                for const in code.co_consts:
                    if hasattr(const, "co_code"):
                        enable(const)

            for v in list(vars(chk).values()):
                if hasattr(v, "__code__") and v.__code__.co_filename == chk.__file__:
                    enable(v.__code__)
            enabled = True
        except ValueError:
            enabled = False
    old_interval = sys.getswitchinterval()
    sys.setswitchinterval(1e-6)
    try:
        for mode in ("fresh-thread", "context-copied-after", "asyncio.to_thread", "run_in_executor"):
            mismatches = []
            for rnd in range(rounds):
                plan = [(i, rng.choice((1, -1, 2, -3))) for i in range(n_threads)]
                results = {}

                def work(i: int, x: int) -> None:
                    out = []
                    for k in range(20):
                        try:
                            mod.quick(x, "t{}".format(i))
                            out.append("ok")
                        except BaseException as err:  # pylint: disable=broad-except
                            out.append(outcome_of(err, None))
                    results[i] = out

                async def amain() -> None:
                    mod.quick(1, "parent")
                    loop = asyncio.get_running_loop()
                    if mode == "asyncio.to_thread":
                        await asyncio.gather(*[asyncio.to_thread(work, i, x) for i, x in plan])
                    else:
                        ctx = contextvars.copy_context()
                        await asyncio.gather(*[loop.run_in_executor(None, ctx.copy().run, work, i, x) for i, x in plan])

                def parent() -> None:
                    if mode in ("asyncio.to_thread", "run_in_executor"):
                        asyncio.run(amain())
                        return
                    if mode == "context-copied-after":
                        mod.quick(1, "parent")
                    ctx = contextvars.copy_context()
                    ths = []
                    for i, x in plan:
                        if mode == "fresh-thread":
                            ths.append(threading.Thread(target=work, args=(i, x)))
                        else:
                            ths.append(threading.Thread(target=ctx.copy().run, args=(work, i, x)))
                    for t in ths:
                        t.start()
                    for t in ths:
                        t.join(timeout=30)

                pt = threading.Thread(target=contextvars.Context().run, args=(parent,))
                pt.start()
                pt.join(timeout=60)
                for i, x in plan:
                    want = "ok" if x > 0 else "pre:t{}".format(i)
                    for got in results.get(i, []):
                        w.count("stress_calls")
                        if got != want:
                            mismatches.append((mode, rnd, i, x, got, want))
            if mismatches:
                m = mismatches[0]
                w.violation(classify("copied-after" if mode != "fresh-thread" else mode),
                            "stress ({} threads, mode {}): {} of the calls got another verdict than sequentially, e.g. thread {} with x={} got {!r} instead of {!r}".format(
                                n_threads, mode, len(mismatches), m[2], m[3], m[4], m[5]), {"engine": "stress", "mode": mode})
    finally:
        sys.setswitchinterval(old_interval)
        if enabled:
            mon.free_tool_id(tool)
    w.count("yields_injected", injected[0])
    w.case(("stress", w.shard))


SHARED_CONTEXT_SOURCE = '''
import asyncio
import icontract


@icontract.invariant(lambda self: self.x >= 0, check_on=icontract.InvariantCheckEvent.ALL)
class Account:
    def __init__(self):
        self.x = 1

    async def wait_for(self, event):
        await event.wait()
        return "waited"

    def peek(self):
        return self.x

    async def fan_out(self, how):
        """While this call is in flight, another flow assigns an attribute of the object."""
        def assign():
            self.x = -5
            return "assigned"

        async def assign_in_task():
            return assign()

        if how == "task":
            child = asyncio.ensure_future(assign_in_task())
        else:
            child = asyncio.ensure_future(asyncio.to_thread(assign))
        (outcome,) = await asyncio.gather(child, return_exceptions=True)
        self.__dict__["x"] = 1
        return type(outcome).__name__ if isinstance(outcome, BaseException) else outcome

    async def transfer(self, event):
        """Breaks the invariant temporarily; lets the other call finish in between; calls a public method of itself."""
        self.x = -1
        try:
            event.set()
            await asyncio.sleep(0)
            await asyncio.sleep(0)
            return self.peek()
        finally:
            self.x = 1

    def withdraw_now(self, amount):
        self.__dict__["x"] = self.x - amount
        return self.x

    async def hold_and_schedule(self, how, amount):
        """While this call is in flight (suspended in its body), a callback of the event loop - registered from within the call, run
        outside of any task - calls a method of the same object."""
        loop = asyncio.get_running_loop()
        outcome = []

        def callback(*_):
            try:
                outcome.append("returned {!r}".format(self.withdraw_now(amount)))
            except BaseException as err:
                outcome.append("raised " + type(err).__name__)

        if how == "call_soon":
            loop.call_soon(callback)
        elif how == "call_later":
            loop.call_later(0, callback)
        else:
            future = loop.create_future()
            future.add_done_callback(callback)
            future.set_result(None)
        for _ in range(5):
            await asyncio.sleep(0.001)
        self.__dict__["x"] = 1
        return outcome[0] if outcome else "callback never ran"

    @icontract.require(lambda self: self.x >= 0)
    @icontract.snapshot(lambda self: self.x, name="x")
    @icontract.ensure(lambda self, OLD: self.x == OLD.x)
    async def checked_wait_for(self, event):
        await event.wait()
        return "waited"


@icontract.ensure(lambda result: result == "waited")
async def wait_with_postcondition(event):
    await event.wait()
    return "waited"


@icontract.require(lambda event: event is not None)
async def wait_with_precondition(event):
    await event.wait()
    return "waited"


async def slow_capture(event):
    await event.wait()
    return 1


@icontract.snapshot(slow_capture, name="before")
@icontract.ensure(lambda OLD, result: OLD.before == 1 and result == "waited")
async def wait_in_capture(event):
    return "waited"


async def slow_condition(event):
    await event.wait()
    return True


@icontract.require(slow_condition)
@icontract.ensure(lambda result: result == "waited")
async def wait_in_condition(event):
    return "waited"


FIRST_CALLS = {
    "method-of-an-object-with-invariants": lambda event: Account().wait_for(event),
    "method-with-contracts-of-an-object-with-invariants": lambda event: Account().checked_wait_for(event),
    "function-with-a-postcondition": wait_with_postcondition,
    "function-with-a-precondition": wait_with_precondition,
    "function-suspended-in-its-capture": wait_in_capture,
    "function-suspended-in-its-condition": wait_in_condition,
}


async def recursive_condition(n, event):
    """A condition which uses the function it describes, after the other call has finished."""
    if n > 0:
        event.set()
        await asyncio.sleep(0)
        await asyncio.sleep(0)
        return await countdown(n - 1, event) == n - 1
    return True


@icontract.require(recursive_condition)
async def countdown(n, event):
    return n


SECOND_CALLS = {
    "method-re-entering-its-object": lambda event: Account().transfer(event),
    "function-re-entered-from-its-condition": lambda event: countdown(3, event),
}
'''


def run_shared_context(w) -> None:
    """Two calls on different objects whose lifetimes overlap without being nested, in tasks that share ONE context
    (create_task(..., context=ctx)): the verdict of the judged call is the verdict it has alone."""
    import contextvars  # pylint: disable=import-outside-toplevel
    loaded = prog.load_source(SHARED_CONTEXT_SOURCE, w.scratch())
    mod = loaded.module

    def alone(second_tag):
        async def run():
            return await mod.SECOND_CALLS[second_tag](asyncio.Event())
        return run()

    def shared_context(first_tag, second_tag):
        async def run():
            ctx = contextvars.copy_context()
            loop = asyncio.get_running_loop()
            event = asyncio.Event()
            first = loop.create_task(mod.FIRST_CALLS[first_tag](event), context=ctx)
            await asyncio.sleep(0)
            second = loop.create_task(mod.SECOND_CALLS[second_tag](event), context=ctx)
            res = await asyncio.wait_for(asyncio.gather(first, second, return_exceptions=True), timeout=60)
            if res[0] != "waited":
                return "the first call gave {!r}".format(res[0])
            return res[1]
        return run()

    def verdict(coro):
        try:
            return "returned {!r}".format(asyncio.run(coro))
        except BaseException as err:  # pylint: disable=broad-except
            return "raised {}".format(type(err).__name__)

    async def assign_alone():
        account = mod.Account()
        try:
            account.x = -5
            return "assigned"
        except BaseException as err:  # pylint: disable=broad-except
            return type(err).__name__

    try:
        # an attribute assignment that breaks the invariant is refused - alone, and from a task / a thread started while a method of
        # the object is in flight
        base_assign = verdict(assign_alone())
        for how in ("task", "thread"):
            res = verdict(mod.Account().fan_out(how))
            w.count("calls_judged")
            w.count("calls_overlapping_with_another")
            w.count("shared_context_schedules")
            w.case(("assignment-from-another-flow", how))
            if res != base_assign:
                w.violation("C12/checks-disabled-in-flow-started-during-a-call", "attribute assignment from a {} started while a method of the object is "
                            "in flight gave {}, alone it gives {}".format(how, res, base_assign), {"shared_context": "assign-" + how})
        # a method called from a callback of the event loop (outside any task) while a call on the same object is suspended
        async def withdraw_alone():
            account = mod.Account()
            try:
                return "returned {!r}".format(account.withdraw_now(100))
            except BaseException as err:  # pylint: disable=broad-except
                return "raised " + type(err).__name__

        base_callback = verdict(withdraw_alone())
        for how in ("call_soon", "call_later", "add_done_callback"):
            res = verdict(mod.Account().hold_and_schedule(how, 100))
            w.count("calls_judged")
            w.count("calls_overlapping_with_another")
            w.count("shared_context_schedules")
            w.case(("event-loop-callback", how))
            if res != base_callback:
                w.violation("C12/checks-disabled-in-flow-started-during-a-call", "a method called from an event-loop callback ({}) registered while a "
                            "call on the same object is in flight gave {}, alone it gives {}".format(how, res, base_callback),
                            {"shared_context": "callback-" + how})
        for second_tag in sorted(mod.SECOND_CALLS):
            base = verdict(alone(second_tag))
            for first_tag in sorted(mod.FIRST_CALLS):
                tag = "two-tasks-sharing-one-context/{}/{}".format(first_tag, second_tag)
                res = verdict(shared_context(first_tag, second_tag))
                if res.startswith("returned ") and "Error" in res:
                    res = "raised " + res.split("(")[0].split()[-1]
                w.count("calls_judged")
                w.count("calls_overlapping_with_another")
                w.count("shared_context_schedules")
                w.case(("shared-context", tag))
                if res != base:
                    w.violation("C12/verdict-depends-on-the-end-of-a-call-sharing-the-context", "{}: the judged call gave {}, alone it gives {}".format(
                        tag, res, base), {"shared_context": tag})
    finally:
        loaded.unload()


def run_import_orders(w) -> None:
    """Child processes (vkit/c12_child.py) import icontract before / after asyncio, or import asyncio only inside the coroutine
    that needs it: a call made in a task while another call on the same object / function is in flight in the task that spawned
    it must get the verdict it gets alone, whatever the import order of the application."""
    import json  # pylint: disable=import-outside-toplevel
    import os  # pylint: disable=import-outside-toplevel
    import subprocess  # pylint: disable=import-outside-toplevel

    from vkit import core  # pylint: disable=import-outside-toplevel

    child = os.path.join(core.VERIF_DIR, "vkit", "c12_child.py")
    for order in ("icontract-first", "asyncio-first", "asyncio-inside-main"):
        env = dict(os.environ, PYTHONPATH=core.VERIF_DIR)
        try:
            res = subprocess.run([core.PYTHON, child, core.REPO, order], capture_output=True, text=True, env=env, timeout=120, cwd=w.scratch())
        except subprocess.TimeoutExpired:
            w.mark_inconclusive("import-order child {} hit the watchdog".format(order))
            continue
        line = [ln for ln in res.stdout.splitlines() if ln.startswith("REPORT=")]
        if res.returncode != 0 or not line:
            w.violation("C12/import-order-child-crashed", "import order {}: exit {}: {}".format(order, res.returncode, res.stderr[-600:]),
                        {"import_order": order})
            continue
        rep = json.loads(line[0][len("REPORT="):])
        w.count("import_order_children")
        w.distinct("import_orders", (order, rep["asyncio_loaded_before_icontract"], rep["asyncio_loaded_by_icontract"]))
        verdicts = rep["verdicts"]
        for label, verdict in sorted(verdicts.items()):
            alone = verdicts[label.split(":")[0] + ":alone"]
            w.count("calls_judged")
            w.case(("import-order", order, label))
            if label.endswith(":alone"):
                if verdict != "ViolationError":
                    w.violation("C12/import-order-child-crashed", "import order {}: the call made alone gave {}".format(order, verdict), {"import_order": order})
                continue
            w.count("calls_overlapping_with_another")
            if verdict != alone:
                w.violation("C12/verdict-depends-on-call-in-flight-under-import-order", "asyncio {} icontract: {} gave {!r}, the same call "
                            "made alone gives {!r}".format({"icontract-first": "imported after", "asyncio-first": "imported before",
                                                            "asyncio-inside-main": "imported only inside the coroutines, after"}[order],
                                                           label, verdict, alone), {"import_order": order})


def run(w) -> None:
    if w.shard == 3 % w.nshards and __import__("os").environ.get("VERIF_C12_PART") in (None, "imports"):
        run_import_orders(w)
    if w.shard == 2 % w.nshards and __import__("os").environ.get("VERIF_C12_PART") in (None, "histories", "shared"):
        run_shared_context(w)
    gates = Gates()
    loaded = prog.load_source(SOURCE, w.scratch(), extra_globals={"GATES": gates})
    mod = loaded.module
    cap = 20000 if w.tier == "thorough" else 600
    try:
        # shard 0: asyncio schedules, shard 1: thread schedules, the others: stress rounds with their own seeds
        only = __import__("os").environ.get("VERIF_C12_PART")  # for validating one monitor in isolation
        if (w.shard == 0 or w.nshards == 1) and only in (None, "async"):
            explore_async(w, mod, gates, cap)
        if (w.shard == 1 or w.nshards == 1) and only in (None, "threads"):
            explore_threads(w, mod, gates, 400 if w.tier == "thorough" else 80)
        if (w.shard == 2 % w.nshards) and only in (None, "histories"):
            explore_histories(w, mod, gates, 400 if w.tier == "thorough" else 60)
        if (w.shard >= 2 or w.nshards == 1) and only in (None, "stress"):
            stress(w, mod, gates, rounds=(40 if w.tier == "thorough" else 5), n_threads=8)
    finally:
        loaded.unload()
    w.exhaustive = False


def replay(case, w) -> None:
    if "import_order" in case:
        run_import_orders(w)
        return
    if "shared_context" in case:
        run_shared_context(w)
        return
    gates = Gates()
    loaded = prog.load_source(SOURCE, w.scratch(), extra_globals={"GATES": gates})
    mod = loaded.module
    try:
        if case.get("engine") == "asyncio":
            config = [c for c in async_configs() if c["name"] == case["config"]][0]
            ex = Explorer(1)
            ex.prefix = list(case["prefix"])
            results, seq, _ = run_async_schedule(mod, gates, config, case["mode"], ex)
            for tag, _t, _a, exp in config["calls"]:
                if results.get(tag) not in exp.split("|"):
                    w.violation(classify(case["mode"], config), "replayed schedule {}: call {} gave {!r} instead of {!r}".format(seq, tag, results.get(tag), exp), case)
        elif case.get("engine") == "threads":
            config = [c for c in thread_configs() if c["name"] == case["config"]][0]
            ex = Explorer(1)
            ex.prefix = list(case["prefix"])
            results, seq, _ = run_thread_schedule(mod, gates, config, case["mode"], ex)
            for tag, _t, _a, exp in config["calls"]:
                if results.get(tag) not in exp.split("|"):
                    w.violation(classify(case["mode"], config), "replayed schedule {}: call {} gave {!r} instead of {!r}".format(seq, tag, results.get(tag), exp), case)
        elif case.get("engine") == "history":
            explore_histories(w, mod, gates, 200)
        else:
            stress(w, mod, gates, rounds=6, n_threads=8)
    finally:
        loaded.unload()
