"""C17 — defining a class or decorating a function never changes another's contracts (conservation over histories)."""
import os
from typing import Any, Dict, List, Optional, Tuple

from vkit import gen, probe, prog, runner
from vkit.model import Model
from vkit.probe import Tok

ID = "C17"
LEVEL = "exploration"
SHARDS = {"quick": 4, "thorough": 16}
TIMEOUT = {"quick": 300, "thorough": 3400}
DECIDING = ["reobservations", "steps", "histories"]
RULE = (
    "random definition histories of 3..12 steps; a step creates a class on DBC (0..2 bases chosen among the classes defined so far, "
    "so siblings, chains, joins and diamonds arise; 0..3 own invariants with check_on in {CALL, SETATTR, ALL} applied by decorator in "
    "any order; 1..2 members of any kind, declared or overriding, with preconditions/postconditions/snapshots), decorates a plain "
    "function, or adds a precondition/postcondition AFTERWARDS to a method of an already created class (by the decorator or "
    "through add_*_to_checker; the decorated class and its subclasses are then re-baselined, everything else is protected). When an entity is defined the monitor records (a) the contents of every introspection list reachable from it "
    "(precondition groups, postconditions, snapshots of each member's checker; the three invariant lists of the class) as tuples of "
    "contract tokens and (b) the event traces and outcomes of a fixed battery of probe calls (construction, member call, attribute "
    "assignment; all-true and each-single-false truth assignments). After EVERY later step every earlier entity is re-observed and "
    "must be unchanged. Non-trivial = a re-observation of an entity that has contracts; distinct = (history index, step, entity)."
    ' Fixed histories: 24 joins of an accept-all base and a stating base (6 member kinds x 2 orders x 2 overrides), members re-used under the name of another member / in an unrelated hierarchy (method and property getter). Random histories re-use members of ancestors and of unrelated classes under their own, another or a new name; a contract added afterwards to a function re-baselines every class that holds that very function.'
)
ASSUMPTIONS = ["identity changes of list objects are not judged, only contents and behaviour"]

CHECK_ONS = ("CALL", "SETATTR", "ALL")


def token(contract: Any) -> str:
    d = getattr(contract, "description", None)
    if d:
        return str(d)
    return getattr(contract, "name", None) or repr(contract)


def member_functions(cls_obj: Any, member: Dict[str, Any]) -> List[Tuple[str, Any]]:
    import inspect  # pylint: disable=import-outside-toplevel

    raw = inspect.getattr_static(cls_obj, member["name"], None)
    if raw is None:
        return []
    if isinstance(raw, property):
        return [(member["name"] + "." + k, f) for k, f in (("fget", raw.fget), ("fset", raw.fset), ("fdel", raw.fdel)) if f is not None]
    if isinstance(raw, (staticmethod, classmethod)):
        return [(member["name"], raw.__func__)]
    return [(member["name"], raw)]


def introspect(obj: Any, member_names: List[Dict[str, Any]], is_class: bool) -> Dict[str, Any]:
    """Contents of the documented introspection lists, as tuples of tokens."""
    import icontract._checkers  # pylint: disable=import-outside-toplevel

    out = {}  # type: Dict[str, Any]
    funcs = []
    if is_class:
        for attr in ("__invariants__", "__invariants_on_call__", "__invariants_on_setattr__"):
            out[attr] = tuple(token(c) for c in getattr(obj, attr, ()))
        for m in member_names:
            funcs.extend(member_functions(obj, m))
    else:
        funcs.append(("<function>", obj))
    for label, fn in funcs:
        chk = icontract._checkers.find_checker(fn)
        if chk is None:
            out[label] = None
            continue
        out[label] = {
            "pre": tuple(tuple(token(c) for c in g) for g in chk.__preconditions__),
            "post": tuple(token(c) for c in chk.__postconditions__),
            "snap": tuple(token(s) for s in chk.__postcondition_snapshots__),
        }
    return out


class Entity:
    def __init__(self, name: str, spec: Dict[str, Any], is_class: bool) -> None:
        self.name = name
        self.spec = spec
        self.is_class = is_class
        self.lists = None  # type: Any
        self.behaviour = None  # type: Any
        self.battery = []  # type: List[Dict[str, Any]]


def observed_members(spec: Dict[str, Any]) -> List[Dict[str, Any]]:
    return list(spec.get("members", [])) + list(spec.get("aliases", []))


def all_ids_of(spec_class: Dict[str, Any]) -> List[str]:
    ids = [i["id"] for i in spec_class.get("invs", [])]
    for m in spec_class.get("members", []):
        for dk, c in m.get("decos", []):
            if dk in ("pre", "post"):
                ids.append(c["id"])
    return ids


def behaviour(hub: probe.Hub, module: Any, ent: Entity, known_ids: List[str]) -> List[Any]:
    """Run the fixed battery of probe calls on the entity and return [(truth-tag, op, events, outcome-type)]."""
    import inspect  # pylint: disable=import-outside-toplevel

    obj = getattr(module, ent.name)
    out = []
    truths = [("all-true", {})] + [("false:" + cid, {cid: False}) for cid in known_ids]
    truths += [("after-false:" + cid, {cid: {"seq": [True, False]}}) for cid in known_ids if cid.startswith("i")]
    for tag, truth in truths:
        ops = []
        if ent.is_class:
            ops.append(("construct", None))
            for m in observed_members(ent.spec):
                if m["name"] not in [o[1] for o in ops]:
                    ops.append(("call", m["name"]))
            ops.append(("setattr", "zz_attr"))
        else:
            ops.append(("func", None))
        for op, name in ops:
            inst = None
            if ent.is_class and op != "construct":
                hub.reset()
                try:
                    inst = obj()
                except BaseException as err:  # pylint: disable=broad-except
                    out.append((tag, op, name, "ctor-failed", type(err).__name__))
                    continue
            hub.reset()
            hub.truth = dict(truth)
            outcome = "return"
            try:
                if op == "construct":
                    obj()
                elif op == "func":
                    res = obj(Tok("self"), Tok("x")) if ent.spec.get("methodlike") else obj(Tok("x"))
                    if inspect.iscoroutine(res):
                        probe.drive(res)
                elif op == "setattr":
                    setattr(inst, name, 1)
                else:
                    raw = inspect.getattr_static(obj, name, None)
                    if isinstance(raw, property):
                        getattr(inst, name)
                        if raw.fset is not None:
                            setattr(inst, name, 2)
                    else:
                        res = getattr(inst, name)(Tok("x"))
                        if inspect.iscoroutine(res):
                            probe.drive(res)
            except BaseException as err:  # pylint: disable=broad-except
                outcome = "raise " + type(err).__name__
            out.append((tag, op, name, tuple(e.key() for e in hub.events if e.kind != "foreign"), outcome))
    return out


def make_step(rng, ids: gen.Ids, existing: List[Dict[str, Any]], member_pool: List[Tuple[str, str]]) -> Dict[str, Any]:
    """A class spec (or a function spec with key 'func')."""
    if rng.random() < 0.12:
        m = gen.make_member(ids, rng, "function", ids.new("f"), rng.random() < 0.2, rng.randint(0, 2), rng.randint(0, 2), rng.randint(0, 1),
                            params=[prog.P("x")], forms=["def", "lambda"])
        return {"func": m}
    from vkit.model import Model as _Model  # pylint: disable=import-outside-toplevel
    targets = [(c["name"], m["name"]) for c in existing for m in c.get("members", []) if m["kind"] == "method"]
    if targets and rng.random() < 0.18:
        # decorate a method of an already defined class afterwards (the decorators find the existing checker and add to it;
        # integrators do the same through add_*_to_checker)
        cname, mname = rng.choice(targets)
        return {"decorate": {"id": ids.new("x"), "cls": cname, "member": mname, "role": rng.choice(("pre", "pre", "post")),
                             "via": rng.choice(("decorator", "add_to_checker"))}}
    if existing and rng.random() < 0.12:
        # add an invariant to an already created class afterwards (the decorator applied to the existing class object)
        cname = rng.choice(existing)["name"]
        inv = {"id": ids.new("j"), "check_on": rng.choice(CHECK_ONS), "err": "instance", "self": rng.random() < 0.8,
               "form": rng.choice(("def", "lambda"))}
        return {"decorate_inv": {"cls": cname, "inv": inv}}
    name = ids.new("K")
    for _ in range(8):
        nb = rng.choice((0, 1, 1, 1, 2)) if existing else 0
        bases = rng.sample([c["name"] for c in existing], min(nb, len(existing)))
        try:
            _Model({"classes": existing + [{"name": name, "bases": bases, "members": []}]})
        except TypeError:
            continue  # inconsistent MRO
        break
    else:
        bases = []
    invs = []
    for _ in range(rng.choice((0, 0, 1, 1, 2, 3))):
        invs.append({"id": ids.new("i"), "check_on": rng.choice(CHECK_ONS), "err": "instance", "self": rng.random() < 0.8,
                     "form": rng.choice(("def", "lambda"))})
    members = []
    class_body = []
    aliases = []
    if bases and rng.random() < 0.35:
        # re-use members of a base as they are: an accessor added to an inherited property (@Base.p.setter keeps the base's
        # getter object) or a plain alias of an inherited function
        model = _Model({"classes": existing})
        b = bases[0]
        cands = []
        for k in model.mro(b):
            for m in model.classes[k].get("members", []):
                cands.append((k, m))
        rng.shuffle(cands)
        for k, m in cands[:1]:
            if m["kind"] == "pget" and rng.random() < 0.4:
                # the getter of an inherited property re-used for a property of the new class, under its own name or under the name of
                # another property of the ancestors
                others = [m2["name"] for _k2, m2 in cands if m2["kind"] == "pget" and m2["name"] != m["name"]]
                alias_name = rng.choice(others) if others and rng.random() < 0.7 else ids.new("m")
                class_body.append("{} = property({}.{}.fget)".format(alias_name, k, m["name"]))
                aliases.append({"name": alias_name, "kind": "pget", "params": m["params"], "decos": []})
            elif m["kind"] == "pget":
                ext = gen.make_member(ids, rng, "pset", m["name"], False, rng.randint(0, 1) if False else 0, rng.randint(0, 1), 0,
                                      forms=["def", "lambda"], errs=["instance", "default"], params=[prog.P("self"), prog.P("value")])
                ext["ext_of"] = k
                members.append(ext)
            elif m["kind"] == "method":
                # under its own name, under the name of ANOTHER method of the ancestors (which it overrides thereby), or under a new name
                others = [m2["name"] for _k2, m2 in cands if m2["kind"] == "method" and m2["name"] != m["name"]]
                how = rng.random()
                alias_name = m["name"]
                if how < 0.35 and others:
                    alias_name = rng.choice(others)
                elif how < 0.45:
                    alias_name = ids.new("m")
                class_body.append("{} = {}.{}".format(alias_name, k, m["name"]))
                aliases.append({"name": alias_name, "kind": "method", "params": m["params"], "decos": []})
    if existing and rng.random() < 0.08:
        # a method of an UNRELATED class re-used as it is (possibly under a name which the bases of the new class know as well)
        model = _Model({"classes": existing})
        related = {k for b in bases for k in model.mro(b)}
        donors = [(c["name"], m) for c in existing if c["name"] not in related for m in c.get("members", []) if m["kind"] == "method"]
        if donors:
            k, m = rng.choice(donors)
            inherited = [m2["name"] for b in bases for k2 in model.mro(b) for m2 in model.classes[k2].get("members", []) if m2["kind"] == "method"]
            alias_name = rng.choice(inherited) if inherited and rng.random() < 0.6 else m["name"]
            if not any(a["name"] == alias_name for a in aliases):
                class_body.append("{} = {}.{}".format(alias_name, k, m["name"]))
                aliases.append({"name": alias_name, "kind": "method", "params": m["params"], "decos": []})
    for _ in range(rng.randint(0, 2)):
        if member_pool and rng.random() < 0.65:
            mname, kind = rng.choice(member_pool)
        else:
            kind = rng.choice(("method", "method", "static", "class", "pget"))
            mname = ids.new("m")
            member_pool.append((mname, kind))
        if any(m["name"] == mname for m in members) or any(a["name"] == mname for a in aliases):
            continue
        choice = rng.choice(("plain", "pre", "post", "both"))
        params = {"method": [prog.P("self"), prog.P("x")], "static": [prog.P("x")], "class": [prog.P("cls"), prog.P("x")],
                  "pget": [prog.P("self")]}[kind]
        m = gen.make_member(ids, rng, kind, mname, False, rng.randint(1, 2) if choice in ("pre", "both") else 0,
                            rng.randint(1, 2) if choice in ("post", "both") else 0, rng.randint(0, 1), forms=["def", "lambda"],
                            errs=["instance", "default", "factory"], params=params)
        members.append(m)
    return {"name": name, "bases": bases, "dbc": True, "invs": invs, "members": members, "class_body": class_body, "aliases": aliases}


def decorate_source(d: Dict[str, Any]) -> str:
    """Source of a step that adds a contract to a method of an existing class after the class was created."""
    cid, cname, mname = d["id"], d["cls"], d["member"]
    arg = "x" if d["role"] == "pre" else "result"
    deco = "require" if d["role"] == "pre" else "ensure"
    adder = "add_precondition_to_checker" if d["role"] == "pre" else "add_postcondition_to_checker"
    kw = "c_{c}, description={desc!r}, error=HUB.errinst({c!r})".format(c=cid, desc="D:" + cid)
    raw = "{}.__dict__[{!r}]".format(cname, mname)
    lines = ["def c_{c}({a}):\n    return HUB.cond({c!r}, {{{a!r}: {a}}})\n".format(c=cid, a=arg), "try:"]
    if d["via"] == "decorator":
        lines.append("    {}.{} = icontract.{}({})({})".format(cname, mname, deco, kw, raw))
    else:
        lines.append("    _chk = icontract._checkers.find_checker({})".format(raw))
        lines.append("    if _chk is None:")
        lines.append("        {}.{} = icontract.{}({})({})".format(cname, mname, deco, kw, raw))
        lines.append("    else:")
        lines.append("        icontract._checkers.{}(checker=_chk, contract=icontract._types.Contract(condition=c_{}, description={!r}, "
                     "error=HUB.errinst({!r})))".format(adder, cid, "D:" + cid, cid))
    # a checker that already holds several (inherited) groups refuses further preconditions: the step then changes nothing
    lines.append("except AssertionError as HUB_err:\n    HUB.definition_failed({!r}, HUB_err)\n".format("decorate:" + cid))
    return "\n".join(lines) + "\n"


def decorate_inv_source(d: Dict[str, Any]) -> str:
    """Source of a step that applies the invariant decorator to an existing class."""
    out = []  # type: List[str]
    prog.render_helpers(d["inv"], "inv", out)
    text = prog.deco_text("inv", d["inv"])
    assert text.startswith("@")
    out.append("{}({})\n".format(text[1:], d["cls"]))
    return "".join(out)


def decorate_partial_source(d: Dict[str, Any]) -> str:
    """Source of a step that decorates a functools.partial object which binds an argument of an existing contracted function (or of
    a method of an existing class): a callable of its own, not a layer of the decorator stack of what it binds."""
    target = d["func"] if "cls" not in d else "{}.{}".format(d["cls"], d["member"])
    deco = "require(lambda: HUB.cond({!r}, {{}}))".format(d["id"]) if d["role"] == "pre" else "ensure(lambda result: HUB.cond({!r}, {{}}))".format(d["id"])
    return "PARTIAL_{i} = icontract.{deco}(functools.partial({t}))\n".format(i=d["id"], deco=deco, t=target)


def step_source(step: Dict[str, Any]) -> str:
    if "decorate_partial" in step:
        return decorate_partial_source(step["decorate_partial"])
    return decorate_inv_source(step["decorate_inv"]) if "decorate_inv" in step else decorate_source(step["decorate"])


def decoration_of(step: Dict[str, Any]) -> Optional[Dict[str, Any]]:
    # (a decorated partial object is no decoration of anything that exists: every earlier entity is protected)
    return step.get("decorate") or step.get("decorate_inv")


def affected_by_decoration(d: Dict[str, Any], ent: "Entity", class_specs: List[Dict[str, Any]]) -> bool:
    """The decorated class itself and its subclasses legitimately change (the statement protects bases, siblings, unrelated)."""
    if not ent.is_class:
        return False
    model = Model({"classes": class_specs})
    if d["cls"] in model.mro(ent.name):
        return True
    if "member" not in d:
        return False
    # ... and so does every class which holds the very function object that is decorated (``name = Other.member`` in its body or in
    # the body of one of its ancestors): whoever decorates a shared function decorates it for all its holders
    specs = {c["name"]: c for c in class_specs}

    def aliases_of(cname):
        out = {}
        for line in specs[cname].get("class_body", []):
            alias, _, donor = line.partition(" = ")
            if not donor.startswith("property("):
                out[alias] = tuple(donor.split("."))
        return out

    def identity(cname, name, depth=0):
        """The class whose body defined the function found as ``cname.name``."""
        if depth > 20:
            return None
        for k in model.mro(cname):
            if name in aliases_of(k):
                donor, donor_name = aliases_of(k)[name]
                return identity(donor, donor_name, depth + 1)
            if any(m["name"] == name for m in specs[k].get("members", [])):
                return (k, name)
        return None

    decorated = identity(d["cls"], d["member"])
    if decorated is None:
        return False
    for k in model.mro(ent.name):
        for alias in aliases_of(k):
            if identity(k, alias) == decorated:
                return True
    return False


def classify(hist: List[Dict[str, Any]], victim: Entity, culprit_step: Dict[str, Any], changed: str) -> str:
    """Mechanism key for a leak."""
    if "decorate_inv" in culprit_step:
        # mechanism: the invariant decorator finds the lists of a base through attribute look-up and appends to them
        return "C17/invariant-added-afterwards-appended-to-the-lists-of-a-base"
    if "decorate" in culprit_step:
        # mechanism: the checker of an overriding member shares (precondition group) lists with the checker of the base member
        return "C17/contract-added-to-override-afterwards-leaks-into-base"
    if "name" in culprit_step and any("." not in line.split(" = ")[1] for line in culprit_step.get("class_body", [])):
        # mechanism: a contracted function defined OUTSIDE any class is used as a member; the contracts which the bases of the new class
        # declare for that name are merged into its checker - the function's own, shared with every other class that uses it
        holders = {victim.name} if not victim.is_class else {line.split(" = ")[1] for line in victim.spec.get("class_body", [])}
        if {line.split(" = ")[1] for line in culprit_step.get("class_body", []) if "." not in line.split(" = ")[1]} & holders:
            return "C17/function-defined-outside-any-class-shared-as-a-member-gets-the-contracts-of-the-new-bases"
    if "name" in culprit_step and any(line.split(" = ")[0] != line.split(".")[-1].rstrip(")") for line in culprit_step.get("class_body", [])):
        # the culprit re-uses a function object of another class under another name / from an unrelated hierarchy
        return "C17/reused-member-of-another-class-merged-with-the-contracts-of-the-new-bases"
    if "name" in culprit_step and victim.is_class and changed in ("__invariants_on_setattr__", "__invariants_on_call__", "__invariants__", "behaviour"):
        # the culprit is a subclass (direct or indirect) of the victim decorated with an invariant of a check_on kind for
        # which the victim's own list is empty (so the subclass found the base's empty list through attribute lookup)
        model = Model({"classes": [s for s in hist if "name" in s]})
        if victim.name in model.mro(culprit_step["name"])[1:] and culprit_step.get("invs"):
            kinds_victim = {i.get("check_on") for i in model.eff_invs(victim.name)}
            has_call = bool(kinds_victim & {"CALL", "ALL"})
            has_set = bool(kinds_victim & {"SETATTR", "ALL"})
            new_kinds = {i.get("check_on") for i in culprit_step["invs"]}
            if (not has_set and new_kinds & {"SETATTR", "ALL"}) or (not has_call and new_kinds & {"CALL", "ALL"}):
                return "C17/empty-inherited-invariant-list-shared-with-subclass"
    if "name" in culprit_step and (culprit_step.get("aliases") or any(m.get("ext_of") for m in culprit_step.get("members", []))):
        # the culprit re-uses a function object of an ancestor (alias / accessor kept by @Base.prop.setter)
        return "C17/reused-base-member-merged-with-itself"
    return "C17/earlier-definition-changed/" + changed.strip("_")


def run_history(w, hist_index: int) -> None:
    rng = w.rng
    ids = gen.Ids()
    hub = probe.Hub()
    scratch = w.scratch()
    first = prog.load_source(prog.PRELUDE, scratch, hub)
    module = first.module
    paths = [first.path]
    entities = []  # type: List[Entity]
    hist = []  # type: List[Dict[str, Any]]
    class_specs = []  # type: List[Dict[str, Any]]
    member_pool = []  # type: List[Tuple[str, str]]
    n_steps = rng.randint(3, 12)
    try:
        for step_no in range(n_steps):
            step = make_step(rng, ids, class_specs, member_pool)
            if "decorate_inv" in step:
                spec = None
                name = "decorate_inv:" + step["decorate_inv"]["inv"]["id"]
                w.count("decorations_afterwards")
                w.count("invariants_added_afterwards")
            elif "decorate_partial" in step:
                spec = None
                name = "decorate_partial:" + step["decorate_partial"]["id"]
            elif "decorate" in step:
                spec = None
                name = "decorate:" + step["decorate"]["id"]
                w.count("decorations_afterwards")
            elif "func" in step:
                spec = {"funcs": [step["func"]], "classes": []}
                name = step["func"]["name"]
            else:
                # skip classes the model says must be rejected: histories consist of valid definitions
                trial = Model({"classes": class_specs + [step]})
                if trial.class_rejection(step["name"]) is not None:
                    continue
                spec = {"funcs": [], "classes": [step]}
                name = step["name"]
            src = prog.render(spec)[len(prog.PRELUDE):] if spec is not None else step_source(step)
            if step.get("in_function") and "name" in step:
                src = in_function_body(src, step["name"])
            path = os.path.join(scratch, "hist_{}_{}_{}.py".format(os.getpid(), hist_index, step_no))
            with open(path, "w") as fid:
                fid.write(src)
            paths.append(path)
            hub.creation_errors.pop(name, None)
            exec(compile(src, path, "exec"), module.__dict__)  # pylint: disable=exec-used
            w.count("steps")
            hist.append(step)
            if name in hub.creation_errors and decoration_of(step) is None:
                # a definition the model accepts but the library rejects is C04's business; drop the step
                hist.pop()
                continue
            # re-observe every earlier entity
            for ent in entities:
                if decoration_of(step) is not None and affected_by_decoration(decoration_of(step), ent, class_specs):
                    # the decorated class and its subclasses: take the new observation as their reference
                    ent.lists = introspect(getattr(module, ent.name), observed_members(ent.spec), ent.is_class)
                    ent.behaviour = behaviour(hub, module, ent, ent.battery_ids)
                    continue
                w.count("reobservations")
                if decoration_of(step) is not None:
                    w.count("reobservations_after_decoration")
                has_contracts = any(v for v in (ent.lists or {}).values())
                w.case((hist_index, step_no, ent.name) if has_contracts else None)
                now_lists = introspect(getattr(module, ent.name), observed_members(ent.spec), ent.is_class)
                case = {"history": hist, "victim": ent.name, "step": step_no}
                if now_lists != ent.lists:
                    changed = next(k for k in now_lists if now_lists[k] != ent.lists.get(k))
                    w.violation(classify(hist, ent, step, changed),
                                "after defining {} the introspection list {} of the earlier {} changed from {} to {}".format(
                                    name, changed, ent.name, ent.lists.get(changed), now_lists[changed]), case)
                    ent.lists = now_lists
                now_beh = behaviour(hub, module, ent, ent.battery_ids)
                if now_beh != ent.behaviour:
                    i = next(k for k in range(len(now_beh)) if now_beh[k] != ent.behaviour[k])
                    w.violation(classify(hist, ent, step, "behaviour"),
                                "after defining {} the probe call {} on the earlier {} changed from {} to {}".format(
                                    name, now_beh[i][:3], ent.name, ent.behaviour[i][3:], now_beh[i][3:]), case)
                    ent.behaviour = now_beh
            # record the new entity
            if decoration_of(step) is not None or "decorate_partial" in step:
                continue
            if "func" in step:
                ent = Entity(name, {"members": [], "methodlike": bool(step.get("methodlike"))}, False)
                ent.battery_ids = [c["id"] for dk, c in step["func"]["decos"] if dk in ("pre", "post")]
            else:
                class_specs.append(step)
                ent = Entity(name, step, True)
                model = Model({"classes": class_specs})
                bids = []
                for k in model.mro(name):
                    for cid in all_ids_of(model.classes[k]):
                        if cid not in bids:
                            bids.append(cid)
                ent.battery_ids = bids[:10]
            ent.lists = introspect(getattr(module, name), observed_members(ent.spec), ent.is_class)
            ent.behaviour = behaviour(hub, module, ent, ent.battery_ids)
            w.count("battery_calls", len(ent.behaviour))
            entities.append(ent)
        if hist_index % 25 == 0 and entities:
            w.sample({"history": [s.get("name") or (s["func"]["name"] if "func" in s else "decorate " + decoration_of(s)["cls"]) for s in hist],
                      "bases": {s["name"]: s["bases"] for s in hist if "name" in s},
                      "first_entity_lists": entities[0].lists})
    finally:
        first.unload()
        for p in paths[1:]:
            try:
                os.unlink(p)
            except OSError:
                pass


def fixed_histories():
    """Hand-written histories for orders of definition and decoration that random histories hit too rarely."""
    root_style = ["dbc"]

    def cls(name, bases, invs=()):
        spec = {"name": name, "bases": list(bases), "dbc": True, "invs": list(invs), "class_body": [], "aliases": [],
                "members": [{"name": "m_" + name[-1], "kind": "method", "async": False, "params": [prog.P("self"), prog.P("x")], "decos": []}]}
        if not bases:
            # the root of the hierarchy derives from DBC, or is created through the meta-class directly
            spec["root"] = root_style[0]
        return spec

    def inv(iid, check_on):
        return {"id": iid, "check_on": check_on, "err": "instance", "self": True, "form": "def"}

    for style in ("dbc", "metaclass"):
      root_style[0] = style
      for base_kind in CHECK_ONS:
        for sub_kind in CHECK_ONS:
            # the base gets its invariant only after the subclasses exist; then a subclass is decorated
            yield ("base-decorated-after-subclasses", base_kind, sub_kind, style), [
                cls("KA", []), cls("KB", ["KA"]), cls("KC", ["KA"]),
                {"decorate_inv": {"cls": "KA", "inv": inv("ja", base_kind)}},
                {"decorate_inv": {"cls": "KB", "inv": inv("jb", sub_kind)}},
                cls("KD", ["KA"], [inv("jd", sub_kind)]),
                {"decorate_inv": {"cls": "KC", "inv": inv("jc", sub_kind)}},
            ]
            # base with invariants of one kind only; subclasses decorated with the other kind, a sibling created afterwards
            yield ("sibling-created-after-decoration", base_kind, sub_kind, style), [
                cls("KA", [], [inv("ja", base_kind)]), cls("KL", ["KA"], [inv("jl", sub_kind)]),
                cls("KR", ["KA"], [inv("jr", sub_kind)]), cls("KS", ["KA"]),
                {"decorate_inv": {"cls": "KS", "inv": inv("js", sub_kind)}},
            ]


def fixed_histories_late_preconditions():
    """Overrides of members whose bases state no precondition (they accept every call) in two unrelated hierarchies; then a
    precondition is added to ONE of them afterwards: all the others keep accepting every call."""
    def post(cid):
        return ["post", {"id": cid, "form": "def", "args": ["result"], "err": "instance"}]

    def cls(name, bases, member, decos):
        return {"name": name, "bases": list(bases), "dbc": True, "invs": [], "class_body": [], "aliases": [],
                "members": [{"name": member, "kind": "method", "async": False, "params": [prog.P("self"), prog.P("x")], "decos": decos}]}

    for via in ("decorator", "add_to_checker"):
        for target in ("KB", "KQ"):
            yield ("precondition-added-afterwards-to-an-override-of-an-accept-all-member", via, target), [
                cls("KA", [], "m_a", [post("ea")]), cls("KB", ["KA"], "m_a", [post("eb")]), cls("KC", ["KA"], "m_a", [post("ec")]),
                cls("KP", [], "m_p", []), cls("KQ", ["KP"], "m_p", [post("eq")]),
                {"decorate": {"id": "xlate", "cls": target, "member": "m_a" if target == "KB" else "m_p", "role": "pre", "via": via}},
                cls("KD", ["KA"], "m_a", [post("ed")]),
            ]


def fixed_histories_joins():
    """A class which joins a base that states no precondition for a member (it accepts every call) with a base that does, in both
    orders, and overrides the member (every kind of member, accessors of properties included): both bases keep what they stated."""
    params = {"method": [prog.P("self"), prog.P("x")], "static": [prog.P("x")], "class": [prog.P("cls"), prog.P("x")],
              "pget": [prog.P("self")], "pset": [prog.P("self"), prog.P("value")], "pdel": [prog.P("self")]}
    first_arg = {"method": "x", "static": "x", "class": "x", "pget": "self", "pset": "value", "pdel": "self"}

    def cls(name, bases, kind, decos):
        members = []
        if kind in ("pset", "pdel"):
            members.append({"name": "m_j", "kind": "pget", "async": False, "params": params["pget"], "decos": []})
        members.append({"name": "m_j", "kind": kind, "async": False, "params": params[kind], "decos": decos})
        return {"name": name, "bases": list(bases), "dbc": True, "invs": [], "class_body": [], "aliases": [], "members": members}

    for kind in ("method", "static", "class", "pget", "pset", "pdel"):
        def pre(cid):
            return ["pre", {"id": cid, "form": "def", "args": [first_arg[kind]], "err": "instance"}]  # pylint: disable=cell-var-from-loop

        def post(cid):
            return ["post", {"id": cid, "form": "def", "args": ["result"], "err": "instance"}]

        for order in (["KT", "KS"], ["KS", "KT"]):
            for own_tag, own in (("plain-override", []), ("override-with-postcondition", [post("ej")])):
                yield ("join-of-an-accept-all-base-and-a-base-with-preconditions", kind, "-".join(order), own_tag), [
                    cls("KT", [], kind, [post("et")]), cls("KS", [], kind, [pre("rs"), post("es")]), cls("KU", [], kind, [pre("ru")]),
                    cls("KJ", order, kind, own), cls("KV", ["KU"] + order, kind, own),
                ]


def in_function_body(src: str, name: str) -> str:
    """The class is created inside the body of a function (a factory, a test function): its members carry `<locals>` in their
    qualified names."""
    body = "\n".join(("    " + line if line.strip() else line) for line in src.split("\n"))
    return "def make_{n}():\n{b}\n    return {n}\n\n\n{n} = make_{n}()\n".format(n=name, b=body)


def fixed_histories_reuse():
    """A member of an existing class re-used as it is in a new class: under the name of another member of the ancestors (which it
    overrides thereby), or in an unrelated hierarchy whose bases declare contracts for that name. The class which defined the
    function shares it with the new class - and keeps its contracts."""
    def pre(cid, arg):
        return ["pre", {"id": cid, "form": "def", "args": [arg], "err": "instance"}]

    def post(cid):
        return ["post", {"id": cid, "form": "def", "args": ["result"], "err": "instance"}]

    for kind, arg, params in (("method", "x", [prog.P("self"), prog.P("x")]), ("pget", "self", [prog.P("self")])):
        def member(name, decos):
            return {"name": name, "kind": kind, "async": False, "params": params, "decos": decos}  # pylint: disable=cell-var-from-loop

        def cls(name, bases, members, class_body=(), aliases=()):
            return {"name": name, "bases": list(bases), "dbc": True, "invs": [], "class_body": list(class_body),
                    "aliases": [member(a, []) for a in aliases], "members": members}

        donor = "KA.m_a" if kind == "method" else "property(KA.m_a.fget)"
        yield ("member-re-used-under-the-name-of-another-member", kind), [
            cls("KA", [], [member("m_a", [pre("ra", arg), post("ea")]), member("m_b", [pre("rb", arg), post("eb")])]),
            cls("KB", ["KA"], [], ["m_b = " + donor], ["m_b"]),
            cls("KC", ["KA"], [], ["m_c = " + donor], ["m_c"]),
        ]
        yield ("member-re-used-in-an-unrelated-hierarchy", kind), [
            cls("KA", [], [member("m_a", [pre("ra", arg), post("ea")])]),
            cls("KU", [], [member("m_a", [pre("ru", arg), post("eu")]), member("m_b", [post("ev")])]),
            cls("KD", ["KU"], [], ["m_a = " + donor], ["m_a"]),
            cls("KE", ["KU"], [], ["m_b = " + donor], ["m_b"]),
        ]
        # the same with every class created inside the body of a function
        yield ("member-re-used-under-the-name-of-another-member/classes-made-in-functions", kind), [
            dict(cls("KA", [], [member("m_a", [pre("ra", arg), post("ea")]), member("m_b", [pre("rb", arg), post("eb")])]), in_function=True),
            dict(cls("KB", ["KA"], [], ["m_b = " + donor], ["m_b"]), in_function=True),
        ]
        yield ("member-re-used-in-an-unrelated-hierarchy/classes-made-in-functions", kind), [
            dict(cls("KA", [], [member("m_a", [pre("ra", arg), post("ea")])]), in_function=True),
            dict(cls("KU", [], [member("m_a", [pre("ru", arg), post("eu")])]), in_function=True),
            dict(cls("KD", ["KU"], [], ["m_a = " + donor], ["m_a"]), in_function=True),
        ]


def fixed_histories_shared_function():
    """A contracted function defined outside any class which two classes use as a member (`m_s = f_shared` in their bodies), the
    second one in a hierarchy whose base declares contracts for that name: the first class and the function itself keep theirs."""
    def pre(cid, arg="x"):
        return ["pre", {"id": cid, "form": "def", "args": [arg], "err": "instance"}]

    def post(cid):
        return ["post", {"id": cid, "form": "def", "args": ["result"], "err": "instance"}]

    params = [prog.P("self"), prog.P("x")]

    def cls(name, bases, members, class_body=(), aliases=()):
        return {"name": name, "bases": list(bases), "dbc": True, "invs": [], "class_body": list(class_body),
                "aliases": [{"name": a, "kind": "method", "params": params, "decos": []} for a in aliases], "members": members}

    shared = {"func": {"name": "f_shared", "kind": "function", "async": False, "params": params, "decos": [pre("rf"), post("ef")]}, "methodlike": True}
    base_member = {"name": "m_s", "kind": "method", "async": False, "params": params, "decos": [pre("ru"), post("eu")]}
    yield ("module-level-function-shared-by-two-classes",), [
        shared, cls("KA", [], [], ["m_s = f_shared"], ["m_s"]), cls("KU", [], [base_member]),
        cls("KB", ["KU"], [], ["m_s = f_shared"], ["m_s"]),
    ]
    plain = {"func": {"name": "f_bound", "kind": "function", "async": False, "params": [prog.P("x")], "decos": [pre("rb"), post("eb")]}}
    owner = cls("KM", [], [{"name": "m_s", "kind": "method", "async": False, "params": params, "decos": [pre("rm"), post("em")]}])
    yield ("partial-objects-decorated-afterwards",), [
        plain, owner, cls("KN", ["KM"], []),
        {"decorate_partial": {"id": "xp1", "func": "f_bound", "role": "pre"}},
        {"decorate_partial": {"id": "xp2", "func": "f_bound", "role": "post"}},
        {"decorate_partial": {"id": "xp3", "cls": "KM", "member": "m_s", "role": "pre"}},
        {"decorate_partial": {"id": "xp4", "cls": "KN", "member": "m_s", "role": "post"}},
    ]
    yield ("module-level-function-used-by-a-class-with-stating-bases-first",), [
        shared, cls("KU", [], [base_member]), cls("KB", ["KU"], [], ["m_s = f_shared"], ["m_s"]),
        cls("KA", [], [], ["m_s = f_shared"], ["m_s"]), cls("KC", ["KU"], [], ["m_s = f_shared"], ["m_s"]),
    ]


def run(w) -> None:
    if w.shard == 4 % w.nshards:
        for meta, hist in fixed_histories_shared_function():
            w.count("histories")
            w.count("fixed_histories")
            w.fixed_meta = meta
            replay({"history": hist, "fixed": list(meta)}, w)
    if w.shard == 3 % w.nshards:
        for meta, hist in fixed_histories_reuse():
            w.count("histories")
            w.count("fixed_histories")
            w.fixed_meta = meta
            replay({"history": hist, "fixed": list(meta)}, w)
    if w.shard == 2 % w.nshards:
        for meta, hist in fixed_histories_joins():
            w.count("histories")
            w.count("fixed_histories")
            w.fixed_meta = meta
            replay({"history": hist, "fixed": list(meta)}, w)
    if w.shard == 1 % w.nshards:
        for meta, hist in fixed_histories_late_preconditions():
            w.count("histories")
            w.count("fixed_histories")
            w.fixed_meta = meta
            replay({"history": hist, "fixed": list(meta)}, w)
    if w.shard == 0:
        for meta, hist in fixed_histories():
            w.count("histories")
            w.count("fixed_histories")
            w.fixed_meta = meta
            replay({"history": hist, "fixed": list(meta)}, w)
    n = 20000 if w.tier == "thorough" else 800
    for i in range(n):
        if i % w.nshards != w.shard:
            continue
        w.count("histories")
        run_history(w, i)
    w.exhaustive = False


def replay(case, w) -> None:
    """Re-run the recorded history step by step with the same observations."""
    hist = case["history"]
    hub = probe.Hub()
    scratch = w.scratch()
    first = prog.load_source(prog.PRELUDE, scratch, hub)
    module = first.module
    entities = []  # type: List[Entity]
    class_specs = []  # type: List[Dict[str, Any]]
    try:
        for step_no, step in enumerate(hist):
            if "decorate_inv" in step:
                spec = None
                name = "decorate_inv:" + step["decorate_inv"]["inv"]["id"]
            elif "decorate_partial" in step:
                spec = None
                name = "decorate_partial:" + step["decorate_partial"]["id"]
            elif "decorate" in step:
                spec = None
                name = "decorate:" + step["decorate"]["id"]
            elif "func" in step:
                spec = {"funcs": [step["func"]], "classes": []}
                name = step["func"]["name"]
            else:
                spec = {"funcs": [], "classes": [step]}
                name = step["name"]
            src = prog.render(spec)[len(prog.PRELUDE):] if spec is not None else step_source(step)
            if step.get("in_function") and "name" in step:
                src = in_function_body(src, step["name"])
            path = os.path.join(scratch, "replay_{}.py".format(step_no))
            with open(path, "w") as fid:
                fid.write(src)
            exec(compile(src, path, "exec"), module.__dict__)  # pylint: disable=exec-used
            w.count("steps")
            for ent in entities:
                if decoration_of(step) is not None and affected_by_decoration(decoration_of(step), ent, class_specs):
                    ent.lists = introspect(getattr(module, ent.name), observed_members(ent.spec), ent.is_class)
                    ent.behaviour = behaviour(hub, module, ent, ent.battery_ids)
                    continue
                w.count("reobservations")
                w.case(("replayed", str(case.get("fixed")), step_no, ent.name) if any(v for v in (ent.lists or {}).values()) else None)
                now_lists = introspect(getattr(module, ent.name), observed_members(ent.spec), ent.is_class)
                if now_lists != ent.lists:
                    changed = next(k for k in now_lists if now_lists[k] != ent.lists.get(k))
                    w.violation(classify(hist[: step_no + 1], ent, step, changed), "lists of {} changed after defining {}".format(ent.name, name), case)
                    ent.lists = now_lists
                now_beh = behaviour(hub, module, ent, ent.battery_ids)
                if now_beh != ent.behaviour:
                    w.violation(classify(hist[: step_no + 1], ent, step, "behaviour"), "behaviour of {} changed after defining {}".format(ent.name, name), case)
                    ent.behaviour = now_beh
            if decoration_of(step) is not None or "decorate_partial" in step:
                continue
            if "func" in step:
                ent = Entity(name, {"members": [], "methodlike": bool(step.get("methodlike"))}, False)
                ent.battery_ids = [c["id"] for dk, c in step["func"]["decos"] if dk in ("pre", "post")]
            else:
                class_specs.append(step)
                ent = Entity(name, step, True)
                model = Model({"classes": class_specs})
                bids = []
                for k in model.mro(name):
                    for cid in all_ids_of(model.classes[k]):
                        if cid not in bids:
                            bids.append(cid)
                ent.battery_ids = bids[:10]
            ent.lists = introspect(getattr(module, name), observed_members(ent.spec), ent.is_class)
            ent.behaviour = behaviour(hub, module, ent, ent.battery_ids)
            entities.append(ent)
    finally:
        first.unload()
