"""C13 — async callables get the same contract semantics as sync ones (paired sync/async renderings)."""
import copy
import inspect
import sys
from typing import Any, Dict, List, Tuple

from vkit import gen, probe, prog, runner
from vkit.checks import c02, c04
from vkit.model import Model

ID = "C13"
LEVEL = "exploration"
SHARDS = {"quick": 8, "thorough": 16}
TIMEOUT = {"quick": 300, "thorough": 3400}
DECIDING = ["pairs_compared", "async_condition_forms_exercised", "async_on_sync_rejections", "events_compared"]
RULE = (
    "every generated program (plain function stacks with 0..4 pre/post and 0..2 snapshots; inheritance DAGs <=3 classes, sampled 4, "
    "with methods, static and class methods, invariants; all four error forms) is rendered twice - with `def` and with `async def` "
    "members, identical probes - and both are driven with identical truth assignments (ALL, cap 32/64) and body scripts (return, "
    "hostile results, raise incl. BaseException kinds and CancelledError); in the async twin conditions and captures are "
    "additionally turned at random into coroutine functions and into plain functions returning awaitables. Monitor: event traces "
    "and outcomes (return / body exception / which contract's error) of the two renderings are equal, and both equal the model. "
    "Sync callables with coroutine-function or awaitable-returning conditions/captures must raise ValueError without using the "
    "awaitable as a truth value. Non-trivial = pair in which at least one contract was evaluated; distinct = (program shape, "
    "callable, truth vector, body script)."
    ' Nested pairs: a public method that breaks the invariant temporarily and calls public members of the same obje'
    'ct (also through super()) gives the same trace and outcome as def and as async def.'
    ' Re-entrant function pairs: contracts which use the function they describe after the body made other checked calls (fixed point, factorial, mutual recursion, a method), driven by hand and inside a task; the nested pairs run inside a task as well.'
)
ASSUMPTIONS = ["async callables are driven by a deterministic trampoline; concurrency is C12's business"]


def asyncify(spec: Dict[str, Any], rng, convert_forms: bool) -> Dict[str, Any]:
    twin = copy.deepcopy(spec)

    def conv(m):
        if m["kind"] in ("function", "method", "static", "class"):
            m["async"] = True
            if convert_forms:
                for dk, c in m.get("decos", []):
                    if dk in ("pre", "post") and rng.random() < 0.4:
                        # coroutine conditions cannot be re-computed: they need an explicit error (documented)
                        if c.get("err", "default") in ("instance", "factory", "method"):
                            c["form"] = rng.choice(("adef", "aw", "awo"))
                    if dk == "snap" and rng.random() < 0.4:
                        c["form"] = rng.choice(("adef", "aw"))

    for m in twin.get("funcs", []):
        conv(m)
    for c in twin.get("classes", []):
        for m in c.get("members", []):
            conv(m)
    return twin


def outcome_of(loaded, contracts, obs: runner.Obs, ids: List[str]) -> Tuple[str, Any]:
    if obs.returned:
        return ("return", type(obs.value).__name__ if obs.value is not None else "None")
    if obs.exc is loaded.hub.last_body_exc:
        return ("body-exception", type(obs.exc).__name__)
    for cid in ids:
        if c04.error_matches(loaded, contracts, obs.exc, cid):
            return ("violation", cid)
    return ("other", "{}: {}".format(type(obs.exc).__name__, str(obs.exc)[:160]))


def compare_pair(w, sync_l, async_l, model_s: Model, model_a: Model, contracts_s, contracts_a, call: Dict[str, Any], ids: List[str], meta) -> None:
    obs_s = runner.perform(sync_l, model_s, call)
    obs_a = runner.perform(async_l, model_a, call)
    case = {"prog": model_s.prog, "async_prog": model_a.prog, "call": call, "meta": meta}
    if obs_s.setup_error or obs_a.setup_error:
        w.violation("C13/setup", str(obs_s.setup_error or obs_a.setup_error), case)
        return
    ks, ka = obs_s.keys(), obs_a.keys()
    w.count("pairs_compared")
    w.count("events_compared", len(ks))
    n_forms = sum(1 for e in ka if e[0] in ("cond", "snap") and contracts_a.get(e[1], {}).get("form") in ("adef", "aw", "awo"))
    w.count("async_condition_forms_exercised", n_forms)
    w.case((meta, call.get("name") or (call.get("cls"), call.get("key")), tuple(sorted((k, str(v)) for k, v in call.get("truth", {}).items())),
            str(sorted(call.get("body", {}).items()))) if any(k[0] in ("cond", "snap", "inv") for k in ks) else None)
    out_s = outcome_of(sync_l, contracts_s, obs_s, ids)
    out_a = outcome_of(async_l, contracts_a, obs_a, ids)
    detail = {"sync": obs_s.describe(), "async": obs_a.describe()}
    # lambdas are re-evaluated when violated; a coroutine-function twin of the same condition is not a lambda any more
    def norm(keys, contracts):
        out = []
        prev = None
        for k in keys:
            if k == prev and k[0] in ("cond", "inv"):
                continue
            out.append(k)
            prev = k
        return out
    awo_ids = {cid for cid, c in contracts_a.items() if c.get("form") == "awo"}
    not_awaited = [k for k in ks if k[0] == "cond" and k[1] in awo_ids and k not in ka]
    if not_awaited:
        # mechanism: only coroutine objects are awaited; another awaitable returned by a condition is judged as an object (truthy)
        w.violation("C13/awaitable-object-condition-not-awaited", "condition {} of the async callable returns an awaitable object which is not a "
                    "coroutine; it was not awaited (its verdict was never obtained)".format(not_awaited[0][1]), case, detail)
        return
    if norm(ks, contracts_s) != norm(ka, contracts_a):
        i = 0
        a, b = norm(ks, contracts_s), norm(ka, contracts_a)
        while i < len(a) and i < len(b) and a[i] == b[i]:
            i += 1
        w.violation("C13/traces-differ", "sync and async renderings diverge at event #{}: sync {} vs async {}".format(
            i, a[i] if i < len(a) else "<end>", b[i] if i < len(b) else "<end>"), case, detail)
    elif out_s != out_a:
        w.violation("C13/outcomes-differ", "sync outcome {} vs async outcome {}".format(out_s, out_a), case, detail)
    # and both agree with the model (ties the pair to the statement, not only to each other)
    exp = runner.expected_for(model_a, call)
    for d in runner.compare(async_l, model_a, contracts_a, call, exp, obs_a, check_identity=False):
        w.violation("C13/async-differs-from-model/" + d.kind, d.what, case, detail)
    if w.counters["pairs_compared"] % 307 == 1:
        w.sample({"call": call, "sync": obs_s.describe(), "async": obs_a.describe()})


def run_pair(w, spec, meta) -> None:
    rng = w.rng
    twin = asyncify(spec, rng, convert_forms=True)
    model_s, model_a = Model(spec), Model(twin)
    contracts_s, contracts_a = runner.index_contracts(spec), runner.index_contracts(twin)
    sync_l = prog.load(spec, w.scratch())
    async_l = prog.load(twin, w.scratch())
    cap = 64 if w.tier == "thorough" else 32
    try:
        for d in runner.check_definitions(async_l, model_a):
            w.violation("C13/definition", d.what, {"prog": twin})
        scripts = [{}, {"ret": "none"}, {"ret": "zero"}, {"raise": "BodyError"}, {"raise": "KeyboardInterrupt"}, {"raise": "CancelledError"},
                   {"raise": "GeneratorExit"}]
        for m in spec.get("funcs", []):
            ids = [c["id"] for dk, c in m["decos"] if dk in ("pre", "post")]
            for truth in gen.all_truth(ids, rng, cap):
                script = rng.choice(scripts)
                compare_pair(w, sync_l, async_l, model_s, model_a, contracts_s, contracts_a,
                             {"target": "func", "name": m["name"], "truth": truth, "body": {"*": script}}, ids, meta)
        kind = spec.get("kind")
        for cls in model_s.classes:
            if sync_l.get(cls) is None or async_l.get(cls) is None or kind in ("init", "new") or kind is None:
                continue
            key = spec["key"]
            if model_s.owner(cls, key) is None:
                continue
            ids = gen.effective_ids(model_s, cls, key)
            inv_ids = [i for i in ids if i.startswith("i")]
            for truth in gen.all_truth(ids, rng, cap):
                for iid in inv_ids:
                    if rng.random() < 0.5:
                        truth[iid] = {"seq": [["T", 0]] * 4 + [truth[iid]]} if truth[iid][0] == "F" and rng.random() < 0.5 else truth[iid]
                script = rng.choice(scripts)
                compare_pair(w, sync_l, async_l, model_s, model_a, contracts_s, contracts_a,
                             {"target": "member", "cls": cls, "key": key, "truth": truth, "body": {"*": script}}, ids, meta + (cls,))
    finally:
        sync_l.unload()
        async_l.unload()


def run_async_on_sync(w) -> None:
    """Coroutine conditions / captures on sync callables must be rejected with ValueError."""
    rng = w.rng
    ids = gen.Ids()
    funcs = []
    calls = []
    for role in ("pre", "post", "snap"):
        for form in ("adef", "aw"):
            for kind in ("function",):
                m = gen.make_member(ids, rng, kind, ids.new("f"), False, 1 if role == "pre" else 0, 1 if role in ("post", "snap") else 0,
                                    1 if role == "snap" else 0, forms=["def"], errs=["instance"], shuffle=False)
                for dk, c in m["decos"]:
                    if dk == role:
                        c["form"] = form
                funcs.append(m)
                calls.append({"target": "func", "name": m["name"], "truth": {}})
    classes = []
    for role in ("pre", "post", "snap"):
        for form in ("adef", "aw"):
            for kind in ("method", "static", "class", "pget", "init"):
                m = gen.make_member(ids, rng, kind, ids.new("m"), False, 1 if role == "pre" else 0, 1 if role in ("post", "snap") else 0,
                                    1 if role == "snap" else 0, forms=["def"], errs=["instance"], shuffle=False)
                for dk, c in m["decos"]:
                    if dk == role:
                        c["form"] = form
                cname = ids.new("K")
                classes.append(gen.chain_class(cname, [], [m]))
                if kind == "init":
                    calls.append({"target": "construct", "cls": cname, "truth": {}})
                else:
                    calls.append({"target": "member", "cls": cname, "key": m["name"] if kind != "pget" else m["name"] + ".pget", "truth": {}})
    spec = {"funcs": funcs, "classes": classes}
    model = Model(spec)
    contracts = runner.index_contracts(spec)
    loaded = prog.load(spec, w.scratch())
    try:
        for call in calls:
            exp, obs, discs = runner.run_case(loaded, model, contracts, call, check_identity=False)
            w.count("async_on_sync_rejections")
            w.case(("async-on-sync", str(sorted(call.items(), key=str))))
            for d in discs:
                w.violation("C13/coroutine-contract-on-sync-callable/" + d.kind, d.what, {"prog": spec, "call": call},
                            {"expected": repr(exp), "observed": obs.describe()})
    finally:
        loaded.unload()


INV_SOURCE = '''
import icontract

async def averdict(tag):
    HUB.log("averdict", tag, None, None)
    return False

{deco}
class K{base}:
    def __init__(self):
        self.x = 1
    def m(self):
        return "m"
    async def am(self):
        return "am"
'''

INV_DECOS = {
    "lambda-returning-coroutine": "@icontract.invariant(lambda self: averdict('i'))",
    "lambda-returning-coroutine-with-error": "@icontract.invariant(lambda self: averdict('i'), error=lambda self: KeyError('inv'))",
    "lambda-without-self-returning-coroutine": "@icontract.invariant(lambda: averdict('i'))",
}


def run_coroutine_invariants(w) -> None:
    """An invariant condition is evaluated synchronously: a coroutine it returns must be rejected, never taken as truthy."""
    import warnings  # pylint: disable=import-outside-toplevel

    for tag, deco in INV_DECOS.items():
        for base in ("", "(icontract.DBC)"):
            case = {"coroutine_invariant": tag, "base": base}
            w.count("async_on_sync_rejections")
            w.case(("coroutine-invariant", tag, base))
            with warnings.catch_warnings():
                warnings.simplefilter("ignore", RuntimeWarning)
                loaded = prog.load_source(INV_SOURCE.format(deco=deco, base=base), w.scratch())
                try:
                    outcomes = []
                    obj = None
                    try:
                        obj = loaded.module.K()
                        outcomes.append(("construct", "returned"))
                    except BaseException as err:  # pylint: disable=broad-except
                        outcomes.append(("construct", type(err).__name__))
                    if obj is not None:
                        for name in ("m", "am"):
                            try:
                                res = getattr(obj, name)()
                                if name == "am":
                                    res = probe.drive(res)
                                outcomes.append((name, "returned"))
                            except BaseException as err:  # pylint: disable=broad-except
                                outcomes.append((name, type(err).__name__))
                    if outcomes[0] != ("construct", "ValueError"):
                        w.violation("C13/coroutine-from-invariant-taken-as-truthy",
                                    "invariant {} ({}): the condition returns a coroutine (whose verdict would be False); outcomes {} - expected "
                                    "ValueError at the first evaluation".format(tag, base or "plain class", outcomes), case)
                finally:
                    loaded.unload()


SIGNATURE_SOURCE = '''
import icontract


def pre_x(x):
    return HUB.cond("pre_x", {"x": x})


def pre_k(k):
    return HUB.cond("pre_k", {"k": k})


def snap_x(x):
    return HUB.capture("snap_x", {"x": x})


def post_x(x, result, OLD):
    return HUB.cond("post_x", {"x": x, "result": result})


{a}def posonly_kwargs(x, /, **kwargs):
    return HUB.body("posonly_kwargs", {"x": x, "kwargs": kwargs})


{a}def posonly_default_kwargs(x=0, /, **kwargs):
    return HUB.body("posonly_default_kwargs", {"x": x, "kwargs": kwargs})


{a}def kwonly_after_varargs(x, *rest, k=10):
    return HUB.body("kwonly_after_varargs", {"x": x, "rest": rest, "k": k})


posonly_kwargs = icontract.snapshot(snap_x, name="s")(icontract.ensure(post_x, error=HUB.errinst("post_x"))(
    icontract.require(pre_x, error=HUB.errinst("pre_x"))(posonly_kwargs)))
posonly_default_kwargs = icontract.require(pre_x, error=HUB.errinst("pre_x"))(posonly_default_kwargs)
kwonly_after_varargs = icontract.require(pre_k, error=HUB.errinst("pre_k"))(icontract.require(pre_x, error=HUB.errinst("pre_x"))(kwonly_after_varargs))
'''

SIGNATURE_CALLS = [
    ("posonly_kwargs", (1,), {"x": -5}), ("posonly_kwargs", (-1,), {"x": 5}), ("posonly_kwargs", (2,), {"y": 3}),
    ("posonly_default_kwargs", (), {"x": 7}), ("posonly_default_kwargs", (3,), {"x": 7}),
    ("kwonly_after_varargs", (1, 2, 3), {}), ("kwonly_after_varargs", (1, 2), {"k": 4}), ("kwonly_after_varargs", (1,), {}),
]


def run_signature_pairs(w) -> None:
    """Argument binding seen by the contracts: the same calls on `def` and `async def` renderings of special signatures."""
    sync_l = prog.load_source(SIGNATURE_SOURCE.replace("{a}", ""), w.scratch())
    async_l = prog.load_source(SIGNATURE_SOURCE.replace("{a}", "async "), w.scratch())
    try:
        for name, args, kwargs in SIGNATURE_CALLS:
            traces = []
            for loaded in (sync_l, async_l):
                loaded.hub.reset()
                try:
                    res = getattr(loaded.module, name)(*args, **kwargs)
                    if inspect.iscoroutine(res):
                        res = probe.drive(res)
                    outcome = "return"
                except BaseException as err:  # pylint: disable=broad-except
                    outcome = "raise " + type(err).__name__
                traces.append(([(e.kind, e.id, repr(sorted((k, repr(v)) for k, v in (e.got or {}).items() if k != "OLD"))) for e in loaded.hub.events], outcome))
            w.count("pairs_compared")
            w.count("signature_pairs_compared")
            w.count("events_compared", len(traces[0][0]))
            w.case(("signature-pair", name, str(args), str(sorted(kwargs))))
            if traces[0] != traces[1]:
                w.violation("C13/contracts-of-the-async-rendering-see-other-arguments", "{}(*{}, **{}): sync {} vs async {}".format(
                    name, args, kwargs, traces[0], traces[1]), {"signature_pair": name, "args": list(args), "kwargs": kwargs})
    finally:
        sync_l.unload()
        async_l.unload()


NESTED_SOURCE = '''
import icontract


@icontract.invariant(lambda self: HUB.inv("inv", self) and self.x > 0)
class K(icontract.DBC):
    def __init__(self):
        self.x = 1

    {a}def inner(self):
        HUB.body("inner", {{"x": self.x}})
        return self.x

    @property
    def prop(self):
        HUB.body("prop", {{"x": self.x}})
        return self.x

    {a}def outer(self):
        """Breaks the invariant temporarily; calls other public members of the same object in between."""
        HUB.body("outer:start", {{"x": self.x}})
        self.x = -1
        first = {w}self.inner()
        second = self.prop
        self.x = 70
        HUB.body("outer:end", {{"x": self.x}})
        return (first, second)

    {a}def twice(self):
        return ({w}self.inner(), {w}self.outer())


class L(K):
    {a}def inner(self):
        HUB.body("L.inner", {{"x": self.x}})
        return {w}super().inner()
'''


def run_nested_pairs(w) -> None:
    """Public methods calling public members of the same object from their body (while the invariant is temporarily broken): the
    `async def` rendering must give the trace and the outcome of the `def` rendering."""
    sync_l = prog.load_source(NESTED_SOURCE.format(a="", w=""), w.scratch())
    async_l = prog.load_source(NESTED_SOURCE.format(a="async ", w="await "), w.scratch())
    try:
        import asyncio  # pylint: disable=import-outside-toplevel

        for cname, mname, how in [(c, m, h) for c in ("K", "L") for m in ("outer", "twice", "inner") for h in ("driven-by-hand", "in-a-task")]:
            if True:  # pylint: disable=using-constant-test
                traces = []
                for loaded in (sync_l, async_l):
                    obj = getattr(loaded.module, cname)()
                    loaded.hub.reset()
                    try:
                        res = getattr(obj, mname)()
                        if inspect.iscoroutine(res):
                            res = probe.drive(res) if how == "driven-by-hand" else asyncio.run(res)
                        outcome = "return {!r}".format(res)
                    except BaseException as err:  # pylint: disable=broad-except
                        outcome = "raise " + type(err).__name__
                    traces.append(([(e.kind, e.id) for e in loaded.hub.events], outcome))
                w.count("pairs_compared")
                w.count("nested_pairs_compared")
                w.count("events_compared", len(traces[0][0]))
                w.case(("nested-pair", cname, mname, how))
                if traces[0] != traces[1]:
                    w.violation("C13/nested-calls-on-the-same-object-differ-in-the-async-rendering", "{}().{}() ({}): sync {} vs async {}".format(
                        cname, mname, how, traces[0], traces[1]), {"nested_pair": mname})
    finally:
        sync_l.unload()
        async_l.unload()


REENTRANT_FUNCTIONS_SOURCE = '''
import icontract


@icontract.require(lambda x: HUB.cond("pre-clamp", {{"x": x}}))
{a}def clamp(x):
    HUB.body("clamp", {{"x": x}})
    return max(x, 0)


{a}def is_fixed_point(result):
    """A postcondition which uses the function it describes."""
    HUB.cond("post-normalize", {{"result": result}})
    return ({w}normalize(result)) == result


{a}def seen_before(x):
    HUB.capture("snap-normalize", {{"x": x}})
    return {w}normalize(0)


@icontract.snapshot(seen_before, name="zero")
@icontract.ensure(is_fixed_point)
@icontract.ensure(lambda OLD: OLD.zero == 0)
{a}def normalize(x):
    HUB.body("normalize", {{"x": x}})
    if x < 0:
        return {w}clamp(x)
    return x


{a}def smaller_is_fine(n):
    HUB.cond("pre-fact", {{"n": n}})
    return n <= 0 or ({w}fact(n - 1)) >= 1


{a}def grows(n, result):
    HUB.cond("post-fact", {{"n": n}})
    return n <= 0 or result >= ({w}fact(n - 1))


@icontract.require(smaller_is_fine)
@icontract.ensure(grows)
{a}def fact(n):
    HUB.body("fact", {{"n": n}})
    return 1 if n <= 0 else n * ({w}fact(n - 1))


{a}def pong_agrees(x):
    HUB.cond("pre-ping", {{"x": x}})
    return ({w}pong(x)) == x


{a}def ping_agrees(x, result):
    HUB.cond("post-pong", {{"x": x}})
    return ({w}ping(x)) == result


@icontract.require(pong_agrees)
{a}def ping(x):
    HUB.body("ping", {{"x": x}})
    return {w}clamp(x)


@icontract.ensure(ping_agrees)
{a}def pong(x):
    HUB.body("pong", {{"x": x}})
    return {w}clamp(x)


{a}def settled(self, result):
    HUB.cond("post-settle", {{"x": self.x}})
    return ({w}self.settle()) == result


@icontract.invariant(lambda self: HUB.inv("inv", self) and self.x >= 0)
class Box(icontract.DBC):
    def __init__(self):
        self.x = 1

    {a}def peek(self):
        HUB.body("peek", {{"x": self.x}})
        return self.x

    @icontract.ensure(settled)
    {a}def settle(self):
        HUB.body("settle", {{"x": self.x}})
        return ({w}self.peek()) + ({w}clamp(self.x))
'''

REENTRANT_CALLS = [("normalize", (5,)), ("normalize", (-3,)), ("normalize", (0,)), ("fact", (0,)), ("fact", (1,)), ("fact", (3,)), ("ping", (2,)),
                   ("ping", (-2,)), ("pong", (4,)), ("pong", (-1,)), ("settle", ())]


def run_reentrant_function_pairs(w) -> None:
    """Contracts which use the function they describe (after the body has made other checked calls), recursion from the body, mutually
    referring functions: the `async def` rendering must give the trace and the outcome of the `def` rendering - driven by hand (no
    event loop) as well as inside a task of a running event loop."""
    import asyncio  # pylint: disable=import-outside-toplevel

    sync_l = prog.load_source(REENTRANT_FUNCTIONS_SOURCE.format(a="", w=""), w.scratch())
    async_l = prog.load_source(REENTRANT_FUNCTIONS_SOURCE.format(a="async ", w="await "), w.scratch())
    old_limit = sys.getrecursionlimit()
    try:
        for name, args in REENTRANT_CALLS:
            for how in ("driven-by-hand", "in-a-task"):
                traces = []
                for loaded in (sync_l, async_l):
                    target = getattr(loaded.module.Box(), name) if name == "settle" else getattr(loaded.module, name)
                    loaded.hub.reset()
                    sys.setrecursionlimit(len(inspect.stack(0)) + 400)
                    try:
                        res = target(*args)
                        if inspect.iscoroutine(res):
                            res = probe.drive(res) if how == "driven-by-hand" else asyncio.run(res)
                        outcome = "return {!r}".format(res)
                    except BaseException as err:  # pylint: disable=broad-except
                        outcome = "raise " + type(err).__name__
                    finally:
                        sys.setrecursionlimit(old_limit)
                    traces.append(([(e.kind, e.id) for e in loaded.hub.events], outcome))
                w.count("pairs_compared")
                w.count("reentrant_function_pairs_compared")
                w.count("events_compared", len(traces[0][0]))
                w.case(("reentrant-function-pair", name, args, how))
                if traces[0] != traces[1]:
                    w.violation("C13/re-entrant-calls-differ-in-the-async-rendering", "{}{} ({}): sync {} vs async {}".format(
                        name, args, how, traces[0], traces[1]), {"reentrant_function_pair": name})
    finally:
        sys.setrecursionlimit(old_limit)
        sync_l.unload()
        async_l.unload()


ADAPTER_SOURCE = '''
import functools
import icontract


def adapter(func):
    """A third-party decorator between the contracts and the function: {what}."""
    @functools.wraps(func)
    {a}def wrapper(*args, **kwargs):
        HUB.log("foreign", "adapter", None, None)
        return func(*args, **kwargs)
    return wrapper


{a}def slow_pre(x):
    HUB.cond("pre2", {{"x": x}})
    return True


@icontract.require(lambda x: HUB.cond("pre", {{"x": x}}))
@icontract.require(slow_pre)
@icontract.snapshot(lambda x: HUB.capture("cap", {{"x": x}}), name="before")
@icontract.ensure(lambda result, OLD: HUB.cond("post", {{"result": result}}))
@adapter
def f(x):
    HUB.body("f", {{"x": x}})
    return x
'''


def run_adapter_pairs(w) -> None:
    """What is called - and has to be awaited - is the callable the contracts are applied to, not the function at the bottom of its
    `__wrapped__` chain: an `async def` adapter (functools.wraps) around a plain function is an async callable, its twin with a plain
    adapter a sync one; both give the same trace and outcome."""
    sync_l = prog.load_source(ADAPTER_SOURCE.format(a="", what="a plain wrapper"), w.scratch())
    async_l = prog.load_source(ADAPTER_SOURCE.format(a="async ", what="an async wrapper around the plain function"), w.scratch())
    try:
        for truth in ({}, {"pre": False}, {"pre2": False}, {"post": False}):
            traces = []
            for loaded in (sync_l, async_l):
                loaded.hub.reset()
                loaded.hub.truth = dict(truth)
                try:
                    res = loaded.module.f(probe.Tok("x"))
                    if inspect.iscoroutine(res):
                        res = probe.drive(res)
                    outcome = "return {!r}".format(res)
                except BaseException as err:  # pylint: disable=broad-except
                    outcome = "raise " + type(err).__name__
                traces.append(([(e.kind, e.id) for e in loaded.hub.events], outcome))
            w.count("pairs_compared")
            w.count("adapter_pairs_compared")
            w.count("events_compared", len(traces[0][0]))
            w.case(("adapter-pair", tuple(sorted(truth))))
            if traces[0] != traces[1]:
                w.violation("C13/async-adapter-over-a-plain-function-differs-from-its-sync-twin", "truth {}: sync {} vs async {}".format(
                    truth, traces[0], traces[1]), {"adapter_pair": sorted(truth)})
    finally:
        sync_l.unload()
        async_l.unload()


RESERVED_VARIADIC_SOURCE = '''
import icontract


@icontract.ensure(lambda: HUB.cond("post", {{}}))
{a}def star_result(*result):
    HUB.body("star_result", {{}})
    return 0


@icontract.require(lambda x: HUB.cond("pre", {{"x": x}}))
@icontract.snapshot(lambda x: HUB.capture("cap", {{"x": x}}), name="before")
@icontract.ensure(lambda: HUB.cond("post", {{}}))
{a}def kw_old(x, **OLD):
    HUB.body("kw_old", {{}})
    return x


@icontract.ensure(lambda: HUB.cond("post", {{}}))
{a}def kw_result(x, **result):
    HUB.body("kw_result", {{}})
    return x
'''


def run_reserved_variadic_pairs(w) -> None:
    """A variable parameter named `result` / `OLD` on a callable with postconditions: the `async def` rendering refuses the call - or
    does not - exactly as the `def` rendering does, whether the parameter receives anything or not."""
    sync_l = prog.load_source(RESERVED_VARIADIC_SOURCE.format(a=""), w.scratch())
    async_l = prog.load_source(RESERVED_VARIADIC_SOURCE.format(a="async "), w.scratch())
    try:
        for name, args, kwargs in (("star_result", (), {}), ("star_result", (1, 2), {}), ("kw_old", (1,), {}), ("kw_old", (1,), {"OLD": 2}),
                                   ("kw_old", (1,), {"other": 2}), ("kw_result", (1,), {}), ("kw_result", (1,), {"result": 2})):
            traces = []
            for loaded in (sync_l, async_l):
                loaded.hub.reset()
                try:
                    res = getattr(loaded.module, name)(*args, **kwargs)
                    if inspect.iscoroutine(res):
                        res = probe.drive(res)
                    outcome = "return {!r}".format(res)
                except BaseException as err:  # pylint: disable=broad-except
                    outcome = "raise " + type(err).__name__
                traces.append(([(e.kind, e.id) for e in loaded.hub.events], outcome))
            w.count("pairs_compared")
            w.count("reserved_variadic_pairs_compared")
            w.count("events_compared", len(traces[0][0]))
            w.case(("reserved-variadic-pair", name, args, tuple(sorted(kwargs))))
            if traces[0] != traces[1]:
                w.violation("C13/reserved-variadic-name-judged-differently-by-the-async-rendering", "{}(*{}, **{}): sync {} vs async {}".format(
                    name, args, kwargs, traces[0], traces[1]), {"reserved_variadic_pair": name})
    finally:
        sync_l.unload()
        async_l.unload()


def specs(w):
    rng = w.rng
    thorough = w.tier == "thorough"
    shapes = gen.dag_shapes(1) + gen.dag_shapes(2) + gen.dag_shapes(3)
    shapes4 = gen.dag_shapes(4)
    idx = 0
    for rnd in range(30 if thorough else 3):
        for _ in range(2):
            idx += 1
            if idx % w.nshards == w.shard:
                ids = gen.Ids()
                funcs = []
                for n_pre in range(0, 4):
                    for n_post in range(0, 5):
                        funcs.append(gen.make_member(ids, rng, "function", ids.new("f"), False, n_pre, n_post, rng.randint(0, 2) if n_post else 0,
                                                     forms=["def", "lambda"]))
                yield ("funcs",), {"funcs": funcs, "classes": []}
        for shape in shapes + rng.sample(shapes4, 30 if thorough else 10):
            for kind in ("method", "static", "class"):
                idx += 1
                if idx % w.nshards != w.shard:
                    continue
                ids = gen.Ids()
                yield (str(shape), kind), gen.hier_program(ids, rng, shape, kind, False, inv_prob=0.5 if kind == "method" else 0.1,
                                                           max_conj=4 if thorough else 3, avoid_mixed=True, forms=["def", "lambda"],
                                                           inv_check_ons=("CALL", "DEFAULT", "SETATTR", "ALL"))


def run(w) -> None:
    for meta, spec in specs(w):
        w.count("programs")
        run_pair(w, spec, meta)
    if w.shard == 0:
        run_async_on_sync(w)
        run_coroutine_invariants(w)
        run_signature_pairs(w)
        run_nested_pairs(w)
        run_reentrant_function_pairs(w)
        run_adapter_pairs(w)
        run_reserved_variadic_pairs(w)
    w.exhaustive = False


def replay(case, w) -> None:
    if "signature_pair" in case:
        run_signature_pairs(w)
        return
    if "nested_pair" in case:
        run_nested_pairs(w)
        return
    if "reserved_variadic_pair" in case:
        run_reserved_variadic_pairs(w)
        return
    if "adapter_pair" in case:
        run_adapter_pairs(w)
        return
    if "reentrant_function_pair" in case:
        run_reentrant_function_pairs(w)
        return
    if "coroutine_invariant" in case:
        run_coroutine_invariants(w)
        return
    if "async_prog" not in case:
        run_async_on_sync(w)
        return
    spec, twin = case["prog"], case["async_prog"]
    model_s, model_a = Model(spec), Model(twin)
    contracts_s, contracts_a = runner.index_contracts(spec), runner.index_contracts(twin)
    sync_l = prog.load(spec, w.scratch())
    async_l = prog.load(twin, w.scratch())
    try:
        call = case["call"]
        ids = list(contracts_s)
        compare_pair(w, sync_l, async_l, model_s, model_a, contracts_s, contracts_a, call, ids, tuple(case.get("meta", ())))
    finally:
        sync_l.unload()
        async_l.unload()
