"""C11 — checking is re-armed after every outcome: no sticky suspension, no lost error (fault enumeration)."""
import asyncio
import sys
from typing import Any, Dict, List, Optional, Tuple

from vkit import gen, probe, prog, runner
from vkit.checks import c04
from vkit.model import Model, decos_of
from vkit.prog import P

ID = "C11"
LEVEL = "fault_enumeration"
SHARDS = {"quick": 8, "thorough": 16}
TIMEOUT = {"quick": 400, "thorough": 3400}
DECIDING = ["faulted_runs", "fault_points_enumerated", "followup_calls"]
RULE = (
    "programs: functions and methods (sync and async, of classes with invariants, incl. __init__ and property accessors) carrying "
    "two preconditions, a snapshot, two postconditions with every error form and lambda/def/coroutine condition forms. For each "
    "call scenario (all contracts hold / a precondition fails / a postcondition fails / an invariant fails after the call / the "
    "body raises) a clean run records the ordered list of control-transfer points from the library into user code: every "
    "condition, invariant, capture, error factory and body call, the truth test (__bool__) of every condition result, every "
    "repr() of an argument during message building, every await inside async conditions/captures/bodies. Then for EVERY point x "
    "exception kind {ValueError, custom Exception, custom BaseException, KeyboardInterrupt, SystemExit, RecursionError, "
    "GeneratorExit; at awaits additionally asyncio.CancelledError thrown in and coroutine.close()} the call is re-run with the "
    "fault injected exactly there, followed by probe calls (same callable with all contracts true, same callable with a falsy "
    "precondition, another callable, a method of the same object); thorough adds sequences of 2..3 faulted calls before the "
    "probes. Monitors: (state) content of the library's in-progress set after the faulted call equals its content before; "
    "(behaviour) every follow-up call produces exactly the model's fresh-process trace and verdict; (surfacing) the caller gets "
    "the injected exception itself or a wrapper chaining it via __cause__; (growth) after 3000 finished calls in one context (and in one "
    "re-used context copy) the in-progress variable holds no more than 1000 entries - leftovers of finished calls must not accumulate; "
    "(out-of-order end) a hand-driven suspended call of another object is closed / cancelled / finalised / completed inside a method "
    "whose invariant is temporarily broken; (faulted __new__) constructions by __new__ alone that raise or cannot be bound; (line-level "
    "interrupts) sys.monitoring LINE events in icontract/_checkers.py raise a BaseException before EVERY executed line outside "
    "finally/except bodies of 23 fixed calls (function, async function, constructor, method, async method, property, __len__, SETATTR "
    "class, __new__-only class; satisfied and violated), each followed by the state monitor and 16 follow-up calls; a repr fault of kind Exception may be absorbed by the "
    "repr machinery if the contract's own violation error is raised. Non-trivial = faulted run (each is a distinct (program, "
    "scenario, point, kind)); exhaustive over the points of the generated programs."
    ' A fifth of the faulted runs and all their follow-ups are repeated while ANOTHER check of the same flow is in progress (inside a condition, inside a capture, inside the body of a method of an object with invariants).'
)
ASSUMPTIONS = ["the private name icontract._checkers._IN_PROGRESS is the only hook; if it is missing the state monitor is skipped and the "
               "behavioural monitor decides", "asyncio cancellation is modelled by throwing CancelledError into the coroutine at the await"]

KINDS = ["ValueError", "BodyError", "CustomBase", "KeyboardInterrupt", "SystemExit", "RecursionError", "GeneratorExit", "StopIteration", "AssertionError"]


class Closed(Exception):
    """The harness closed the coroutine at a suspension point."""


class Plan:
    """Counts control-transfer points; raises the planned exception at the target point."""

    def __init__(self) -> None:
        self.target = None  # type: Optional[int]
        self.kind = None  # type: Optional[str]
        self.n = 0
        self.points = []  # type: List[str]
        self.injected = None  # type: Optional[BaseException]
        self.injected_at = None  # type: Optional[str]
        self.active = False
        # a copy of the context taken at the latest control-transfer point of a faulted run, i.e. while the call was in flight
        self.copied_context = None  # type: Any

    def arm(self, target: Optional[int], kind: Optional[str]) -> None:
        self.target = target
        self.kind = kind
        self.n = 0
        self.points = []
        self.injected = None
        self.injected_at = None
        self.active = True
        self.copied_context = None

    def disarm(self) -> None:
        self.active = False
        self.target = None

    def make_exc(self) -> BaseException:
        if self.kind == "CancelledError":
            return asyncio.CancelledError("injected")
        return probe.EXC_KINDS[self.kind]("injected at point {}".format(self.n))

    def point(self, label: str) -> None:
        if not self.active:
            return
        idx = self.n
        self.n += 1
        self.points.append(label)
        if self.target is not None:
            import contextvars  # pylint: disable=import-outside-toplevel
            self.copied_context = contextvars.copy_context()
        if self.target is not None and idx == self.target and self.injected is None and not label.startswith("await:"):
            self.injected = self.make_exc()
            self.injected_at = label
            raise self.injected

    def await_point(self, label: str) -> Optional[Tuple[str, Any]]:
        if not self.active:
            return None
        idx = self.n
        self.n += 1
        self.points.append("await:" + label)
        if self.target is not None and idx == self.target and self.injected is None:
            self.injected_at = "await:" + label
            if self.kind == "close":
                self.injected = Closed("closed at " + label)
                return ("close", None)
            self.injected = self.make_exc()
            return ("throw", self.injected)
        return None


class FaultyTruth:
    def __init__(self, value: Any, plan: Plan, cid: str) -> None:
        self.value = value
        self.plan = plan
        self.cid = cid

    def __bool__(self) -> bool:
        self.plan.point("bool:" + self.cid)
        return bool(self.value)

    def __repr__(self) -> str:
        return "FaultyTruth({!r})".format(self.value)


class FaultHub(probe.Hub):
    def __init__(self, plan: Plan) -> None:
        super().__init__()
        self.plan = plan

    def cond(self, id_: str, got: Dict[str, Any]) -> Any:
        self.plan.point("cond:" + id_)
        return FaultyTruth(super().cond(id_, got), self.plan, id_)

    def inv(self, id_: str, instance: Any) -> Any:
        self.plan.point("inv:" + id_)
        return FaultyTruth(super().inv(id_, instance), self.plan, id_)

    def capture(self, id_: str, got: Dict[str, Any]) -> Any:
        self.plan.point("snap:" + id_)
        return super().capture(id_, got)

    def error(self, id_: str, got: Dict[str, Any]) -> Any:
        self.plan.point("error:" + id_)
        return super().error(id_, got)

    def body(self, id_: str, got: Dict[str, Any]) -> Any:
        self.plan.point("body:" + id_)
        return super().body(id_, got)


def make_driver(plan: Plan):
    def drive(coro: Any) -> Any:
        try:
            yielded = coro.send(None)
            while True:
                action = plan.await_point(getattr(yielded, "label", "?"))
                if action is None:
                    yielded = coro.send(None)
                elif action[0] == "throw":
                    yielded = coro.throw(action[1])
                else:
                    coro.close()
                    raise plan.injected
        except StopIteration as stop:
            return stop.value
    return drive


def make_program(rng, ids: gen.Ids, is_async: bool) -> Tuple[Dict[str, Any], List[Dict[str, Any]]]:
    """A small program and the list of base calls to fault."""
    forms = ["def", "lambda"] + (["adef", "aw"] if is_async else [])
    errs = ["default", "class", "instance", "factory", "method"]
    f = gen.make_member(ids, rng, "function", "f", is_async, 2, 2, 1, forms=forms, errs=errs, params=[P("x"), P("y", default=True)])
    g = gen.make_member(ids, rng, "function", "g", False, 1, 1, 0, forms=["def"], errs=["instance"], params=[P("x")])
    members = [
        gen.make_member(ids, rng, "init", "__init__", False, 1, 1, 0, forms=["def", "lambda"], errs=errs, params=[P("self"), P("x", default=True)]),
        gen.make_member(ids, rng, "method", "m", is_async, 2, 1, 1, forms=forms, errs=errs, params=[P("self"), P("x")]),
        gen.make_member(ids, rng, "method", "other", False, 1, 0, 0, forms=["def"], errs=["instance"], params=[P("self"), P("x")]),
        gen.make_member(ids, rng, "pget", "p", False, 1, 1, 0, forms=["def", "lambda"], errs=errs),
    ]
    invs = [gen.make_inv(ids, rng, errs=errs) for _ in range(2)]
    for inv in invs:
        inv["eargs"] = ["self"] if rng.random() < 0.5 else []
    dbc = rng.random() < 0.7
    cls = gen.chain_class("K", [], members, invs, dbc=dbc)
    classes = [cls]
    sub_calls = []
    if dbc:
        # a sub-class which weakens the precondition of ``m`` (two groups: a fault in a condition of the inherited group must surface
        # although the other group may admit the call)
        sub_m = gen.make_member(ids, rng, "method", "m", is_async, 1, 1, 0, forms=forms, errs=errs, params=[P("self"), P("x")])
        classes.append(gen.chain_class("K2", ["K"], [sub_m], [], dbc=True))
        sub_calls = [{"target": "member", "cls": "K2", "key": "m"}]
    spec = {"funcs": [f, g], "classes": classes}
    calls = sub_calls + [
        {"target": "func", "name": "f"},
        {"target": "member", "cls": "K", "key": "m"},
        {"target": "member", "cls": "K", "key": "p.pget"},
        {"target": "construct", "cls": "K"},
    ]
    return spec, calls


def scenarios(model: Model, call: Dict[str, Any], rng) -> List[Dict[str, Any]]:
    """Truth assignments / body scripts under which the call is faulted."""
    if call["target"] == "func":
        m = model.funcs[call["name"]]
        pre = [c["id"] for c in decos_of(m, "pre")]
        post = [c["id"] for c in decos_of(m, "post")]
        invs = []
    elif call["target"] == "construct":
        m = model.defines(call["cls"], "__init__")
        pre = [c["id"] for c in decos_of(m, "pre")]
        post = [c["id"] for c in decos_of(m, "post")]
        invs = [i["id"] for i in model.eff_invs(call["cls"])]
    else:
        o = model.owner(call["cls"], call["key"])
        m = model.defines(o, call["key"])
        pre = [c["id"] for g in model.eff_pre(o, call["key"]) for c in g]
        post = [c["id"] for c in model.eff_post(o, call["key"])]
        invs = [i["id"] for i in model.invs_on(call["cls"], "CALL")]
    out = [{"tag": "all-hold", "truth": {}, "body": {}}]
    if pre:
        out.append({"tag": "pre-fails", "truth": {pre[-1]: ["F", rng.randrange(11)]}, "body": {}})
    if post:
        out.append({"tag": "post-fails", "truth": {post[-1]: ["F", rng.randrange(11)]}, "body": {}})
    if invs:
        n_before = 1 if call["target"] == "member" else 0
        out.append({"tag": "inv-fails-after", "truth": {invs[-1]: {"seq": [["T", 0]] * n_before + [["F", rng.randrange(11)]]}}, "body": {}})
    out.append({"tag": "body-raises", "truth": {}, "body": {"*": {"raise": "BodyError"}}})
    return out


def in_progress_snapshot() -> Optional[frozenset]:
    import icontract._checkers as chk  # pylint: disable=import-outside-toplevel

    var = getattr(chk, "_IN_PROGRESS", None)
    if var is None or __import__("os").environ.get("VERIF_C11_NO_STATE") == "1":
        return None
    val = var.get()
    if not val:
        return frozenset()
    # (the marks are objects with a flow, a target and a liveness flag; older versions of the library kept plain ids)
    return frozenset((getattr(m, "flow", None), getattr(m, "target", m)) for m in val if getattr(m, "active", True))


def chained(exc: Optional[BaseException], injected: BaseException) -> bool:
    seen = 0
    while exc is not None and seen < 10:
        if exc is injected:
            return True
        exc = exc.__cause__
        seen += 1
    return False


def followups(model: Model, call: Dict[str, Any], rng) -> List[Dict[str, Any]]:
    out = []
    base = {k: v for k, v in call.items() if k not in ("truth", "body")}
    out.append(dict(base, truth={}))
    # the same callable with a falsy precondition must be rejected again
    if call["target"] == "func":
        pre = [c["id"] for c in decos_of(model.funcs[call["name"]], "pre")]
    elif call["target"] == "construct":
        pre = [c["id"] for c in decos_of(model.defines(call["cls"], "__init__"), "pre")]
    else:
        o = model.owner(call["cls"], call["key"])
        pre = [c["id"] for g in model.eff_pre(o, call["key"]) for c in g]
    if pre:
        out.append(dict(base, truth={pre[0]: ["F", 3]}))
    out.append({"target": "func", "name": "g", "truth": {}})
    out.append({"target": "member", "cls": "K", "key": "other", "truth": {}})
    return out


ENCLOSING_SOURCE = '''
import icontract


def runs(thunk):
    thunk()
    return True


@icontract.require(runs)
def inside_condition(thunk):
    return None


@icontract.snapshot(lambda thunk: runs(thunk), name="ran")
@icontract.ensure(lambda OLD: OLD.ran)
def inside_capture(thunk):
    return None


@icontract.invariant(lambda self: True)
class Enclosing:
    def inside_body(self, thunk):
        return thunk()
'''

ENCLOSURES = ("condition", "capture", "method-body")
_ENCLOSING = {}  # type: Dict[str, Any]


def enclosed(w, which: str, thunk) -> None:
    """Run the thunk while ANOTHER check of this very flow is in progress (inside a condition or a capture of another function, inside
    the body of a public method of an object with invariants): the calls made there end and are followed up like anywhere else."""
    if "loaded" not in _ENCLOSING:
        _ENCLOSING["loaded"] = prog.load_source(ENCLOSING_SOURCE, w.scratch())
    mod = _ENCLOSING["loaded"].module
    if which == "condition":
        mod.inside_condition(thunk)
    elif which == "capture":
        mod.inside_capture(thunk)
    else:
        mod.Enclosing().inside_body(thunk)


def run_program(w, prog_index: int, is_async: bool) -> None:
    rng = w.rng
    ids = gen.Ids()
    spec, calls = make_program(rng, ids, is_async)
    model = Model(spec)
    contracts = runner.index_contracts(spec)
    plan = Plan()
    hub = FaultHub(plan)
    loaded = prog.load(spec, w.scratch(), hub)
    probe.REPR_HOOK = lambda tok: plan.point("repr")
    probe.DRIVE_HOOK = make_driver(plan)
    try:
        for name, err in hub.creation_errors.items():
            w.violation("C11/definition", "definition of {} failed: {!r}".format(name, err), {"prog": spec})
            return
        for call in calls:
            kinds = list(KINDS)
            for sc in scenarios(model, call, rng):
                full = dict(call, truth=sc["truth"], body=sc["body"])
                # shared instance for member calls so that "same object" follow-ups are meaningful
                instance = None
                if call["target"] == "member":
                    c_obs = runner.construct(loaded, model, call["cls"])
                    if not c_obs.returned:
                        w.violation("C11/setup", "constructing K failed: {!r}".format(c_obs.exc), {"prog": spec})
                        continue
                    instance = c_obs.instance
                # clean run: enumerate the points
                plan.arm(None, None)
                clean = runner.perform(loaded, model, full, instance=instance)
                points = list(plan.points)
                plan.disarm()
                w.count("fault_points_enumerated", len(points))
                for label in points:
                    w.distinct("point_kinds", label.split(":")[0])
                exp_clean = runner.expected_for(model, full)
                for d in runner.compare(loaded, model, contracts, full, exp_clean, clean, check_identity=False):
                    w.violation("C11/clean-run-differs-from-model/" + d.kind, d.what, {"prog": spec, "call": full})
                for idx, label in enumerate(points):
                    these = list(kinds)
                    if label.startswith("await:"):
                        these = these + ["CancelledError", "close"]
                    for kind in these:
                        n_faults = 1 if w.tier == "quick" else rng.choice((1, 1, 2, 3))
                        run_faulted(w, loaded, model, contracts, plan, spec, full, instance, idx, label, kind, sc["tag"], prog_index, n_faults)
                        if rng.random() < 0.2:
                            # the same faulted call and its follow-ups made while another check of this flow is in progress
                            which = rng.choice(ENCLOSURES)
                            w.count("faulted_runs_inside_another_check")
                            enclosed(w, which, lambda: run_faulted(w, loaded, model, contracts, plan, spec, full, instance, idx, label, kind,  # pylint: disable=cell-var-from-loop
                                                                   sc["tag"], prog_index, n_faults, enclosure=which))  # pylint: disable=cell-var-from-loop
    finally:
        probe.REPR_HOOK = None
        probe.DRIVE_HOOK = None
        loaded.unload()


def run_faulted(w, loaded, model, contracts, plan: Plan, spec, full, instance, idx: int, label: str, kind: str, tag: str, prog_index: int,
                n_faults: int, enclosure: Optional[str] = None) -> None:
    case = {"prog": spec, "call": full, "point": idx, "label": label, "kind": kind, "scenario": tag, "faults": n_faults}
    if enclosure is not None:
        case["enclosure"] = enclosure
    before = in_progress_snapshot()
    obs = None
    for _ in range(n_faults):
        plan.arm(idx, kind)
        if full["target"] == "member" and instance is None:
            return
        obs = runner.perform(loaded, model, full, instance=instance)
        injected, injected_at = plan.injected, plan.injected_at
        plan.disarm()
        w.count("faulted_runs")
        w.case((prog_index, full.get("name") or full.get("key") or "ctor", tag, idx, kind, enclosure))
        w.distinct("fault_sites", (label.split(":")[0], kind))
        if injected is None:
            # the point was not reached this time (e.g. a different path after an earlier fault in a sequence)
            w.count("faults_not_reached")
            continue
        # (surfacing)
        detail = {"injected_at": injected_at, "outcome": obs.describe()}
        exc = obs.exc
        if obs.returned:
            w.violation("C11/injected-exception-silently-dropped", "{} injected at {} but the call returned {!r}".format(kind, injected_at, obs.value),
                        case, detail)
        elif not chained(exc, injected):
            absorbed_ok = False
            if injected_at == "repr" and isinstance(injected, Exception):
                # the repr machinery may absorb it: then the violation itself must be reported
                falsy = [cid for cid, v in full.get("truth", {}).items()]
                absorbed_ok = any(c04.error_matches(loaded, contracts, exc, cid) for cid in falsy)
            if not absorbed_ok:
                w.violation("C11/injected-exception-replaced", "{} injected at {} but the caller got {}: {} (not chained to the injected one)".format(
                    kind, injected_at, type(exc).__name__, str(exc)[:200]), case, detail)
        # (state)
        after = in_progress_snapshot()
        if before is not None and after is not None:
            w.count("state_checks")
            if after != before:
                w.violation("C11/suspension-state-not-restored", "in-progress set was {} before and is {} after {} injected at {}".format(
                    sorted(before), sorted(after), kind, injected_at), case, detail)
    # (behaviour) follow-up calls behave as in a fresh process
    for fu in followups(model, full, w.rng):
        inst = instance if fu["target"] == "member" else None
        exp = runner.expected_for(model, fu)
        fobs = runner.perform(loaded, model, fu, instance=inst)
        w.count("followup_calls")
        discs = runner.compare(loaded, model, contracts, fu, exp, fobs, check_identity=False)
        for d in discs:
            w.violation("C11/checking-not-rearmed-after-fault", "after {} injected at {} in {}: follow-up {} {}".format(
                kind, label, tag, {k: v for k, v in fu.items() if k != "truth"}, d.what), case,
                {"expected": repr(exp), "observed": fobs.describe()})
            break
    # ... also when they are made through a copy of the context that was taken while the faulted call was in flight (the same
    # thread, no task: the same flow of control as the faulted call)
    copied = plan.copied_context
    if copied is not None:
        for fu in followups(model, full, w.rng):
            inst = instance if fu["target"] == "member" else None
            exp = runner.expected_for(model, fu)
            fobs = copied.run(runner.perform, loaded, model, fu, inst)
            w.count("followup_calls")
            w.count("followup_calls_through_copied_context")
            discs = runner.compare(loaded, model, contracts, fu, exp, fobs, check_identity=False)
            for d in discs:
                w.violation("C11/checking-not-rearmed-in-context-copied-during-the-call", "after {} injected at {} in {}: follow-up {} made through a "
                            "copy of the context taken during the faulted call: {}".format(
                                kind, label, tag, {k: v for k, v in fu.items() if k != "truth"}, d.what), case,
                            {"expected": repr(exp), "observed": fobs.describe()})
                break
    if w.counters.get("faulted_runs", 0) % 1501 == 1 and obs is not None:
        w.sample({"call": {k: v for k, v in full.items() if k != "body"}, "scenario": tag, "point": label, "kind": kind,
                  "outcome": obs.describe()["outcome"]})


OUT_OF_ORDER_SOURCE = '''
import gc
import icontract


@icontract.invariant(lambda self: HUB.inv("inv:" + self.name, self) and self.x >= 0)
class A:
    def __init__(self, name):
        self.name = name
        self.x = 0

    async def wait(self, tick):
        await tick
        return "waited"

    def helper(self):
        HUB.body("helper:" + self.name, {"self": self})
        return self.x

    def outer(self, end_other_call):
        """Breaks the invariant temporarily; ends an unrelated suspended call in the middle."""
        self.x = -1
        try:
            self.helper()
            end_other_call()
            return self.helper()
        finally:
            self.x = 0


async def awaited_condition(tick):
    await tick
    return True


async def awaited_capture(tick):
    await tick
    return 1


@icontract.require(awaited_condition)
async def suspended_in_precondition(tick):
    return "done"


@icontract.snapshot(awaited_capture, name="before")
@icontract.ensure(lambda OLD, result: OLD.before == 1)
async def suspended_in_capture(tick):
    return "done"
'''


def run_out_of_order_end(w) -> None:
    """A suspended async call (driven by hand, no task) is closed / finalised / cancelled while ANOTHER check is in progress:
    the state of the check in progress must be what it was before that (its own re-entrant calls stay unchecked, no spurious error)."""
    import gc  # pylint: disable=import-outside-toplevel

    loaded = prog.load_source(OUT_OF_ORDER_SOURCE, w.scratch())
    mod, hub = loaded.module, loaded.hub
    try:
        for how, where in [(h, wh) for wh in ("method-body", "function-precondition", "function-capture")
                           for h in ("close", "throw-CancelledError", "garbage-collection", "run-to-completion")]:
            a1, a2 = mod.A("a1"), mod.A("a2")
            # a call driven by hand (same context, no task), left suspended in the body of a method / in an awaited precondition /
            # in an awaited capture
            started = {"method-body": lambda: a1.wait(probe.Tick("t")), "function-precondition": lambda: mod.suspended_in_precondition(probe.Tick("t")),
                       "function-capture": lambda: mod.suspended_in_capture(probe.Tick("t"))}[where]
            box = {"coro": started()}
            box["coro"].send(None)

            def end_other_call():
                coro = box.pop("coro")
                if how == "close":
                    coro.close()
                elif how == "throw-CancelledError":
                    try:
                        coro.throw(asyncio.CancelledError("cancelled"))
                    except asyncio.CancelledError:
                        pass
                elif how == "run-to-completion":
                    try:
                        coro.send(None)
                    except StopIteration:
                        pass
                else:
                    del coro
                    gc.collect()

            hub.reset()
            w.count("followup_calls")
            w.count("out_of_order_endings")
            w.case(("out-of-order-end", how, where))
            try:
                res = a2.outer(end_other_call)
                outcome = "returned {!r}".format(res)
            except BaseException as err:  # pylint: disable=broad-except
                outcome = "raise {}: {}".format(type(err).__name__, str(err)[:100])
            evs = [(e.kind, e.id) for e in hub.events]
            # a2's invariant is evaluated before and after outer; the two helper() calls in between are re-entrant
            if outcome != "returned -1":
                w.violation("C11/check-in-progress-disturbed-by-the-end-of-another-call", "a call suspended in a {} was ended by {} "
                            "inside a method whose invariant is temporarily broken: the method gave {} (events {}); its own re-entrant call "
                            "must stay unchecked as before".format(where, how, outcome, evs), {"out_of_order": how, "where": where})
            # afterwards both objects are checked as in a fresh process
            for obj in (a1, a2):
                hub.reset()
                obj.helper()
                invs = [e.id for e in hub.events if e.kind == "inv"]
                w.count("followup_calls")
                if invs != ["inv:" + obj.name] * 2:
                    w.violation("C11/checking-not-rearmed-after-fault", "after the other call was ended by {}: {}.helper() evaluated the invariants {}".format(
                        how, obj.name, invs), {"out_of_order": how})
    finally:
        loaded.unload()


FAULTED_NEW_SOURCE = '''
import collections
import typing
import icontract


class Boom(BaseException):
    pass


@icontract.invariant(lambda self: HUB.inv("inv:P", self) and self.x > 0)
class P(icontract.DBC):
    """No __init__: the invariants are checked by the wrapper around __new__."""

    def __new__(cls, x, fail=None):
        if fail is not None:
            raise fail
        self = super().__new__(cls)
        self.x = x
        return self


@icontract.invariant(lambda self: HUB.inv("inv:Point", self) and self.x > 0)
class Point(typing.NamedTuple):
    x: int
    y: int


@icontract.invariant(lambda self: HUB.inv("inv:Q", self) and self.x > 0)
class Q(P):
    pass
'''


def run_faulted_new(w) -> None:
    """A constructor implemented by __new__ alone ends with an exception (of the body, or Python's own TypeError for a call that
    cannot be bound): the next constructions of the same class are checked as in a fresh process."""
    import icontract  # pylint: disable=import-outside-toplevel

    loaded = prog.load_source(FAULTED_NEW_SOURCE, w.scratch())
    mod, hub = loaded.module, loaded.hub
    try:
        faults = [("P", lambda: mod.P(1, fail=ValueError("v"))), ("P", lambda: mod.P(1, fail=mod.Boom())), ("P", lambda: mod.P(1, fail=KeyboardInterrupt())),
                  ("P", lambda: mod.P()), ("Point", lambda: mod.Point(1)), ("Point", lambda: mod.Point(1, 2, 3)), ("Q", lambda: mod.Q(1, fail=SystemExit(3))),
                  ("P", lambda: mod.P(-5))]
        for cname, fault in faults:
            before = in_progress_snapshot()
            try:
                fault()
                outcome = "returned"
            except BaseException as err:  # pylint: disable=broad-except
                outcome = "raised " + type(err).__name__
            w.count("faulted_runs")
            w.count("faulted_constructions_by_new")
            w.case(("faulted-new", cname, outcome))
            after = in_progress_snapshot()
            if before is not None and after is not None:
                w.count("state_checks")
                if after != before:
                    w.violation("C11/suspension-state-not-restored", "in-progress set was {} before and is {} after a construction of {} which {}".format(
                        sorted(before), sorted(after), cname, outcome), {"faulted_new": cname})
            for cls, good, bad in ((mod.P, (1,), (-1,)), (mod.Point, (1, 0), (-1, 0)), (mod.Q, (2,), (-2,))):
                for args, want in ((good, "returned"), (bad, "ViolationError")):
                    hub.reset()
                    try:
                        cls(*args)
                        got = "returned"
                    except icontract.ViolationError:
                        got = "ViolationError"
                    except BaseException as err:  # pylint: disable=broad-except
                        got = "raised " + type(err).__name__
                    w.count("followup_calls")
                    invs = [e.id for e in hub.events if e.kind == "inv"]
                    # (a violated lambda is evaluated once more while its message is built, as documented)
                    allowed = {"P": ["inv:P"], "Point": ["inv:Point"], "Q": ["inv:P", "inv:Q"]}[cls.__name__]
                    if got != want or (invs != allowed if want == "returned" else (not invs or not set(invs) <= set(allowed))):
                        w.violation("C11/checking-not-rearmed-after-fault", "after a construction of {} which {}: {}{} gave {} (expected {}), "
                                    "invariant evaluations {}".format(cname, outcome, cls.__name__, args, got, want, invs), {"faulted_new": cname})
    finally:
        loaded.unload()


LINE_FAULT_SOURCE = '''
import icontract


@icontract.require(lambda x: x > 0)
@icontract.snapshot(lambda x: x, name="x")
@icontract.ensure(lambda result, OLD: result == OLD.x)
def f(x):
    return abs(x)


@icontract.require(lambda x: x > 0)
@icontract.snapshot(lambda x: x, name="x")
@icontract.ensure(lambda result, OLD: result == OLD.x)
async def af(x):
    return abs(x)


@icontract.invariant(lambda self: self.x > 0)
class A(icontract.DBC):
    def __init__(self, x=1):
        self.x = x

    @icontract.require(lambda y: y > 0)
    @icontract.ensure(lambda result: result > 0)
    def m(self, y):
        return self.x + y

    async def am(self, y):
        return self.x + y

    @property
    def p(self):
        return self.x

    @p.setter
    def p(self, value):
        self.x = value

    def __len__(self):
        return self.x


class B(A):
    """An override with a weaker precondition group, a snapshot and postconditions of its own; an async method with contracts."""

    @icontract.require(lambda y: y < -10)
    @icontract.snapshot(lambda self: self.x, name="x")
    @icontract.ensure(lambda self, OLD: self.x == OLD.x)
    def m(self, y):
        return self.x + abs(y)

    @icontract.require(lambda y: y > 0)
    @icontract.ensure(lambda result: result > 0)
    async def am2(self, y):
        return self.x + y

    @staticmethod
    @icontract.require(lambda z: z > 0)
    def st(z):
        return z


@icontract.invariant(lambda self: self.x > 0, check_on=icontract.InvariantCheckEvent.ALL)
class S:
    def __init__(self, x=1):
        self.x = x


@icontract.invariant(lambda self: self.x > 0)
class N(icontract.DBC):
    def __new__(cls, x=1):
        self = super().__new__(cls)
        self.x = x
        return self
'''


class LineFault(BaseException):
    """Stands for an asynchronous interrupt (KeyboardInterrupt from a signal handler) delivered between two statements."""


def _checker_code_and_cleanup_lines(module_names=("icontract._checkers",)):
    """Code objects of the given modules and, per file, the lines inside finally/except bodies."""
    import ast  # pylint: disable=import-outside-toplevel
    import importlib  # pylint: disable=import-outside-toplevel
    import types  # pylint: disable=import-outside-toplevel

    seen = {}  # type: Dict[int, Any]
    cleanup = set()  # (filename, lineno)

    def walk(code) -> None:
        if id(code) in seen:
            return
        seen[id(code)] = code
        for const in code.co_consts:
            if isinstance(const, types.CodeType):
                walk(const)

    for modname in module_names:
        mod = importlib.import_module(modname)
        for val in list(vars(mod).values()):
            if isinstance(val, types.FunctionType) and val.__code__.co_filename == mod.__file__:
                walk(val.__code__)
            elif isinstance(val, type) and val.__module__ == mod.__name__:
                for member in vars(val).values():
                    if isinstance(member, types.FunctionType):
                        walk(member.__code__)
        with open(mod.__file__) as fid:
            tree = ast.parse(fid.read())
        for node in ast.walk(tree):
            if isinstance(node, ast.Try):
                stmts = list(node.finalbody)
                for handler in node.handlers:
                    stmts.extend(handler.body)
                for stmt in stmts:
                    for lineno in range(stmt.lineno, (stmt.end_lineno or stmt.lineno) + 1):
                        cleanup.add((mod.__file__, lineno))
    return list(seen.values()), cleanup


def run_line_faults(w) -> None:
    """An interrupt between ANY two statements of the library's wrappers (sys.monitoring LINE events in icontract/_checkers.py raise
    a BaseException before the line runs; lines inside finally/except bodies are left out - no Python code can be protected there):
    afterwards nothing is left suspended and the follow-up calls are checked as in a fresh process."""
    import icontract  # pylint: disable=import-outside-toplevel

    mon = getattr(sys, "monitoring", None)
    if mon is None:
        return
    tool = 5
    try:
        mon.use_tool_id(tool, "vkit-linefault")
    except ValueError:
        w.mark_inconclusive("sys.monitoring tool id {} is taken".format(tool))
        return
    # (thorough: interrupts inside the message building as well)
    modules = ("icontract._checkers",) if w.tier == "quick" else ("icontract._checkers", "icontract._represent", "icontract._recompute")
    codes, cleanup = _checker_code_and_cleanup_lines(modules)
    state = {"armed": False, "count": 0, "target": None, "at": None, "skipped": False}

    def on_line(code, lineno):
        if not state["armed"]:
            return
        idx = state["count"]
        state["count"] = idx + 1
        if state["target"] is not None and idx == state["target"]:
            if (code.co_filename, lineno) in cleanup:
                state["skipped"] = True
                return
            state["at"] = (code.co_qualname, lineno)
            state["armed"] = False
            raise LineFault("{}:{}".format(code.co_qualname, lineno))

    loaded = prog.load_source(LINE_FAULT_SOURCE, w.scratch())
    mod = loaded.module
    mon.register_callback(tool, mon.events.LINE, on_line)
    for code in codes:
        mon.set_local_events(tool, code, mon.events.LINE)
    try:
        def drive(res):
            return probe.drive(res) if asyncio.iscoroutine(res) else res

        a = mod.A()
        broken = mod.A()
        s_obj = mod.S()
        b = mod.B()
        calls = [
            ("f(1)", lambda: mod.f(1)), ("f(-1)", lambda: mod.f(-1)), ("af(1)", lambda: mod.af(1)), ("af(-1)", lambda: mod.af(-1)),
            ("A()", lambda: mod.A()), ("A(-1)", lambda: mod.A(-1)), ("a.m(1)", lambda: a.m(1)), ("a.m(-1)", lambda: a.m(-1)),
            ("a.am(1)", lambda: a.am(1)), ("a.p", lambda: a.p), ("a.p = 2", lambda: setattr(a, "p", 2)), ("len(a)", lambda: len(a)),
            ("b.m(1)", lambda: b.m(1)), ("b.m(-20)", lambda: b.m(-20)), ("b.m(-5)", lambda: b.m(-5)), ("b.am2(1)", lambda: b.am2(1)),
            ("b.am2(-1)", lambda: b.am2(-1)), ("B.st(1)", lambda: mod.B.st(1)), ("B.st(-1)", lambda: mod.B.st(-1)),
            ("broken.m(1)", lambda: broken.m(1)), ("s.x = 3", lambda: setattr(s_obj, "x", 3)), ("N(1)", lambda: mod.N(1)), ("N(-1)", lambda: mod.N(-1)),
        ]

        def followups():
            """(label, thunk, expected outcome) - each on objects of known state."""
            a.__dict__["x"] = 1
            s_obj.__dict__["x"] = 1
            broken.__dict__["x"] = -1
            b.__dict__["x"] = 1
            return [("b.m(-20)", lambda: b.m(-20), "returned"), ("b.m(-5)", lambda: b.m(-5), "violation"), ("b.am2(-1)", lambda: b.am2(-1), "violation"),
                    ("f(1)", lambda: mod.f(1), "returned"), ("f(-1)", lambda: mod.f(-1), "violation"), ("af(-1)", lambda: mod.af(-1), "violation"),
                    ("a.m(1)", lambda: a.m(1), "returned"), ("broken.m(1)", lambda: broken.m(1), "violation"), ("broken.am(1)", lambda: broken.am(1), "violation"),
                    ("broken.p", lambda: broken.p, "violation"), ("len(broken)", lambda: len(broken), "violation"), ("A(-1)", lambda: mod.A(-1), "violation"),
                    ("A()", lambda: mod.A(), "returned"), ("s.x = -1", lambda: setattr(s_obj, "x", -1), "violation"), ("N(-1)", lambda: mod.N(-1), "violation"),
                    ("N(1)", lambda: mod.N(1), "returned")]

        def outcome_of(thunk):
            try:
                drive(thunk())
                return "returned"
            except icontract.ViolationError:
                return "violation"
            except LineFault:
                return "line-fault"
            except BaseException as err:  # pylint: disable=broad-except
                return "raised {}: {}".format(type(err).__name__, str(err)[:80])

        for label, thunk in calls:
            a.__dict__["x"] = 1
            s_obj.__dict__["x"] = 1
            broken.__dict__["x"] = -1
            b.__dict__["x"] = 1
            state.update(armed=True, count=0, target=None, at=None, skipped=False)
            clean = outcome_of(thunk)
            state["armed"] = False
            n_lines = state["count"]
            w.count("line_fault_points_enumerated", n_lines)
            for k in range(n_lines):
                a.__dict__["x"] = 1
                s_obj.__dict__["x"] = 1
                broken.__dict__["x"] = -1
                b.__dict__["x"] = 1
                before = in_progress_snapshot()
                state.update(armed=True, count=0, target=k, at=None, skipped=False)
                got = outcome_of(thunk)
                state["armed"] = False
                if state["skipped"]:
                    w.count("line_faults_skipped_in_cleanup_code")
                    continue
                if state["at"] is None:
                    w.count("faults_not_reached")
                    continue
                w.count("faulted_runs")
                w.count("line_faults_injected")
                w.case(("line-fault", label, state["at"]))
                w.distinct("fault_sites", ("line", state["at"][0]))
                case = {"line_fault": label, "at": list(state["at"])}
                if got in ("returned", "violation") and got == clean:
                    w.violation("C11/injected-exception-silently-dropped", "an interrupt raised at {} during {} vanished: the call {}".format(
                        state["at"], label, got), case)
                after = in_progress_snapshot()
                if before is not None and after is not None:
                    w.count("state_checks")
                    if after != before:
                        w.violation("C11/suspension-state-not-restored", "in-progress marks were {} before and are {} after an interrupt at {} "
                                    "during {}".format(sorted(before), sorted(after), state["at"], label), case)
                        # (deactivate the leftovers so that the next injections are judged on their own)
                        import icontract._checkers as chk  # pylint: disable=import-outside-toplevel
                        for mark in chk._IN_PROGRESS.get() or ():
                            if hasattr(mark, "active"):
                                mark.active = False
                        continue
                for flabel, fthunk, want in followups():
                    fgot = outcome_of(fthunk)
                    w.count("followup_calls")
                    if fgot != want:
                        w.violation("C11/checking-not-rearmed-after-fault", "after an interrupt at {} during {}: follow-up {} {} (expected {})".format(
                            state["at"], label, flabel, fgot, want), case)
                        break
    finally:
        for code in codes:
            mon.set_local_events(tool, code, 0)
        mon.register_callback(tool, mon.events.LINE, None)
        mon.free_tool_id(tool)
        loaded.unload()


def run_repo_suite_under_monitor(w) -> None:
    """The repository's own tests as a workload: after each of them no live mark may be left in the context of the runner."""
    import json  # pylint: disable=import-outside-toplevel
    import os  # pylint: disable=import-outside-toplevel
    import subprocess  # pylint: disable=import-outside-toplevel

    from vkit import core  # pylint: disable=import-outside-toplevel

    report = os.path.join(w.scratch(), "marks_report.json")
    env = dict(os.environ, PYTHONPATH=core.REPO + os.pathsep + core.VERIF_DIR, VKIT_MARKS_REPORT=report, PYTHONDONTWRITEBYTECODE="1")
    try:
        res = subprocess.run([core.PYTHON, "-m", "pytest", "-q", "-p", "no:cacheprovider", "-p", "vkit.pytest_marks_plugin", "--timeout=600",
                              "--ignore", "tests/test_mypy_decorators.py"], cwd=core.REPO, env=env, capture_output=True, text=True, timeout=900)
    except subprocess.TimeoutExpired:
        w.mark_inconclusive("the repository's suite under the mark monitor hit the watchdog")
        return
    if not os.path.exists(report):
        w.mark_inconclusive("the repository's suite under the mark monitor wrote no report: {}".format((res.stdout + res.stderr)[-300:]))
        return
    with open(report) as fid:
        rep = json.load(fid)
    w.count("repository_tests_monitored", rep["tests"])
    w.count("state_checks", rep["tests"])
    w.case(("repository-suite",))
    if rep["tests"] < 300:
        w.mark_inconclusive("only {} tests of the repository's suite were monitored".format(rep["tests"]))
    for nodeid, live in rep["leftovers"][:5]:
        w.violation("C11/suspension-state-not-restored", "after the repository's test {} the in-progress variable still holds the live marks {}".format(
            nodeid, live), {"repo_suite": nodeid})


SPECULATIVE_SOURCE = '''
import icontract

CALLS = []
ARMED = [None]


class Interrupt(BaseException):
    pass


def helper(tag):
    """User code inside a condition; may be interrupted (like any code) while the library runs it to build a message."""
    CALLS.append(tag)
    if ARMED[0] is not None:
        raise ARMED[0]
    return 1


@icontract.require(lambda xs: len([helper("element") for x in xs]) > 0)
def pre_element(xs):
    return xs


@icontract.ensure(lambda result: any(x > 5 for x in result if helper("filter") > 0))
def post_filter(xs):
    return xs


@icontract.invariant(lambda self: self.ok or any({{helper("set") for x in self.items}}))
class K:
    def __init__(self, ok=True):
        self.ok = ok
        self.items = []

    def spoil(self):
        self.ok = False
'''


def run_speculative_faults(w) -> None:
    """A BaseException raised by user code while the library evaluates a part of the condition on its own account (parts of a
    comprehension which Python skipped: empty iterable) surfaces - it is never swallowed and replaced by the plain violation."""
    import icontract  # pylint: disable=import-outside-toplevel

    loaded = prog.load_source(SPECULATIVE_SOURCE.format(), w.scratch())
    mod = loaded.module
    try:
        for make_exc in (lambda: mod.Interrupt("i"), lambda: KeyboardInterrupt(), lambda: asyncio.CancelledError(), lambda: SystemExit(3)):
            for tag, call in (("precondition-element", lambda: mod.pre_element([])), ("postcondition-filter", lambda: mod.post_filter([])),
                              ("invariant-set-comprehension", lambda: mod.K().spoil())):
                injected = make_exc()
                del mod.CALLS[:]
                before = in_progress_snapshot()
                mod.ARMED[0] = None
                obj_call = call
                mod.ARMED[0] = injected
                try:
                    obj_call()
                    outcome, exc = "returned", None
                except BaseException as err:  # pylint: disable=broad-except
                    outcome, exc = "raised " + type(err).__name__, err
                finally:
                    mod.ARMED[0] = None
                w.count("faulted_runs")
                w.count("speculative_faults")
                w.case(("speculative-fault", tag, type(injected).__name__))
                case = {"speculative": tag, "kind": type(injected).__name__}
                if not mod.CALLS:
                    # the library did not run the helper on its own account: nothing was injected
                    w.count("faults_not_reached")
                    continue
                if not chained(exc, injected):
                    w.violation("C11/injected-exception-silently-dropped", "{} raised by user code while the message of {} was built, but the call {}"
                                .format(type(injected).__name__, tag, outcome), case)
                after = in_progress_snapshot()
                if before is not None and after is not None and after != before:
                    w.violation("C11/suspension-state-not-restored", "live marks {} after an exception during the message building of {}".format(
                        sorted(after), tag), case)
    finally:
        loaded.unload()


GROWTH_SOURCE = '''
import icontract


class Boom(BaseException):
    pass


@icontract.require(lambda x: x >= 0)
@icontract.ensure(lambda result: result >= 0)
def f(x, fail=False):
    if fail:
        raise Boom()
    return x


@icontract.invariant(lambda self: self.x >= 0)
class A:
    def __init__(self):
        self.x = 0

    @icontract.require(lambda y: y >= 0)
    def m(self, y, fail=False):
        if fail:
            raise Boom()
        return self.x + y
'''

GROWTH_CALLS = 3000
GROWTH_BOUND = 1000


def raw_size() -> Optional[int]:
    import icontract._checkers as chk  # pylint: disable=import-outside-toplevel

    var = getattr(chk, "_IN_PROGRESS", None)
    if var is None or __import__("os").environ.get("VERIF_C11_NO_STATE") == "1":
        return None
    val = var.get()
    try:
        return len(val) if val else 0
    except TypeError:
        return None


def run_growth(w) -> None:
    """A long sequence of finished calls (returned / violated / body raised a BaseException) in ONE context: whatever the library keeps in
    its in-progress variable between calls must not grow with the number of finished calls. The bound is deliberately generous (an
    implementation may clear its leftovers lazily or in batches); only growth proportional to the number of calls is reported."""
    import contextvars  # pylint: disable=import-outside-toplevel

    loaded = prog.load_source(GROWTH_SOURCE, w.scratch())
    mod = loaded.module
    try:
        for where in ("same-context", "copied-context-reused"):
            ctx = contextvars.copy_context()
            series = []

            def burst(start: int) -> None:
                a = mod.A()
                for i in range(start, start + 500):
                    try:
                        if i % 3 == 0:
                            mod.f(i % 7, fail=(i % 5 == 0))
                        elif i % 3 == 1:
                            a.m(i % 7, fail=(i % 5 == 1))
                        else:
                            mod.f(-1)
                    except BaseException:  # pylint: disable=broad-except
                        pass
                series.append(raw_size())

            for start in range(0, GROWTH_CALLS, 500):
                if where == "same-context":
                    burst(start)
                else:
                    ctx.run(burst, start)
            w.count("followup_calls", GROWTH_CALLS)
            w.count("growth_calls", GROWTH_CALLS)
            w.case(("growth", where))
            w.distinct("leftover_sizes_between_calls", (where, tuple(series)))
            sizes = [x for x in series if x is not None]
            if sizes:
                w.count("state_checks", len(sizes))
                if sizes[-1] > GROWTH_BOUND:
                    w.violation("C11/leftovers-of-finished-calls-accumulate-without-bound", "after {} finished calls in one context ({}) the "
                                "in-progress variable holds {} entries (sizes after every 500 calls: {}); the state after a call must be "
                                "what it was before it".format(GROWTH_CALLS, where, sizes[-1], sizes), {"growth": where})
    finally:
        loaded.unload()


def run(w) -> None:
    if w.shard == 0:
        run_out_of_order_end(w)
    if w.shard == 2 % w.nshards:
        run_faulted_new(w)
        run_speculative_faults(w)
    if w.shard == 3 % w.nshards:
        run_line_faults(w)
    if w.tier == "thorough" and w.shard == 4 % w.nshards:
        run_repo_suite_under_monitor(w)
    # (cheap, and on every shard: an implementation that accumulates leftovers slows every later call down, so that the fault
    # enumeration below would only hit the wall-clock watchdog - inconclusive - instead of reporting what is wrong)
    run_growth(w)
    if any(v["key"].startswith("C11/leftovers-of-finished-calls") for v in w.violations):
        return
    n = 480 if w.tier == "thorough" else 40
    for i in range(n):
        if i % w.nshards != w.shard:
            continue
        w.count("programs")
        run_program(w, i, is_async=(i % 2 == 1))
    w.exhaustive = True  # every enumerated point of every generated program x every kind was injected
    # leftover state at the very end
    final = in_progress_snapshot()
    if final:
        w.violation("C11/suspension-state-not-empty-at-end", "in-progress set at the end of the run: {}".format(sorted(final)), {})


def replay(case, w) -> None:
    if "out_of_order" in case:
        run_out_of_order_end(w)
        return
    if "growth" in case:
        run_growth(w)
        return
    if "faulted_new" in case:
        run_faulted_new(w)
        return
    if "speculative" in case:
        run_speculative_faults(w)
        return
    if "line_fault" in case:
        run_line_faults(w)
        return
    if "repo_suite" in case:
        run_repo_suite_under_monitor(w)
        return
    spec = case["prog"]
    model = Model(spec)
    contracts = runner.index_contracts(spec)
    plan = Plan()
    hub = FaultHub(plan)
    loaded = prog.load(spec, w.scratch(), hub)
    probe.REPR_HOOK = lambda tok: plan.point("repr")
    probe.DRIVE_HOOK = make_driver(plan)
    try:
        full = case["call"]
        instance = None
        if full["target"] == "member":
            instance = runner.construct(loaded, model, full["cls"]).instance
        if case.get("enclosure"):
            enclosed(w, case["enclosure"], lambda: run_faulted(w, loaded, model, contracts, plan, spec, full, instance, case["point"], case["label"],
                                                               case["kind"], case.get("scenario", "?"), 0, case.get("faults", 1),
                                                               enclosure=case["enclosure"]))
        else:
            run_faulted(w, loaded, model, contracts, plan, spec, full, instance, case["point"], case["label"], case["kind"], case.get("scenario", "?"),
                        0, case.get("faults", 1))
    finally:
        probe.REPR_HOOK = None
        probe.DRIVE_HOOK = None
        loaded.unload()
