"""C20 — violation messages are deterministic and bounded."""
import builtins
import ast
import json
import os
import subprocess
from typing import Any, Dict, List, Tuple

from vkit import core, exprs, prog
from vkit.checks import c06

ID = "C20"
LEVEL = "exploration"
SHARDS = {"quick": 4, "thorough": 12}
TIMEOUT = {"quick": 400, "thorough": 3400}
DECIDING = ["messages_compared", "hash_seeds", "value_lines_checked", "filtered_argument_checks", "default_limit_comparisons"]
RULE = (
    "violated conditions from the C06 grammar (plus templates naming _ARGS/_KWARGS and all(...) over long strings), given as lambdas or "
    "(30%) as named functions, as preconditions or (30%) postconditions, on functions that "
    "additionally receive sets and frozensets of strings, dicts, a class, a function, a bound method, a module and a builtin as "
    "arguments, and values sized around the limits of icontract.aRepr (strings 250..260 characters, lists of 5..8 elements, nested) "
    "and of a user-supplied a_repr (instrumented reprlib.Repr subclass with small limits that logs every repr() request); half of "
    "the contracts use the user-supplied a_repr. Each violation is (a) raised 3 times in one process interleaved with unrelated "
    "violations, (b) raised with up to 24 permutations of its keyword arguments, (c) re-run in subprocesses with PYTHONHASHSEED in "
    "{0, 1, 4242, random}. Monitors: all messages of a case are byte-identical within and across processes; value entries are "
    "sorted by expression text; every rendered value (and every line of an all() example) equals a result the contract's own "
    "a_repr returned in that call; with the default a_repr every listed argument (incl. deque and array.array values sized around "
    "the limits) equals what an independently configured reprlib.Repr with the documented limits (50 items / 256 characters) gives; no entry is keyed by an argument that is a class, function, method, module or builtin, nor by "
    "_ARGS/_KWARGS unless the condition names them. Non-trivial = case with a message; distinct = condition text."
    ' Sets of mutually unorderable items (strings, numbers, None, tuples, bytes) are passed to contracts with the d'
    'efault a_repr (compared with the reference modulo item order); no entry may be keyed by a name that only the b'
    'uiltins module provides (NotImplemented, Ellipsis, __debug__ included).'
    ' Among the arguments that must never be listed: a memoized function (functools.lru_cache) and raw staticmethod / classmethod objects.'
)
ASSUMPTIONS = ["values whose own repr embeds a memory address or iterates a set are not generated"]

_ADDR = __import__("re").compile(r"0x[0-9a-fA-F]+")

HEADER = '''
import array
import collections
import functools
import os
import reprlib
import icontract


class LoggingRepr(reprlib.Repr):
    """A user-supplied a_repr with small limits which logs every request."""

    def __init__(self):
        super().__init__()
        self.maxstring = 24
        self.maxother = 30
        self.maxlist = 3
        self.maxdict = 2
        self.maxset = 3
        self.maxtuple = 3
        self.maxlevel = 3
        self.log = []

    def repr(self, x):
        res = super().repr(x)
        self.log.append(res)
        return res


LOGREPR = LoggingRepr()


class Holder:
    def method(self):
        return 1

    @staticmethod
    def helper(q):
        return q

    @classmethod
    def make(cls):
        return cls()


HOLDER = Holder()
RAW_STATIC = vars(Holder)["helper"]
RAW_CLASSMETHOD = vars(Holder)["make"]


@functools.lru_cache(maxsize=None)
def memoized(q):
    """A function all the same (its representation carries a memory address like that of any other routine)."""
    return q


@icontract.require(lambda q: q > 0, description="unrelated")
def unrelated(q):
    return q

'''

EXTRA_PARAMS = ["ss", "fs", "ms", "mfs", "bs", "bfs", "sfs", "big", "dq", "arr", "cls_arg", "fn_arg", "meth_arg", "mod_arg", "builtin_arg", "cached_arg", "static_arg",
                "clsm_arg"]
EXTRA_VALUES = {
    "cls_arg": "int", "fn_arg": "unrelated", "meth_arg": "HOLDER.method", "mod_arg": "os", "builtin_arg": "len", "cached_arg": "memoized",
    "static_arg": "RAW_STATIC", "clsm_arg": "RAW_CLASSMETHOD",
}

TEMPLATES = [
    ("len(_ARGS) > 50", ["_ARGS"]),
    ("len(_KWARGS) > 50 and a > 0", ["_KWARGS", "a"]),
    ("len(_ARGS) + len(_KWARGS) > 50", ["_ARGS", "_KWARGS"]),
    ("all(len(t) < 3 for t in big)", ["big"]),
    ("all(t != big[-1] for t in big)", ["big"]),
    ("len(big) > 100 and s == ''", ["big", "s"]),
    ("set(ss) == fs and len(ss) > 100", ["ss", "fs"]),
    ("sorted(ss) == [] or d == {}", ["ss", "d"]),
]


def sized_values(rng, mixed: bool = True) -> Dict[str, str]:
    """Python-literal sources of the extra arguments, sized around the repr limits.

    ``mixed``: the sets ``ms`` / ``mfs`` hold items of types that can not be ordered (their iteration order depends on the hash
    seed); only for contracts with the default a_repr - what a user-supplied a_repr does with them is its own business.
    """
    words = ["alpha", "beta", "gamma", "delta", "eps", "zeta", "eta", "theta", "iota", "kappa"]
    n = rng.randint(2, 9)
    ss = "{" + ", ".join(repr(w) for w in rng.sample(words, n)) + "}"
    fs = "frozenset({})".format(ss)
    length = rng.choice([5, 23, 24, 25, 250, 255, 256, 257, 260, 400])
    big_items = [repr("x" * length), repr("y" * rng.choice([1, 24, 30])), repr("long-" + "z" * rng.choice([10, 300]))]
    big = "[" + ", ".join(big_items[: rng.randint(1, 3)] + [repr(w) for w in rng.sample(words, rng.randint(0, 6))]) + "]"
    # containers with a limit of their own in reprlib (deque, array), sized around the default limit of 50 and reprlib's own 6 / 5
    dq = "collections.deque(range({}))".format(rng.choice([0, 5, 6, 7, 20, 49, 50, 51, 80]))
    arr = "array.array('i', range({}))".format(rng.choice([0, 4, 5, 6, 20, 50, 51]))
    if mixed:
        ms = "{" + ", ".join([repr(w) for w in rng.sample(words, rng.randint(2, 5))] + rng.sample(["1", "2.5", "None", "('t', 1)", "b'raw'", "70"], 3)) + "}"
    else:
        ms = "{" + ", ".join(repr(w) for w in rng.sample(words, 3)) + "}"
    # sets of strings (randomised hashes) sized around the limit of 50 items: WHICH items are shown must not depend on the hash seed
    n_big = rng.choice([49, 50, 51, 60, 120])
    bs = "set('w%03d' % i for i in range({}))".format(n_big)
    # a set of sets: ``<`` is the subset order, sorting neither fails nor gives one order
    sfs = "{" + ", ".join("frozenset({})".format(set(rng.sample(words, rng.randint(1, 2)))) for _ in range(rng.randint(3, 5))) + "}" if mixed else "set()"
    out = {"ss": ss, "fs": fs, "ms": ms, "mfs": "frozenset({})".format(ms), "sfs": sfs, "bs": bs, "bfs": "frozenset({})".format(bs), "big": big, "dq": dq, "arr": arr}
    out.update(EXTRA_VALUES)
    return out


def render(items: List[Dict[str, Any]]) -> str:
    out = [HEADER, exprs.SUPPORT, "\n"]
    for it in items:
        a_repr = ", a_repr=LOGREPR" if it["custom_repr"] else ""
        role = it.get("role", "require")
        if it.get("form", "lambda") == "def":
            # a condition given as a named function: nothing is re-computed, the message lists the (representable) arguments
            out.append("def cond_{}({}):\n    return {}\n\n".format(it["name"], ", ".join(it["lam_params"]), it["expr"]))
            out.append("@icontract.{}(cond_{}, description={!r}{})\n".format(role, it["name"], "D:" + it["name"], a_repr))
        else:
            out.append("@icontract.{}(lambda {}: {}, description={!r}{})\n".format(role, ", ".join(it["lam_params"]), it["expr"], "D:" + it["name"], a_repr))
        out.append("def {}({}):\n    return None\n\n".format(it["name"], ", ".join(it["params"])))
    return "".join(out)


def literal(v: Any) -> str:
    if isinstance(v, tuple) and v and v[0] == "OBJ":
        return "Obj({!r}, {!r}, {!r})".format(v[1], v[2], v[3])
    return repr(v)


SAME_SOURCE = '''
import icontract


def make_bounded(limit, low):
    """Every call makes a new contract from the same source text: the conditions share one code object, not their defaults."""
    @icontract.require(lambda x, limit=limit, *, low=low: low <= x < limit)
    def bounded(x):
        return x
    return bounded


BOUNDED = [make_bounded(5, 0), make_bounded(10, 2), make_bounded(20, 4)]
'''


def run_same_source(w) -> None:
    """Contracts made from one source text (a factory called several times) whose conditions differ in the defaults of parameters the
    call does not supply: the message of a violation shows the values of ITS condition, whatever was violated before, in every order."""
    import itertools  # pylint: disable=import-outside-toplevel

    import icontract  # pylint: disable=import-outside-toplevel

    limits = [(5, 0), (10, 2), (20, 4)]
    for order in itertools.permutations(range(3)):
        loaded = prog.load_source(SAME_SOURCE, w.scratch())
        try:
            for i in order:
                limit, low = limits[i]
                for x in (limit + 3, low - 1):
                    try:
                        loaded.module.BOUNDED[i](x)
                        msg = "<returned>"
                    except icontract.ViolationError as err:
                        msg = str(err)
                    # (`low <= x < limit` stops at its first comparison when x is below: Python never looks at `limit` then)
                    want = (["limit was {}".format(limit)] if x >= low else []) + ["low was {}".format(low), "x was {}".format(x)]
                    got = [ln for ln in msg.splitlines() if " was " in ln]
                    w.case(("same-source", order, i, x))
                    w.count("same_source_messages")
                    w.count("messages_compared")
                    if got != want:
                        w.violation("C20/message-depends-on-earlier-violations", "contract #{} of one source text (limit={}, low={}) violated with x={} after "
                                    "the order {}: value lines {} (expected {})".format(i, limit, low, x, order, got, want), {"same_source": list(order)})
        finally:
            loaded.unload()


def run(w) -> None:
    rng = w.rng
    if w.shard == 1 % w.nshards:
        run_same_source(w)
    n_items = 1500 if w.tier == "thorough" else 320
    per_shard = n_items // w.nshards
    items = []
    for i in range(per_shard):
        env = exprs.Env(rng, {}, with_none=rng.random() < 0.3)
        # (a third of the functions take only a few of the extra arguments: what is listed must not depend on how many there are)
        params = env.params() + (EXTRA_PARAMS if rng.random() < 0.67 else ["ss", "fs", "big", "cls_arg", "fn_arg", "meth_arg", "mod_arg", "builtin_arg", "cached_arg", "static_arg", "clsm_arg"])
        if rng.random() < 0.25:
            expr, lam = rng.choice(TEMPLATES)
        else:
            g = exprs.Gen(rng, env, max_depth=rng.choice((2, 3)))
            try:
                expr = g.condition().replace("c1", "G_INT")
                ast.parse(expr, mode="eval")
            except (SyntaxError, RecursionError):
                continue
            lam = c06.used_params(expr, params)
            if not lam:
                continue
        items.append({"name": "f_{}_{}".format(w.shard, i), "expr": expr, "lam_params": lam, "params": params, "env": env,
                      "custom_repr": rng.random() < 0.5, "form": "def" if rng.random() < 0.3 else "lambda",
                      "role": "ensure" if rng.random() < 0.3 else "require"})
    source = render(items)
    scratch = w.scratch()
    path = os.path.join(scratch, "c20_generated_{}.py".format(w.shard))
    with open(path, "w") as fid:
        fid.write(source)
    loaded = prog.load_source(source, scratch)
    mod = loaded.module
    calls = []
    try:
        for it in items:
            env = it["env"]
            lam_names = it["lam_params"]
            try:
                twin = exprs.Twin(it["expr"], [n for n in lam_names if n not in ("_ARGS", "_KWARGS")] + [n for n in lam_names if n in ("_ARGS", "_KWARGS")], [])
            except Exception:  # pylint: disable=broad-except
                continue
            found = None
            for _ in range(40):
                vals = env.values(rng)
                lit = {k: literal(v) for k, v in vals.items()}
                lit.update(sized_values(rng, mixed=not it["custom_repr"]))
                ns = dict(vars(mod))
                try:
                    concrete = {k: eval(v, ns) for k, v in lit.items()}  # pylint: disable=eval-used
                except Exception:  # pylint: disable=broad-except
                    continue
                tw = {n: concrete[n] for n in lam_names if n not in ("_ARGS", "_KWARGS")}
                if "_ARGS" in lam_names:
                    tw["_ARGS"] = ()
                if "_KWARGS" in lam_names:
                    tw["_KWARGS"] = dict(concrete)
                raised, value = twin.evaluate(ns, tw)
                if raised:
                    continue
                try:
                    if not value:
                        found = {k: v for k, v in lit.items() if k in it["params"]}
                        break
                except Exception:  # pylint: disable=broad-except
                    continue
            if found is not None:
                calls.append({"name": it["name"], "kwargs": found, "custom_repr": it["custom_repr"]})
    finally:
        loaded.unload()
    calls_path = os.path.join(scratch, "calls_{}.json".format(w.shard))
    with open(calls_path, "w") as fid:
        json.dump(calls, fid)
    child = os.path.join(os.path.dirname(os.path.dirname(os.path.abspath(__file__))), "c20_child.py")
    seeds = ["0", "1", "4242", "random"]
    reports = {}
    for hs in seeds:
        env = dict(os.environ)
        env["PYTHONHASHSEED"] = hs
        env["PYTHONPATH"] = core.VERIF_DIR
        try:
            res = subprocess.run([core.PYTHON, child, core.REPO, path, calls_path], capture_output=True, text=True, env=env, timeout=300, cwd=scratch)
        except subprocess.TimeoutExpired:
            w.mark_inconclusive("child with PYTHONHASHSEED={} hit the watchdog".format(hs))
            continue
        line = [ln for ln in res.stdout.splitlines() if ln.startswith("REPORT=")]
        if res.returncode != 0 or not line:
            w.mark_inconclusive("child with PYTHONHASHSEED={} failed: {}".format(hs, res.stderr[-500:]))
            continue
        w.count("hash_seeds")
        full_report = json.loads(line[0][7:])
        reports[hs] = full_report["cases"]
        # class invariants: the values are rendered through the a_repr given to the invariant (or the default limits)
        for entry in full_report.get("invariants", []):
            w.count("invariant_messages_checked")
            w.case(("invariant", entry["scenario"], entry["custom"], entry["n_items"], hs))
            icase = {"invariant_scenario": entry["scenario"], "custom_repr": entry["custom"], "n_items": entry["n_items"]}
            if entry["outcome"] != "violation":
                w.violation("C20/invariant-scenario-without-violation", "invariant scenario {} gave {}".format(entry["scenario"], entry["outcome"]), icase)
                continue
            for part in entry["parts"]:
                for key in ("self.items", "self.text"):
                    if part.startswith(key + " was "):
                        shown = part[len(key) + 5:]
                        w.count("value_lines_checked")
                        if entry["custom"]:
                            if shown not in entry["logged"]:
                                w.violation("C20/value-not-rendered-by-the-contracts-a_repr", "invariant ({}): `{} was {}` was not produced by the "
                                            "a_repr given to the invariant (its results: {})".format(
                                                entry["scenario"], key, shown[:80], [x[:40] for x in entry["logged"]][:6]), icase, {"parts": entry["parts"]})
                        elif shown != entry["reference"][key]:
                            w.violation("C20/default-limits-not-applied", "invariant ({}): `{} was {}`; with the documented default limits it is {!r}".format(
                                entry["scenario"], key, shown[:80], entry["reference"][key][:80]), icase, {"parts": entry["parts"]})
    by_name = {it["name"]: it for it in items}
    for call in calls:
        name = call["name"]
        it = by_name[name]
        case = {"expr": it["expr"], "lam_params": it["lam_params"], "kwargs": call["kwargs"], "custom_repr": it["custom_repr"],
                "form": it["form"], "role": it["role"]}
        w.count("conditions_{}_{}".format(it["form"], it["role"]))
        ref = None
        for hs, rep in reports.items():
            data = rep.get(name)
            if data is None:
                continue
            msgs = data["msgs"]
            w.count("messages_compared", len(msgs))
            if any(m is None or (m or "").startswith("OTHER") for m in msgs):
                w.count("cases_without_violation_message")
                break
            if len(set(msgs)) != 1:
                a = msgs[0]
                b = next(m for m in msgs if m != a)
                w.violation("C20/message-differs-between-repetitions-or-keyword-orders",
                            "condition {!r}: messages of the same violation differ within one process (PYTHONHASHSEED={})".format(it["expr"], hs),
                            case, {"first": a, "other": b})
                break
            if ref is None:
                ref = (hs, msgs[0], data)
            elif _ADDR.sub("0x", msgs[0]) != _ADDR.sub("0x", ref[1]):
                # (memory addresses of the function / method arguments inside a displayed _KWARGS differ between processes)
                w.violation("C20/message-depends-on-hash-seed", "condition {!r}: message under PYTHONHASHSEED={} differs from the one under {}".format(
                    it["expr"], hs, ref[0]), case, {ref[0]: ref[1], hs: msgs[0]})
                break
        if ref is None:
            continue
        w.case(it["expr"])
        data = ref[2]
        parts = data["parts"]
        w.count("default_limit_comparisons", data.get("default_limit_comparisons", 0))
        for bad in data.get("default_limit_mismatches", []):
            w.violation("C20/default-limits-not-applied", "argument {} is rendered as {!r}; with the documented default limits (50 items, 256 "
                        "characters) it is {!r}".format(bad[0], bad[1][:100], bad[2][:100]), case, {"parts": parts})
        candidates = []
        try:
            tw = exprs.Twin(it["expr"], [], [])
            candidates = list(set(tw.node_text.values()))
            for node in tw.nodes:
                if isinstance(node, ast.NamedExpr):
                    candidates.append(node.target.id)
        except Exception:  # pylint: disable=broad-except
            pass
        if it["form"] == "def":
            candidates = []  # only arguments can be listed
        candidates += it["params"] + ["_ARGS", "_KWARGS", "result"]
        keys = []
        for part in parts:
            key, vstr = exprs.split_part_with_candidates(part, candidates)
            keys.append(key)
            w.count("value_lines_checked")
            if vstr.startswith("False, e.g., with"):
                rendered = [ln.split(" = ", 1)[1] for ln in vstr.split("\n")[1:] if " = " in ln]
            else:
                rendered = [vstr]
            if it["custom_repr"]:
                for r in rendered:
                    if r not in data["logged"]:
                        w.violation("C20/value-not-rendered-by-the-contracts-a_repr",
                                    "`{} was ...`: the shown text {!r} was not produced by the contract's own a_repr (its results: {})".format(
                                        key, r[:80], [x[:40] for x in data["logged"]][:6]), case, {"parts": parts})
                        break
        if keys != sorted(keys):
            w.violation("C20/value-lines-not-sorted", "entries are keyed {} which is not sorted".format(keys), case, {"parts": parts})
        for bad in ("cls_arg", "fn_arg", "meth_arg", "mod_arg", "builtin_arg", "cached_arg", "static_arg", "clsm_arg"):
            w.count("filtered_argument_checks")
            if bad in keys:
                w.violation("C20/non-representable-argument-listed/" + bad, "the message lists {} (a class/function/method/module/builtin)".format(bad), case,
                            {"parts": parts})
        for part in parts:
            key, vstr = exprs.split_part_with_candidates(part, candidates)
            # a name or an attribute (no call, no subscript) must never be shown with the representation of a routine, a class or a
            # module (which carries a memory address, different in every process)
            if "(" not in key and "[" not in key:
                w.count("filtered_argument_checks")
                if vstr.startswith(("<method-wrapper", "<built-in method", "<bound method", "<function ", "<slot wrapper", "<method '", "<class '", "<module '", "<functools._lru_cache_wrapper",
                                    "<staticmethod", "<classmethod")):
                    w.violation("C20/routine-or-class-listed", "the message lists `{} was {}`".format(key, vstr[:80]), case, {"parts": parts})
        for key in keys:
            # names which only the builtins module provides (functions, classes and constants such as NotImplemented, Ellipsis, __debug__)
            if key.isidentifier() and hasattr(builtins, key) and key not in it["params"] and key not in ("result", "OLD", "self") \
                    and key not in vars(mod):
                w.count("filtered_argument_checks")
                w.violation("C20/builtin-listed", "the message lists the built-in {}".format(key), case, {"parts": parts})
        for reserved in ("_ARGS", "_KWARGS"):
            w.count("filtered_argument_checks")
            if reserved in keys and reserved not in it["lam_params"]:
                w.violation("C20/placeholder-listed-although-not-named", "{} is listed although the condition does not name it".format(reserved), case,
                            {"parts": parts})
            if reserved in it["lam_params"] and reserved not in keys:
                w.violation("C20/named-placeholder-not-listed", "{} is named by the condition but not listed".format(reserved), case, {"parts": parts})
        if not it["custom_repr"]:
            # default limits: no rendered value may be longer than what icontract.aRepr allows for a single string
            for part in parts:
                if len(part) > 4000:
                    w.violation("C20/value-exceeds-default-limits", "an entry is {} characters long".format(len(part)), case)
        if w.counters.get("evaluations", 0) % 37 == 1:
            w.sample({"expr": it["expr"], "custom_repr": it["custom_repr"], "message": ref[1][:400]})
    w.exhaustive = False


def replay(case, w) -> None:
    if "same_source" in case:
        run_same_source(w)
        return
    run(w)
    w.violations = [v for v in w.violations if v["case"].get("expr") == case.get("expr")] or w.violations
