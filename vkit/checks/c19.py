"""C19 — misuse is rejected at the earliest point with the documented error."""
from typing import Any, Dict, List, Optional, Tuple

from vkit import prog

ID = "C19"
LEVEL = "exploration"
SHARDS = {"quick": 1, "thorough": 1}
TIMEOUT = {"quick": 120, "thorough": 300}
DECIDING = ["rejections_observed", "controls_accepted"]
RULE = (
    "the full finite product misuse kind x decorator kind x callable kind {function, async function, method, async method, "
    "static method, class method, property setter, __init__} (x DBC / no DBC for class members): parameter named _ARGS/_KWARGS "
    "(TypeError at decoration), keyword argument so named at call (TypeError, body not entered), parameter or keyword named "
    "result/OLD on a function with postconditions (TypeError at call, body not entered), invariant condition with another "
    "mandatory parameter, coroutine-function invariant with every check_on, snapshot with no postcondition beneath it, invalid "
    "error arguments (ValueError at definition). Each misuse is paired with positive controls (the nearest legal program) "
    "that must be accepted. Monitor: exception class AND moment (definition vs. call) and zero body events before rejection. "
    "Non-trivial = every program (each is a distinct misuse/control); exhaustive over the stated product."
    ' Reserved keywords are also passed to callables without ** (and with defaults / *rest) under a precondition th'
    'at reads _ARGS/_KWARGS: TypeError, never a ViolationError on the shadowed placeholder.'
    ' Asynchronous invariant conditions also behind functools.partial (of a coroutine function, an asynchronous generator function, callable objects) and as bound methods.'
)
ASSUMPTIONS = ["invariant conditions with defaulted extra parameters and enabled=False decorators are silent zones"]

KINDS = ("function", "async", "method", "amethod", "static", "class", "setter", "init")


def render_callable(name: str, kind: str, decos: List[str], params: str, dbc: bool) -> Tuple[str, str]:
    """Return (definition source, call expression template with ARGS placeholder)."""
    body = "return HUB.body({!r}, {{}})".format(name)
    if kind == "function":
        src = "\n".join(decos + ["def {}({}):".format(name, params), "    " + body])
        return src, "{}(ARGS)".format(name)
    if kind == "async":
        src = "\n".join(decos + ["async def {}({}):".format(name, params), "    " + body])
        return src, "drive({}(ARGS))".format(name)
    base = "(icontract.DBC)" if dbc else ""
    ind = "    "
    head = ["class C_{}{}:".format(name, base)]
    if kind in ("method", "amethod"):
        sig = "self" + (", " + params if params else "")
        lines = [ind + d for d in decos] + [ind + "{}def {}({}):".format("async " if kind == "amethod" else "", name, sig), ind + "    " + body]
        call = "C_{}().{}(ARGS)".format(name, name)
        if kind == "amethod":
            call = "drive({})".format(call)
    elif kind == "static":
        lines = [ind + "@staticmethod"] + [ind + d for d in decos] + [ind + "def {}({}):".format(name, params), ind + "    " + body]
        call = "C_{}.{}(ARGS)".format(name, name)
    elif kind == "class":
        sig = "cls" + (", " + params if params else "")
        lines = [ind + "@classmethod"] + [ind + d for d in decos] + [ind + "def {}({}):".format(name, sig), ind + "    " + body]
        call = "C_{}.{}(ARGS)".format(name, name)
    elif kind == "setter":
        sig = "self" + (", " + params if params else "")
        lines = [ind + "@property", ind + "def p(self):", ind + "    return 1", ind + "@p.setter"] + [ind + d for d in decos] + [
            ind + "def p({}):".format(sig), ind + "    HUB.body({!r}, {{}})".format(name)]
        call = "setattr(C_{}(), 'p', ARGS)".format(name)
    elif kind == "init":
        sig = "self" + (", " + params if params else "")
        lines = [ind + d for d in decos] + [ind + "def __init__({}):".format(sig), ind + "    HUB.body({!r}, {{}})".format(name)]
        call = "C_{}(ARGS)".format(name)
    else:
        raise ValueError(kind)
    return "\n".join(head + lines), call


def scenarios():
    """Yield (tag, kind, dbc, definition-src, call-src or None, expected stage, expected exception name or None)."""
    n = 0
    for kind in KINDS:
        dbcs = (False,) if kind in ("function", "async") else (False, True)
        for dbc in dbcs:
            for deco_name in ("require", "ensure", "both", "placeholders"):
                decos = {"require": ["@icontract.require(lambda: True)"],
                         "ensure": ["@icontract.ensure(lambda: True)"],
                         "both": ["@icontract.ensure(lambda: True)", "@icontract.require(lambda: True)"],
                         # a condition which reads the placeholders: a keyword argument of the call that shadowed one of them would
                         # make it fail (ViolationError) instead of the documented TypeError
                         "placeholders": ["@icontract.require(lambda _ARGS, _KWARGS: isinstance(_ARGS, tuple) and isinstance(_KWARGS, dict))"],
                         }[deco_name]
                has_post = deco_name in ("ensure", "both")

                def mk(tag, params, args, stage, exc):
                    nonlocal n
                    n += 1
                    name = "f{}".format(n)
                    d, c = render_callable(name, kind, decos, params, dbc)
                    return ("{}/{}".format(tag, deco_name), kind, dbc, name, d, c.replace("ARGS", args), stage, exc)

                def mk_seq(tag, params, args_list, stage, exc):
                    """Several calls of ONE callable in a row: the verdict of a call does not depend on the calls made before."""
                    nonlocal n
                    n += 1
                    name = "f{}".format(n)
                    d, c = render_callable(name, kind, decos, params, dbc)
                    return ("{}/{}".format(tag, deco_name), kind, dbc, name, d, "(" + ", ".join(c.replace("ARGS", a) for a in args_list) + ")", stage, exc)

                def mk_twice(tag, params, args, stage, exc):
                    """The same misuse call made again after it was refused: it is refused again."""
                    nonlocal n
                    n += 1
                    name = "f{}".format(n)
                    d, c = render_callable(name, kind, decos, params, dbc)
                    return ("{}/{}".format(tag, deco_name), kind, dbc, name, d, "TWICE(lambda: {})".format(c.replace("ARGS", args)), stage, exc)

                single = kind == "setter"  # a setter has exactly one parameter
                # reserved parameter names: rejected when decorated
                for reserved in ("_ARGS", "_KWARGS"):
                    yield mk("param-" + reserved, reserved, "1", "definition", "TypeError")
                    if not single:
                        # the reserved name in every parameter position Python offers
                        yield mk("param-kwonly-default-" + reserved, "x, *, {}=None".format(reserved), "1", "definition", "TypeError")
                        yield mk("param-kwonly-" + reserved, "x, *, {}".format(reserved), "1, {}=2".format(reserved), "definition", "TypeError")
                        yield mk("param-posonly-" + reserved, "{}, /, x=0".format(reserved), "1", "definition", "TypeError")
                        yield mk("param-after-varargs-" + reserved, "x, *rest, {}=None".format(reserved), "1", "definition", "TypeError")
                        yield mk("param-varkw-" + reserved, "x, **{}".format(reserved), "1", "definition", "TypeError")
                        yield mk("param-varargs-" + reserved, "x, *{}".format(reserved), "1", "definition", "TypeError")
                # result / OLD as parameter names: call fails iff the function has postconditions
                for reserved in ("result", "OLD"):
                    yield mk("param-" + reserved, reserved, "1", "call" if has_post else "none", "TypeError" if has_post else None)
                    if not single:
                        st, ex = ("call", "TypeError") if has_post else ("none", None)
                        yield mk("param-default-" + reserved, "x, {}=3".format(reserved), "1", st, ex)
                        # ... in every parameter position Python offers, bound by the call or not
                        yield mk("param-kwonly-default-" + reserved, "x, *, {}=None".format(reserved), "1", st, ex)
                        yield mk("param-kwonly-" + reserved, "x, *, {}".format(reserved), "1, {}=2".format(reserved), st, ex)
                        yield mk("param-posonly-" + reserved, "{}, /, x=0".format(reserved), "1", st, ex)
                        yield mk("param-after-varargs-" + reserved, "x, *rest, {}=None".format(reserved), "1, 2, 3", st, ex)
                        yield mk("param-varargs-bound-" + reserved, "x, *{}".format(reserved), "1, 2", st, ex)
                        yield mk("param-varargs-unbound-" + reserved, "x, *{}".format(reserved), "1", st, ex)
                        yield mk("param-varkw-bound-" + reserved, "x, **{}".format(reserved), "1, other=2", st, ex)
                        yield mk("param-varkw-unbound-" + reserved, "x, **{}".format(reserved), "1", st, ex)
                if not single:
                    # reserved names as keyword arguments of the call
                    for reserved in ("_ARGS", "_KWARGS"):
                        yield mk("kwarg-" + reserved, "x, **kwargs", "1, {}=2".format(reserved), "call", "TypeError")
                        # ... also when the callable has no ** parameter to receive it (Python's own TypeError would come only after
                        # the conditions had been evaluated on the shadowed placeholder)
                        yield mk("kwarg-no-varkw-" + reserved, "x", "1, {}=0".format(reserved), "call", "TypeError")
                        yield mk("kwarg-no-varkw-default-" + reserved, "x, y=2, *rest", "1, {}=0".format(reserved), "call", "TypeError")
                    for reserved in ("result", "OLD"):
                        yield mk("kwarg-" + reserved, "x, **kwargs", "1, {}=2".format(reserved), "call" if has_post else "none",
                                 "TypeError" if has_post else None)
                        # ... also when valid calls of the same callable went before
                        yield mk_seq("second-call-kwarg-" + reserved, "x, **kwargs", ["1, other=2", "1", "1, {}=2".format(reserved)],
                                     "call" if has_post else "none", "TypeError" if has_post else None)
                        yield mk_twice("refused-call-repeated-kwarg-" + reserved, "x, **kwargs", "1, {}=2".format(reserved),
                                       "call" if has_post else "none", "TypeError" if has_post else None)
                        yield mk_twice("refused-call-repeated-param-default-" + reserved, "x, {}=3".format(reserved), "1",
                                       "call" if has_post else "none", "TypeError" if has_post else None)
                    for reserved in ("_ARGS", "_KWARGS"):
                        yield mk_twice("refused-call-repeated-kwarg-" + reserved, "x, **kwargs", "1, {}=2".format(reserved), "call", "TypeError")
                        yield mk_seq("second-call-kwarg-" + reserved, "x, **kwargs", ["1, other=2", "1, {}=2".format(reserved)], "call", "TypeError")
                    # positive controls
                    yield mk("control-kwargs", "x, **kwargs", "1, other=2", "none", None)
                yield mk("control-plain", "x", "1", "none", None)
            # snapshot without a postcondition beneath it
            for tag, decos, stage, exc in (
                ("snapshot-alone", ["@icontract.snapshot(lambda x: x)"], "definition", "ValueError"),
                ("snapshot-above-require", ["@icontract.snapshot(lambda x: x)", "@icontract.require(lambda x: True)"], "definition", "ValueError"),
                ("snapshot-below-ensure", ["@icontract.ensure(lambda x: True)", "@icontract.snapshot(lambda x: x)"], "definition", "ValueError"),
                ("control-snapshot-above-ensure", ["@icontract.snapshot(lambda x: x)", "@icontract.ensure(lambda x: True)"], "none", None),
            ):
                n += 1
                name = "f{}".format(n)
                d, c = render_callable(name, kind, decos, "x", dbc)
                yield (tag, kind, dbc, name, d, c.replace("ARGS", "1"), stage, exc)
    # invariants
    for dbc in (False, True):
        base = "(icontract.DBC)" if dbc else ""
        for tag, cond, stage, exc in (
            ("inv-extra-mandatory-param", "lambda self, x: True", "definition", "ValueError"),
            ("inv-other-param-only", "lambda x: True", "definition", "ValueError"),
            ("inv-two-other-params", "lambda a, b: True", "definition", "ValueError"),
            # variable parameters are parameters other than ``self`` as well
            ("inv-self-and-varargs", "lambda self, *args: True", "definition", "ValueError"),
            ("inv-self-and-varkw", "lambda self, **kwargs: True", "definition", "ValueError"),
            ("inv-varargs-only", "lambda *args: True", "definition", "ValueError"),
            ("inv-varkw-only", "lambda **kwargs: True", "definition", "ValueError"),
            ("inv-self-and-kwonly", "lambda self, *, strict: True", "definition", "ValueError"),
            ("control-inv-self", "lambda self: True", "none", None),
            ("control-inv-no-param", "lambda: True", "none", None),
        ):
            for check_on in ("", ", check_on=icontract.InvariantCheckEvent.SETATTR", ", check_on=icontract.InvariantCheckEvent.ALL"):
                n += 1
                name = "f{}".format(n)
                d = "@icontract.invariant({}{})\nclass C_{}{}:\n    def m(self):\n        return HUB.body({!r}, {{}})".format(
                    cond, check_on, name, base, name)
                yield (tag + check_on.replace(", check_on=icontract.InvariantCheckEvent.", "/"), "class", dbc, name, d,
                       "C_{}().m()".format(name), stage, exc)
        for check_on in ("", ", check_on=icontract.InvariantCheckEvent.CALL", ", check_on=icontract.InvariantCheckEvent.SETATTR",
                         ", check_on=icontract.InvariantCheckEvent.ALL"):
            for form in ("async def ainv(self):\n    return True\n", "async def ainv():\n    return True\n",
                         # a coroutine function in the guise of a callable object, and an asynchronous generator function
                         "class ACond:\n    async def __call__(this, self):\n        return True\n\n\nainv = ACond()\n",
                         "async def ainv(self):\n    yield True\n",
                         # ... and the same behind functools.partial (a shared parametrised condition with its parameter bound)
                         "async def alim(self, limit):\n    return True\n\n\nainv = functools.partial(alim, limit=1)\n",
                         "async def alim(self, limit):\n    yield True\n\n\nainv = functools.partial(alim, limit=1)\n",
                         "class ACond:\n    async def __call__(this, self, limit):\n        return True\n\n\nainv = functools.partial(ACond(), limit=1)\n",
                         "class ACond:\n    async def __call__(this, self, limit):\n        yield True\n\n\nainv = functools.partial(ACond(), limit=1)\n",
                         "class ACond:\n    async def check(this, self):\n        return True\n\n\nainv = ACond().check\n",
                         "class ACond:\n    async def check(this, self):\n        yield True\n\n\nainv = ACond().check\n"):
                n += 1
                name = "f{}".format(n)
                d = form + "@icontract.invariant(ainv{})\nclass C_{}{}:\n    def m(self):\n        return HUB.body({!r}, {{}})".format(
                    check_on, name, base, name)
                yield ("inv-coroutine-function" + check_on.replace(", check_on=icontract.InvariantCheckEvent.", "/"), "class", dbc, name, d,
                       "C_{}().m()".format(name), "definition", "ValueError")
    # reserved parameter names on an override without contracts of its own (its checker is created by the meta-class, not by a decorator)
    for member_kind, head, base_sig in (("method", "", "self, x"), ("static", "    @staticmethod\n", "x"), ("class", "    @classmethod\n", "cls, x")):
        for base_deco in ("require", "ensure"):
            for reserved_sig, stage, exc in (("_ARGS", "definition", "TypeError"), ("_KWARGS", "definition", "TypeError"),
                                             ("x, *_ARGS", "definition", "TypeError"), ("x, **_KWARGS", "definition", "TypeError"),
                                             ("x", "none", None)):
                n += 1
                name = "f{}".format(n)
                first = base_sig.split(", ")[0] + ", " if ", " in base_sig else ""
                d = ("class B_{n}(icontract.DBC):\n{h}    @icontract.{bd}(lambda: True)\n    def m({bs}):\n        return 1\n\n\n"
                     "class C_{n}(B_{n}):\n{h}    def m({f}{rs}):\n        return HUB.body({n!r}, {{}})").format(
                         n=name, h=head, bd=base_deco, bs=base_sig, f=first, rs=reserved_sig)
                tag = ("control-inherited-override" if exc is None else "inherited-override-param-" + reserved_sig.replace("x, ", "")) + "/" + member_kind + "/" + base_deco
                yield (tag, "class", True, name, d, "C_{}().m(1)".format(name), stage, exc)
    # invalid error arguments
    for deco in ("require", "ensure", "invariant"):
        cond = "lambda self: True" if deco == "invariant" else "lambda: True"
        for tag, expr, exc in (("error-int", "42", "ValueError"), ("error-str", "'oops'", "ValueError"), ("error-non-exception-class", "dict", "ValueError"),
                               # (invalid values which are falsy: only None means that no error was given)
                               ("error-zero", "0", "ValueError"), ("error-empty-str", "''", "ValueError"), ("error-false", "False", "ValueError"),
                               ("error-empty-tuple", "()", "ValueError"), ("error-empty-dict", "{}", "ValueError"),
                               ("error-builtin", "print", "ValueError"), ("error-partial", "functools.partial(ValueError, 'x')", "ValueError"),
                               ("control-error-class", "ValueError", None), ("control-error-instance", "ValueError('x')", None),
                               ("control-error-lambda", "lambda: ValueError('x')", None)):
            n += 1
            name = "f{}".format(n)
            d = "icontract.{}({}, error={})".format(deco, cond, expr)
            yield ("{}/{}".format(tag, deco), "decorator", False, name, d, None, "definition" if exc else "none", exc)


HEADER = '''
import functools
import icontract
from vkit.probe import drive

STAGE = {}


def TWICE(thunk):
    """Make the call, swallow its TypeError, make the very same call again (in the same thread, outside any task)."""
    try:
        thunk()
    except TypeError:
        pass
    return thunk()
'''


def run(w) -> None:
    items = list(scenarios())
    src = [HEADER]
    for tag, kind, dbc, name, d, c, stage, exc in items:
        src.append("try:\n" + "\n".join("    " + ln for ln in d.split("\n")) + "\n")
        src.append("except BaseException as HUB_err:\n    STAGE[{!r}] = ('definition', HUB_err)\n".format(name))
        if c is None:
            src.append("else:\n    STAGE[{!r}] = ('none', None)\n\n".format(name))
        else:
            src.append("else:\n    try:\n        HUB.log('mark', {!r})\n        {}\n    except BaseException as HUB_err:\n        STAGE[{!r}] = ('call', HUB_err)\n"
                       "    else:\n        STAGE[{!r}] = ('none', None)\n\n".format(name, c, name, name))
    loaded = prog.load_source("".join(src), w.scratch())
    try:
        res = loaded.module.STAGE
        bodies = {e.id for e in loaded.hub.events if e.kind == "body"}
        for tag, kind, dbc, name, d, c, stage, exc in items:
            got_stage, err = res[name]
            got_exc = type(err).__name__ if err is not None else None
            w.case((tag, kind, dbc))
            case = {"misuse": tag, "kind": kind, "dbc": dbc, "definition": d, "call": c}
            if exc is None:
                w.count("controls_accepted" if got_stage == "none" else "controls_rejected")
                if got_stage != "none":
                    w.violation("C19/legal-program-rejected/" + tag.split("/")[0], "legal program {} on {} raised {} at {}: {}".format(
                        tag, kind, got_exc, got_stage, str(err)[:200]), case)
                elif c is not None and name not in bodies:
                    w.violation("C19/legal-program-body-not-run/" + tag.split("/")[0], "legal program {} on {} did not run its body".format(tag, kind), case)
                continue
            if got_stage == "none":
                base_tag = tag.split("/")[0]
                key = "C19/misuse-silently-accepted/" + base_tag
                if base_tag.startswith(("param-varkw-", "param-varargs-")) and base_tag.endswith(("-result", "-OLD")):
                    # mechanism: the conflict is looked for among the resolved arguments only; a variable parameter is not among them
                    key = "C19/variadic-parameter-named-result-or-OLD-accepted"
                w.violation(key, "misuse {} on {} ({}DBC) was silently accepted (expected {} at {})".format(
                    tag, kind, "" if dbc else "no ", exc, stage), case)
                continue
            w.count("rejections_observed")
            if got_stage != stage:
                w.violation("C19/rejected-at-wrong-moment/" + tag.split("/")[0], "misuse {} on {} raised {} at {} instead of {}".format(
                    tag, kind, got_exc, got_stage, stage), case)
            elif got_exc != exc:
                w.violation("C19/wrong-exception/" + tag.split("/")[0], "misuse {} on {} raised {}: {} instead of {}".format(
                    tag, kind, got_exc, str(err)[:200], exc), case)
            if name in bodies and not tag.startswith("second-call-"):
                w.violation("C19/body-entered-before-rejection/" + tag.split("/")[0], "misuse {} on {}: the body ran although the call was rejected".format(
                    tag, kind), case)
            if len(w.samples) < 4:
                w.sample({"misuse": tag, "kind": kind, "dbc": dbc, "raised": "{} at {}".format(got_exc, got_stage)})
    finally:
        loaded.unload()
    w.exhaustive = True


def replay(case, w) -> None:
    run(w)
    w.violations = [v for v in w.violations if v["case"].get("misuse") == case.get("misuse") and v["case"].get("kind") == case.get("kind")]
