"""C06 — every value shown in a violation message is the value Python computes."""
import ast
import builtins
from typing import Any, Dict, List, Optional, Tuple

from vkit import exprs, prog

ID = "C06"
LEVEL = "exploration"
SHARDS = {"quick": 8, "thorough": 16}
TIMEOUT = {"quick": 400, "thorough": 3400}
DECIDING = ["messages_judged", "value_lines_checked", "completeness_checks"]
RULE = (
    "condition expressions from a typed grammar (vkit/exprs.py) over constants, names from arguments / closure / globals / builtins "
    "(incl. parameter names shadowing builtins and arguments bound to None), attributes, subscripts and slices, calls with "
    "positional / keyword / * / ** arguments, unary, binary, boolean and comparison operators incl. chains, conditional and "
    "assignment expressions, f-strings with conversions and format specs, list/tuple/set/dict displays, list/set/dict "
    "comprehensions, generator expressions, all(<generator>) with 1..2 for-clauses and filters - nested to depth 4, boolean "
    "operators and chains placed inside calls, subscripts and arithmetic - rendered as lambdas of require/ensure decorators in real "
    "files (also inside closures); inputs are searched (<=60 tries) until Python evaluates the condition falsy. Ground truth: an "
    "instrumented twin of the same source executed by CPython records the value of every sub-expression it evaluates (first "
    "falsifying assignment for all()). Monitors: (soundness) every `X was V` entry names a sub-expression text or a call argument "
    "and V equals a_repr.repr of a value CPython computed for that text in this evaluation; (completeness, when no name used is "
    "bound to None) every representable argument and every evaluated name, attribute, call, subscript and comprehension outside "
    "comprehension scopes is listed. Non-trivial = violated condition with a generated message; distinct = expression text."
)
ASSUMPTIONS = ["generated conditions are side-effect free", "sub-expressions inside f-string fields and results that are classes/functions are silent zones"]

CAPTURED = []  # type: List[Dict[str, Any]]
_HOOKED = False


def install_hook() -> None:
    global _HOOKED  # pylint: disable=global-statement
    if _HOOKED:
        return
    import icontract._represent as rep  # pylint: disable=import-outside-toplevel

    original = rep.repr_values

    def recording(condition, lambda_inspection, resolved_kwargs, a_repr):  # type: ignore
        parts = original(condition=condition, lambda_inspection=lambda_inspection, resolved_kwargs=resolved_kwargs, a_repr=a_repr)
        CAPTURED.append({"parts": list(parts), "kwargs": dict(resolved_kwargs), "a_repr": a_repr})
        return parts

    rep.repr_values = recording
    _HOOKED = True


def used_params(expr: str, params: List[str]) -> List[str]:
    names = {n.id for n in ast.walk(ast.parse(expr, mode="eval")) if isinstance(n, ast.Name)}
    return [p for p in params if p in names]


def render_batch(items: List[Dict[str, Any]]) -> str:
    out = ["import icontract\nimport reprlib\n", exprs.SUPPORT, "\n",
           # a representer with limits of its own for a quarter of the contracts (the values must be shown through it)
           "TIGHT_REPR = reprlib.Repr()\nTIGHT_REPR.maxlist = 3\nTIGHT_REPR.maxtuple = 3\nTIGHT_REPR.maxdict = 2\nTIGHT_REPR.maxset = 2\n"
           "TIGHT_REPR.maxstring = 12\nTIGHT_REPR.maxother = 40\nTIGHT_REPR.maxlong = 12\n\n"]
    for it in items:
        k = it["k"]
        it["custom_repr"] = (sum(ord(ch) for ch in str(k)) % 4 == 1)
        akw = ", a_repr=TIGHT_REPR" if it["custom_repr"] else ""
        # parameters of the condition which the function does not have keep their own default values
        # (positional-or-keyword or, for every other such condition, keyword-only: `lambda a, *, G_INT=25: ...`)
        lam_params = list(it["lam_params"]) + (["*"] if it.get("lam_defaults") and it.get("lam_kwonly") else []) + [
            "{}={!r}".format(n, v) for n, v in it.get("lam_defaults", {}).items()]
        deco = "require" if it["role"] == "pre" else "ensure"
        if it["role"] == "inv":
            out.append("def make_{k}(c1):\n".format(k=k))
            out.append("    @icontract.invariant(lambda self: {e}, description={d!r}{a})\n".format(e=it["expr"], d="D:" + str(k), a=akw))
            out.append("    class Inv(Holder):\n        pass\n")
            out.append("    return Inv\n")
            out.append("F_{k} = make_{k}({c1})\n\n".format(k=k, c1=it["c1"]))
            continue
        out.append("def make_{k}(c1):\n".format(k=k))
        if it.get("snapshot_of"):
            out.append("    @icontract.snapshot(lambda {p}: {p}, name={n!r})\n".format(p=it["snapshot_of"], n="old_" + it["snapshot_of"]))
        out.append("    @icontract.{deco}(lambda {ps}: {e}, description={d!r}{a})\n".format(deco=deco, ps=", ".join(lam_params), e=it["expr"], d="D:" + str(k),
                                                                                         a=akw))
        out.append("    def f({ps}):\n        return {ret}\n".format(ps=", ".join(it["params"] + it.get("extra_params", [])), ret=it.get("ret", "None")))
        out.append("    return f\n")
        out.append("F_{k} = make_{k}({c1})\n\n".format(k=k, c1=it["c1"]))
    return "".join(out)


def materialise(mod: Any, vals: Dict[str, Any]) -> Dict[str, Any]:
    out = {}
    for k, v in vals.items():
        if isinstance(v, tuple) and v and v[0] == "OBJ":
            out[k] = mod.Obj(v[1], v[2], v[3])
        else:
            out[k] = v
    return out


def classify(item: Dict[str, Any], key: str, what: str, twin: exprs.Twin, detail_text: str = "") -> str:
    expr = item["expr"]
    tree = ast.parse(expr, mode="eval")
    # mechanism keys are structural: which construct encloses / is the misreported sub-expression
    for idx, node in enumerate(twin.nodes):
        if isinstance(node, ast.BoolOp) and isinstance(node.op, ast.Or):
            seg = twin.node_text.get(idx, "")
            vals = twin.values.get(idx, [])
            # the `or` is part of the misreported text and CPython's value of it is not the object True
            if seg and seg in key and key != seg and any(v is not True for v in vals):
                return "C06/or-recomputed-as-true"
    if what == "wrong-value" and detail_text.startswith("<Placeholder>"):
        # mechanism: the internal marker for comprehension variables recorded as the value of a like-named argument
        return "C06/placeholder-shown-for-argument-hidden-by-comprehension-variable"
    if "all(" in key and what == "wrong-value" and "FirstExceptionInAll" in detail_text:
        return "C06/first-exception-object-leaks-into-enclosing-expression"
    if item.get("lam_defaults") and any(x in key for x in item["lam_defaults"]):
        return "C06/condition-default-shadowed-by-global"
    if item.get("extra_params") and any(x in key for x in item["extra_params"]):
        return "C06/call-argument-shadows-condition-variable"
    if what == "wrong-value":
        for nm, shadow in item["shadow"].items():
            if shadow in key and hasattr(builtins, shadow) and item["values"].get(shadow) is None:
                return "C06/none-argument-shadowing-builtin"
    return "C06/" + what


def judge(w, mod: Any, item: Dict[str, Any], twin: exprs.Twin, kwargs: Dict[str, Any], closure: Dict[str, Any]) -> None:
    import icontract  # pylint: disable=import-outside-toplevel

    f = getattr(mod, "F_{}".format(item["k"]))
    del CAPTURED[:]
    exc = None
    try:
        if "invoke" in item:
            item["invoke"](f)
        else:
            f(**kwargs)
    except BaseException as err:  # pylint: disable=broad-except
        exc = err
    case = {"expr": item["expr"], "role": item["role"], "values": {k: repr(v) for k, v in kwargs.items()}, "c1": item["c1"],
            "lam_defaults": item.get("lam_defaults", {}),
            "params": item["params"], "shadow": item["shadow"], "extra_params": item.get("extra_params", [])}
    w.count("violating_calls")
    if not isinstance(exc, icontract.ViolationError) or not CAPTURED:
        # no generated message: whether that is acceptable is C07's business
        w.count("calls_without_message")
        w.case(None)
        return
    cap = CAPTURED[-1]
    a_repr = cap["a_repr"]
    configured = getattr(mod, "TIGHT_REPR", None) if item.get("custom_repr") else icontract.aRepr
    if configured is not None:
        w.count("configured_repr_checks")
        if a_repr is not configured:
            w.violation("C06/values-not-shown-through-the-configured-a_repr", "the {} contract was {} but its values were represented with {}".format(
                item["role"], "given a_repr=TIGHT_REPR" if item.get("custom_repr") else "left with the default a_repr",
                "the default icontract.aRepr" if a_repr is icontract.aRepr else repr(a_repr)), case)
        a_repr = configured
    parts = cap["parts"]
    msg = str(exc)
    w.count("messages_judged")
    w.case(item["expr"])
    if any(p not in msg for p in parts):
        w.violation("C06/message-lacks-value-lines", "the message does not contain the value lines the library produced", case, {"message": msg})
    node_texts = {}  # type: Dict[str, List[int]]
    for idx, text in twin.node_text.items():
        node_texts.setdefault(text, []).append(idx)
    named = {}  # type: Dict[str, List[int]]
    for idx, node in enumerate(twin.nodes):
        if isinstance(node, ast.NamedExpr):
            named.setdefault(node.target.id, []).append(idx)
    arg_names = list(item["params"]) + item.get("extra_params", []) + ["_ARGS", "_KWARGS", "result", "OLD", "self"]
    candidates = list(node_texts) + list(named) + arg_names
    all_kwargs = dict(kwargs)
    if item["role"] == "post":
        all_kwargs["result"] = item.get("ret_value")
    if item.get("snapshot_of"):
        import types as _types  # pylint: disable=import-outside-toplevel
        all_kwargs["OLD"] = _types.SimpleNamespace(**{"old_" + item["snapshot_of"]: kwargs[item["snapshot_of"]]})
    # what the condition itself can see: module globals, its own parameters, its closure (not the other call arguments)
    env_for_eval = dict(vars(mod))
    env_for_eval.update({k: v for k, v in all_kwargs.items() if k in item["lam_params"]})
    env_for_eval.update(closure)
    env_for_eval.update(item.get("lam_defaults", {}))
    keys_shown = set()
    detail = {"message": msg, "cpython": {twin.node_text[i]: [a_repr.repr(v) for v in vals][:3] for i, vals in twin.values.items()}}
    for part in parts:
        key, vstr = exprs.split_part_with_candidates(part, candidates)
        keys_shown.add(key)
        w.count("value_lines_checked")
        truths = []  # type: List[Any]
        judged = False
        if key in named:
            for idx in named[key]:
                truths.extend(twin.values.get(idx, []))
            judged = True
        if key in node_texts:
            idxs = node_texts[key]
            for idx in idxs:
                truths.extend(twin.values.get(idx, []))
            judged = True
            if not truths:
                # the values of the iterations of an enclosing comprehension
                for idx in idxs:
                    truths.extend(getattr(twin, "scope_values", {}).get(idx, []))
                if truths and key in all_kwargs:
                    # the text also names an argument of the call (hidden by the loop variable inside the comprehension only): the entry
                    # may be the listing of that argument
                    truths.append(all_kwargs[key])
            if not truths:
                names_used = {n.id for i in idxs for n in ast.walk(twin.nodes[i]) if isinstance(n, ast.Name)}
                if any(i in twin.in_scope for i in idxs) and names_used & twin.loop_variables() and key in all_kwargs:
                    # (the text is also the name of an argument of the call: the entry is the listing of that argument)
                    truths.append(all_kwargs[key])
                elif any(i in twin.in_scope for i in idxs) and names_used & twin.loop_variables():
                    # it depends on a loop variable and Python never evaluated it: no value exists that could be shown (the same
                    # text evaluated in the enclosing scope - where a like-named argument or global may exist - is another thing)
                    w.violation("C06/value-shown-for-a-comprehension-part-python-never-evaluated", "`{} was {}` but the sub-expression depends on the "
                                "loop variable(s) {} and was not evaluated in any iteration".format(key, vstr[:80], sorted(names_used & twin.loop_variables())),
                                case, detail)
                    continue
                if any(i in twin.in_scope or i in twin.in_fstring for i in idxs):
                    # a sub-expression inside a comprehension scope / f-string that does not depend on the loop variables
                    try:
                        truths.append(eval(key, env_for_eval))  # pylint: disable=eval-used
                    except BaseException as oracle_err:  # pylint: disable=broad-except
                        # Python itself cannot compute this sub-expression: no value may be shown for it
                        detail.setdefault("python_raises", {})[key] = "{}: {}".format(type(oracle_err).__name__, oracle_err)
                elif key in all_kwargs:
                    truths.append(all_kwargs[key])
                else:
                    # CPython did not evaluate this sub-expression at all: handed to C07
                    w.count("lines_for_subexpressions_cpython_skipped")
                    continue
        if key == "OLD" and "OLD" in item["lam_params"]:
            if vstr != "a bunch of OLD values":
                w.violation("C06/wrong-value", "`OLD was {}`".format(vstr[:80]), case, detail)
            continue
        if key in all_kwargs and (not judged or key in item.get("extra_params", [])):
            # (an argument of the call that is not a parameter of the condition but is named like one of its variables
            # may be listed with either value: the entry is both "an argument of the call" and "a sub-expression")
            truths.append(all_kwargs[key])
            judged = True
        if not judged:
            w.violation("C06/line-names-no-subexpression-or-argument", "entry {!r} names neither a sub-expression of {!r} nor an argument".format(
                part[:120], item["expr"]), case, detail)
            continue
        if vstr.startswith("False, e.g., with"):
            # first falsifying assignment of all(<generator>)
            shown = [ln.strip() for ln in vstr.split("\n")[1:]]
            ok = False
            for idx in node_texts.get(key, []):
                ff = twin.all_first_falsy.get(idx)
                if ff is not None:
                    want = ["{} = {}".format(nm, a_repr.repr(val)) for nm, val in ff[1]]
                    if want == shown:
                        ok = True
            w.count("all_examples_checked")
            if not ok:
                want_dbg = [["{} = {}".format(nm, a_repr.repr(val)) for nm, val in ff[1]] for ff in twin.all_first_falsy.values()]
                w.violation("C06/all-example-is-not-the-first-falsifying-assignment",
                            "{} shows {} but the first falsifying assignment is {}".format(key, shown, want_dbg), case, detail)
            continue
        want = {a_repr.repr(v) for v in truths}
        if vstr not in want:
            vkey = classify(item, key, "wrong-value", twin, vstr)
            if "multiple values for keyword argument" in detail.get("python_raises", {}).get(key, ""):
                # mechanism: the re-computation merges **mapping into the keyword arguments without Python's duplicate check
                vkey = "C06/duplicate-keyword-argument-merged-silently"
            w.violation(vkey, "`{} was {}` but Python computes {}{}".format(
                key, vstr[:120], sorted(want)[:3], " (it raises {})".format(detail["python_raises"][key]) if key in detail.get("python_raises", {}) else ""),
                case, detail)
    # completeness
    none_bound = any(v is None for k, v in all_kwargs.items() if k in item["lam_params"]) or "G_NONE" in item["expr"]
    if none_bound:
        w.count("completeness_skipped_none_bound")
        return
    w.count("completeness_checks")
    missing = []
    for p in item["params"] + item.get("extra_params", []):
        if exprs.representable(kwargs[p]) and p not in keys_shown:
            missing.append(p)
    # (names bound by an assignment expression are variables of the condition like its arguments: a later read is an evaluated name)
    assigned = {n.target.id for n in ast.walk(ast.parse(item["expr"], mode="eval")) if isinstance(n, ast.NamedExpr)}
    loop_vars = {n.id for c in ast.walk(ast.parse(item["expr"], mode="eval")) if isinstance(c, ast.comprehension) for n in ast.walk(c.target)
                 if isinstance(n, ast.Name)}
    for idx, vals in twin.values.items():
        node = twin.nodes[idx]
        text = twin.node_text[idx]
        if isinstance(node, ast.Name):
            if node.id in all_kwargs or node.id in closure or node.id in vars(mod) or (node.id in assigned and node.id not in loop_vars):
                if exprs.representable(vals[-1]) and text not in keys_shown:
                    missing.append(text)
        elif isinstance(node, ast.Attribute):
            if exprs.representable(vals[-1]) and text not in keys_shown:
                missing.append(text)
        elif isinstance(node, (ast.Call, ast.Subscript, ast.ListComp, ast.SetComp, ast.DictComp)):
            if exprs.representable(vals[-1]) and text not in keys_shown:
                missing.append(text)
    if missing:
        key = "C06/evaluated-subexpression-not-listed"
        for idx, node in enumerate(twin.nodes):
            if isinstance(node, ast.BoolOp) and isinstance(node.op, ast.Or):
                seg = twin.node_text.get(idx, "")
                if any(seg and seg in m for m in missing) and any(v is not True for v in twin.values.get(idx, [])):
                    key = "C06/or-recomputed-as-true"
        w.violation(key, "not listed although Python evaluated them: {}".format(sorted(set(missing))[:5]), case, detail)
    if w.counters["messages_judged"] % 211 == 1:
        w.sample({"expr": item["expr"], "values": case["values"], "lines": parts[:8]})


def run_batch(w, batch_no: int, n_items: int, guarded_bias: float) -> None:
    rng = w.rng
    items = []
    for i in range(n_items):
        shadow = rng.choice(exprs.SHADOW_SETS) if rng.random() < 0.3 else {}
        none_shadow = rng.random() < 0.04
        if none_shadow:
            shadow = rng.choice(({"n": "id"}, {"n": "type"}, {"n": "max"}, {"n": "len"}))
        env = exprs.Env(rng, shadow, with_none=none_shadow or rng.random() < 0.3)
        g = exprs.Gen(rng, env, max_depth=rng.choice((2, 3, 4)), guarded_bias=guarded_bias)
        role = "pre" if rng.random() < 0.8 else "post"
        try:
            expr = g.condition()
            if none_shadow:
                # an argument named like a builtin, possibly bound to None, inside a displayed call
                expr = "str({n}) == {s} and ({rest})".format(n=env.names["n"], s=g.str_expr(2), rest=expr) if env.can_use("str") else expr
            ast.parse(expr, mode="eval")
        except (SyntaxError, RecursionError):
            continue
        params = env.params()
        lam = used_params(expr, params)
        snapshot_of = None
        if role == "post" and rng.random() < 0.7:
            expr = "({}) and result is None".format(expr) if rng.random() < 0.5 else "result is None and ({})".format(expr)
            lam = lam + ["result"]
        if role == "post" and lam and lam[0] != "result" and rng.random() < 0.5:
            snapshot_of = lam[0]
            expr = "OLD.old_{p} == {p} and ({e})".format(p=snapshot_of, e=expr)
            lam = lam + ["OLD"]
        lam_defaults = {}
        if role == "pre" and rng.random() < 0.12:
            # a parameter of the CONDITION (not of the function) with a default, named like a global the condition uses
            for gname, gval in (("G_INT", rng.randint(20, 30)), ("G_STR", "dflt"), ("G_LIST", [9, 8])):
                if gname in expr and rng.random() < 0.7:
                    lam_defaults[gname] = gval
        extra = []
        if not lam_defaults and rng.random() < 0.15:
            # the function (not the condition) has parameters named like a global / the closure variable the condition uses
            extra = [x for x in ("G_INT", "c1", "G_LIST") if x in expr and rng.random() < 0.7]
        items.append({"k": "{}_{}".format(batch_no, i), "expr": expr, "params": params, "lam_params": lam, "role": role,
                      "c1": env.closure["c1"], "env": env, "shadow": shadow, "ret_value": None, "extra_params": extra,
                      "snapshot_of": snapshot_of, "lam_defaults": lam_defaults, "lam_kwonly": rng.random() < 0.5})
    loaded = prog.load_source(render_batch(items), w.scratch())
    mod = loaded.module
    try:
        for it in items:
            env = it["env"]
            names = [p for p in it["lam_params"] if p not in ("result", "OLD")]
            try:
                twin = exprs.Twin(it["expr"], names + [x for x in ("result", "OLD") if x in it["lam_params"]] + list(it.get("lam_defaults", {})), ["c1"])
            except Exception as err:  # pylint: disable=broad-except
                w.mark_inconclusive("twin construction failed for {!r}: {!r}".format(it["expr"], err))
                continue
            found = None
            for _ in range(60):
                vals = materialise(mod, env.values(rng))
                tw_kwargs = {n: vals[n] for n in names}
                if "result" in it["lam_params"]:
                    tw_kwargs["result"] = None
                if "OLD" in it["lam_params"]:
                    import types as _types  # pylint: disable=import-outside-toplevel
                    tw_kwargs["OLD"] = _types.SimpleNamespace(**{"old_" + it["snapshot_of"]: vals[it["snapshot_of"]]})
                tw_kwargs["c1"] = it["c1"]
                tw_kwargs.update(it.get("lam_defaults", {}))
                raised, value = twin.evaluate(vars(mod), tw_kwargs)
                if raised:
                    continue
                try:
                    if not value:
                        found = vals
                        break
                except Exception:  # pylint: disable=broad-except
                    continue
            w.count("conditions_generated")
            if found is None:
                w.count("conditions_never_falsy")
                continue
            for x in it.get("extra_params", []):
                found[x] = 1000 + len(x)
            it["values"] = {k: v for k, v in found.items()}
            judge(w, mod, it, twin, found, {"c1": it["c1"]})
    finally:
        loaded.unload()


ATTR_OF = {"a": "v", "b": "w", "s": "name", "xs": "items", "d": "d", "n": "n", "o": "child"}


def to_invariant_expr(expr: str) -> str:
    """Rewrite the parameter names of a generated condition into attributes of ``self``."""
    tree = ast.parse(expr, mode="eval")

    class T(ast.NodeTransformer):
        def visit_Name(self, node):  # type: ignore
            if node.id in ATTR_OF and isinstance(node.ctx, ast.Load):
                return ast.Attribute(value=ast.Name(id="self", ctx=ast.Load()), attr=ATTR_OF[node.id], ctx=ast.Load())
            return node

    return ast.unparse(T().visit(tree).body)


def run_invariant_batch(w, batch_no: int, n_items: int) -> None:
    """Invariant conditions (lambda self: ...) violated right after construction."""
    rng = w.rng
    items = []
    for i in range(n_items):
        env = exprs.Env(rng, {}, with_none=rng.random() < 0.3)
        g = exprs.Gen(rng, env, max_depth=rng.choice((2, 3)), features={"comprehension", "all", "fstring", "star"})
        try:
            expr = to_invariant_expr(g.condition())
            ast.parse(expr, mode="eval")
        except (SyntaxError, RecursionError):
            continue
        if "self" not in expr:
            continue
        items.append({"k": "i{}_{}".format(batch_no, i), "expr": expr, "params": ["self"], "lam_params": ["self"], "role": "inv",
                      "c1": env.closure["c1"], "env": env, "shadow": {}, "ret_value": None})
    loaded = prog.load_source(render_batch(items), w.scratch())
    mod = loaded.module
    try:
        for it in items:
            try:
                twin = exprs.Twin(it["expr"], ["self"], ["c1"])
            except Exception:  # pylint: disable=broad-except
                continue
            found = None
            for _ in range(60):
                vals = materialise(mod, it["env"].values(rng))
                ctor = {ATTR_OF[k]: vals[k] for k in ATTR_OF}
                plain = mod.Holder(**ctor)
                raised, value = twin.evaluate(vars(mod), {"self": plain, "c1": it["c1"]})
                if raised:
                    continue
                try:
                    if not value:
                        found = (ctor, plain)
                        break
                except Exception:  # pylint: disable=broad-except
                    continue
            w.count("conditions_generated")
            if found is None:
                w.count("conditions_never_falsy")
                continue
            ctor, plain = found
            it["values"] = {"self": plain}
            it["invoke"] = lambda cls, ctor=ctor: cls(**ctor)
            w.count("invariant_conditions_judged")
            judge(w, mod, it, twin, {"self": plain}, {"c1": it["c1"]})
    finally:
        loaded.unload()


def run_multiline_literals(w) -> None:
    """String literals and f-strings which span several source lines inside the lambda of an INDENTED decorator (a method, a function
    defined in a function): the value shown for an expression that uses the literal is the value of the constant Python compiled -
    the blanks at the start of its continuation lines belong to it."""
    import re  # pylint: disable=import-outside-toplevel

    import icontract  # pylint: disable=import-outside-toplevel

    literals = [
        ('triple-quoted', '"""ab\n{pad}cd"""'), ('triple-quoted-three-lines', '"""ab\n{pad}cd\n{pad}  ef"""'),
        ('f-string', 'f"""<{{x}}\n{pad}>{{x}}"""'), ('backslash-continued', '"ab\\\n{pad}cd"'),
        ('continuation-in-the-margin', '"""ab\ncd"""'),
    ]
    parts = ["import icontract\n\n"]
    expected = {}
    n = 0
    for indent in (4, 8, 12):
        for pad_extra in (0, 2):
            for tag, template in literals:
                n += 1
                pad = " " * (indent + pad_extra)
                lit = template.format(pad=pad)
                margin = " " * indent
                # (rendered as a method of a class nested as deeply as the indentation asks for)
                depth = indent // 4
                lines = []
                for level in range(depth):
                    lines.append(" " * (4 * level) + "class L{}_{}:".format(n, level))
                lines.append(margin + "@icontract.require(lambda x: len(" + lit + ") < x)")
                lines.append(margin + "def m(self, x):")
                lines.append(margin + "    return x")
                parts.append("\n".join(lines) + "\n\n\n")
                expected[n] = (tag, indent, pad_extra, lit, ".".join("L{}_{}".format(n, level) for level in range(depth)))
    loaded = prog.load_source("".join(parts), w.scratch())
    mod = loaded.module
    try:
        for n, (tag, indent, pad_extra, lit, path) in expected.items():
            x = 0
            want = len(eval(lit, {"x": x}))  # pylint: disable=eval-used
            holder = mod
            for name in path.split("."):
                holder = getattr(holder, name)
            try:
                holder().m(x)
                msg = "<returned>"
            except icontract.ViolationError as err:
                msg = str(err)
            except BaseException as err:  # pylint: disable=broad-except
                msg = "<raised {}: {}>".format(type(err).__name__, str(err)[:200])
            found = re.findall(r"\) was (\d+)$", msg, flags=re.M)
            w.count("violating_calls")
            w.count("messages_judged")
            w.count("multiline_literal_messages")
            w.count("value_lines_checked")
            w.case(("multiline-literal", tag, indent, pad_extra))
            if found != [str(want)]:
                w.violation("C06/wrong-value", "{} literal in a decorator indented by {} (continuation lines indented by {}): the message shows "
                            "len(...) as {} but Python computes {}: {!r}".format(tag, indent, indent + pad_extra, found, want, msg[-200:]),
                            {"multiline_literal": tag, "indent": indent})
    finally:
        loaded.unload()


def run(w) -> None:
    install_hook()
    if w.shard == 1 % w.nshards:
        run_multiline_literals(w)
    n_batches = (6000 if w.tier == "thorough" else 400)
    for b in range(n_batches):
        if b % w.nshards != w.shard:
            continue
        run_batch(w, b, 40, guarded_bias=0.0)
        if b % 4 == 0:
            run_invariant_batch(w, b, 40)
    w.exhaustive = False


def replay(case, w) -> None:
    install_hook()
    if "multiline_literal" in case:
        run_multiline_literals(w)
        return
    rng = w.rng
    shadow = case.get("shadow", {})
    env = exprs.Env(rng, shadow)
    params = case["params"]
    expr = case["expr"]
    lam = used_params(expr, params + ["result"])
    it = {"k": "r_0", "expr": expr, "params": params, "lam_params": lam, "role": case.get("role", "pre"), "c1": case.get("c1", 0), "env": env,
          "shadow": shadow, "ret_value": None, "extra_params": case.get("extra_params", [])}
    loaded = prog.load_source(render_batch([it]), w.scratch())
    mod = loaded.module
    try:
        env_eval = dict(vars(mod))
        vals = {k: eval(v, env_eval) for k, v in case["values"].items()}  # pylint: disable=eval-used
        names = [p for p in lam if p != "result"]
        twin = exprs.Twin(expr, names + (["result"] if "result" in lam else []), ["c1"])
        tw = {n: vals[n] for n in names}
        if "result" in lam:
            tw["result"] = None
        tw["c1"] = it["c1"]
        twin.evaluate(vars(mod), tw)
        it["values"] = vals
        judge(w, mod, it, twin, vals, {"c1": it["c1"]})
    finally:
        loaded.unload()
