"""C08 — OLD snapshots: captured once, after the preconditions and before the body; misuse rejected at definition."""
import inspect
import itertools
from typing import Any, Dict, List

from vkit import gen, probe, prog, runner
from vkit.model import Model

ID = "C08"
LEVEL = "exploration"
SHARDS = {"quick": 4, "thorough": 16}
TIMEOUT = {"quick": 240, "thorough": 3000}
DECIDING = ["capture_events", "calls_pre_false_with_snapshots", "old_identity_checks", "misuse_programs"]
RULE = (
    "(a) callables with 0..3 snapshots and 0..3 postconditions, own and inherited through DAGs of <=3 (sampled 4) classes, every "
    "member kind, sync/async, captures as defs/lambdas/coroutine functions/awaitable-returning functions, captures returning "
    "copies or aliases of arguments, bodies that mutate arguments or raise; ALL truth assignments over the preconditions and "
    "postconditions (cap 32/64): capture events must occur exactly once each, after the last precondition and before the body, "
    "never when a precondition failed or no postcondition exists; OLD.<name> seen by postconditions and error factories is "
    "(by identity) what the capture returned. (b) definition-time misuse matrix (duplicate names on one function and across "
    "a hierarchy, unnamed capture with 0 / >=2 parameters, snapshot without a postcondition beneath it — directly or above "
    "only preconditions — on every callable kind) must raise ValueError at definition; (c) reading an uncaptured OLD name "
    "must raise AttributeError naming it. Non-trivial = a snapshot was declared on the callable; distinct = (shape, kind, "
    "async, class, truth vector, script)."
    ' Fixed scenario: captured values that are awaitable objects of their own right (object with __await__, finishe'
    'd future) reach postconditions and error factories as the very object, un-awaited (sync and async).'
    ' One snapshot decorator OBJECT applied twice to one function is the same name given twice (ValueError at definition).'
)
ASSUMPTIONS = ["reference model encodes the statement's snapshot rules"]


def classify(d: runner.Discrepancy, exp, obs) -> str:
    if d.kind == "old-identity":
        return "C08/OLD-not-the-captured-object"
    if d.kind == "events":
        ea, oa = d.info.get("expected_at"), d.info.get("observed_at")
        kinds = {x[0] for x in (ea, oa) if x is not None}
        if "snap" in kinds:
            if oa is not None and oa[0] == "snap" and (ea is None or ea[0] != "snap"):
                return "C08/capture-at-wrong-point-or-unexpected"
            return "C08/capture-missing-or-late"
        return "C08/trace-differs"
    return "C08/" + d.kind


def judge(w, loaded, model, contracts, call, meta, n_snaps_declared: int) -> None:
    exp, obs, discs = runner.run_case(loaded, model, contracts, call, check_identity=True)
    keys = obs.keys()
    n_snap = sum(1 for k in keys if k[0] == "snap")
    w.count("capture_events", n_snap)
    w.count("events", len(keys))
    if exp.outcome[0] == "violation" and not any(e[0] == "body" for e in exp.events) and n_snaps_declared:
        w.count("calls_pre_false_with_snapshots")
    for ev in obs.events:
        if ev.got and "OLD" in ev.got:
            w.count("old_identity_checks")
    nontrivial = None
    if n_snaps_declared:
        nontrivial = (meta, tuple(sorted((k, str(v)) for k, v in call.get("truth", {}).items())), str(sorted(call.get("body", {}).items())))
    w.case(nontrivial)
    w.distinct("traces", keys)
    # direct statement of the property on the observed log (independent of the model's exact trace)
    case = {"prog": model.prog, "call": call, "meta": meta}
    detail = {"expected": repr(exp), "observed": obs.describe()}
    snap_ids = [k[1] for k in keys if k[0] == "snap"]
    if len(set(snap_ids)) != len(snap_ids) and not exp.has_dups:
        w.violation("C08/captured-more-than-once", "a capture ran more than once in one call: {}".format(snap_ids), case, detail)
    if snap_ids:
        first_snap = min(i for i, k in enumerate(keys) if k[0] == "snap")
        last_snap = max(i for i, k in enumerate(keys) if k[0] == "snap")
        body_idx = [i for i, k in enumerate(keys) if k[0] == "body"]
        if body_idx and last_snap > body_idx[0]:
            w.violation("C08/captured-after-body-started", "capture event after the body started: {}".format(keys), case, detail)
    for d in discs:
        w.violation(classify(d, exp, obs), d.what, case, detail)
    if w.counters["evaluations"] % 89 == 1 and n_snap:
        w.sample({"call": call, "meta": meta, "observed": obs.describe()})


def truths(w, ids: List[str], snap_ids: List[str], cap: int):
    for truth in gen.all_truth(ids, w.rng, cap):
        for sid in snap_ids:
            if w.rng.random() < 0.3:
                truth["snap:" + sid] = "alias"
        yield truth


def run_spec(w, spec, meta_base) -> None:
    rng = w.rng
    model = Model(spec)
    contracts = runner.index_contracts(spec)
    loaded = prog.load(spec, w.scratch())
    cap = 64 if w.tier == "thorough" else 32
    try:
        for d in runner.check_definitions(loaded, model):
            w.violation("C08/definition", d.what, {"prog": spec})
        for name, err in loaded.hub.creation_errors.items():
            if name in model.funcs:
                w.violation("C08/definition", "function {} failed to define: {!r}".format(name, err), {"prog": spec})
        scripts = [{}, {"mutate": ["x"]}, {"raise": "BodyError"}]
        for m in spec.get("funcs", []):
            ids = [c["id"] for dk, c in m["decos"] if dk in ("pre", "post")]
            sids = [c["id"] for dk, c in m["decos"] if dk == "snap"]
            for truth in truths(w, ids, sids, cap):
                judge(w, loaded, model, contracts, {"target": "func", "name": m["name"], "truth": truth,
                                                    "body": {"*": rng.choice(scripts)}}, meta_base + (m["async"],), len(sids))
        kind = spec.get("kind")
        for cls in model.classes:
            if loaded.get(cls) is None:
                continue
            if kind in ("init", "new"):
                key = "__init__" if kind == "init" else "__new__"
                o = model.owner(cls, key)
                if o is None:
                    continue
                m = model.defines(o, key)
                ids = [c["id"] for dk, c in m["decos"] if dk in ("pre", "post")]
                sids = [c["id"] for dk, c in m["decos"] if dk == "snap"]
                for truth in truths(w, ids, sids, cap):
                    judge(w, loaded, model, contracts, {"target": "construct", "cls": cls, "truth": truth}, meta_base + (cls,), len(sids))
                continue
            key = spec["key"]
            o = model.owner(cls, key)
            if o is None:
                continue
            ids = [i for i in gen.effective_ids(model, cls, key) if not i.startswith("i")]
            sids = [s["id"] for s in model.eff_snaps(o, key)]
            for truth in truths(w, ids, sids, cap):
                judge(w, loaded, model, contracts, {"target": "member", "cls": cls, "key": key, "truth": truth,
                                                    "body": {"*": rng.choice(scripts)}}, meta_base + (cls,), len(sids))
    finally:
        loaded.unload()


def specs(w):
    rng = w.rng
    # (the plan - which programs exist, in which order - comes from a stream that is the same in every shard, so that the running
    # index means the same program everywhere; only the content of a program comes from the shard's own stream)
    plan = __import__("random").Random("C08-plan/{}/{}".format(w.tier, getattr(w, "seed", 0)))
    thorough = w.tier == "thorough"
    shapes = gen.dag_shapes(1) + gen.dag_shapes(2) + gen.dag_shapes(3)
    shapes4 = gen.dag_shapes(4)
    kinds = ["method", "static", "class", "pget", "pset", "pdel", "init", "new"]
    idx = 0
    for rnd in range(40 if thorough else 4):
        for is_async in (False, True):
            idx += 1
            if idx % w.nshards == w.shard:
                ids = gen.Ids()
                funcs = []
                for n_post in range(0, 4):
                    for n_snap in range(0, 4):
                        for n_pre in (0, 1, 2):
                            funcs.append(gen.make_member(ids, rng, "function", ids.new("f"), is_async, n_pre, n_post, n_snap))
                yield ("funcs",), {"funcs": funcs, "classes": []}
        for shape in shapes + plan.sample(shapes4, 30 if thorough else 8):
            for kind in (kinds if len(shape) <= 2 else plan.sample(kinds, 4)):
                for is_async in ((False, True) if kind in ("method", "static", "class") else (False,)):
                    idx += 1
                    if idx % w.nshards != w.shard:
                        continue
                    ids = gen.Ids()
                    choices = [rng.choice(("absent", "post", "both", "both", "pre")) for _ in shape]
                    choices[0] = rng.choice(("post", "both"))
                    spec = gen.hier_program(ids, rng, shape, kind, is_async, choices=choices, inv_prob=0.15,
                                            max_conj=3 if thorough else 2, avoid_mixed=True)
                    # more snapshots per member
                    yield (str(shape), kind, is_async), spec


# ---------------------------------------------------------------------------------------------------------------------
# (b) definition-time misuse and (c) unknown OLD names
# ---------------------------------------------------------------------------------------------------------------------

KIND_WRAP = {
    "function": ("", "def {name}(x):\n    return x\n"),
    "async": ("", "async def {name}(x):\n    return x\n"),
    "method": ("class_", "def {name}(self, x):\n    return x\n"),
    "amethod": ("class_", "async def {name}(self, x):\n    return x\n"),
    "static": ("class_", "def {name}(x):\n    return x\n"),
    "class": ("class_", "def {name}(cls, x):\n    return x\n"),
    "property": ("class_", "def {name}(self):\n    return 1\n"),
}


def misuse_source(kind: str, decos: List[str], name: str, dbc: bool) -> str:
    """Render one definition attempt wrapped in try/except which records the exception."""
    where, template = KIND_WRAP[kind]
    arg = "self" if kind == "property" else "x"
    lines = []
    body = []
    pre = {"static": "@staticmethod", "class": "@classmethod", "property": "@property"}.get(kind)
    if pre:
        body.append(pre)
    body.extend(d.replace("ARG", arg) for d in decos)
    body.extend(template.format(name=name).rstrip("\n").split("\n"))
    if where == "class_":
        lines.append("class C_{}({}):".format(name, "icontract.DBC" if dbc else ""))
        lines.extend("    " + b for b in body)
    else:
        lines.extend(body)
    src = "try:\n" + "\n".join("    " + ln for ln in lines) + "\n"
    src += "except BaseException as HUB_err:\n    HUB.definition_failed({!r}, HUB_err)\nelse:\n    HUB.defined({!r}, True)\n\n".format(name, name)
    return src


MISUSES = [
    # (tag, decorator lines top->bottom, expected exception type name or None)
    ("dup-same-function", ["@icontract.snapshot(lambda ARG: 1, name='a')", "@icontract.snapshot(lambda ARG: 2, name='a')",
                           "@icontract.ensure(lambda result: True)"], "ValueError"),
    ("dup-default-and-custom-name", ["@icontract.snapshot(lambda ARG: 1)", "@icontract.snapshot(lambda: 2, name='ARG')",
                                     "@icontract.ensure(lambda result: True)"], "ValueError"),
    # (one decorator OBJECT applied twice to one function is the same name given twice; on different functions it is fine, and every
    # definition attempt of this matrix shares these two objects)
    ("dup-same-object-twice", ["@SHARED_SNAP_ARG", "@SHARED_SNAP_ARG", "@icontract.ensure(lambda result: True)"], "ValueError"),
    ("dup-same-object-next-to-each-ensure", ["@SHARED_SNAP_ARG", "@icontract.ensure(lambda result: True)", "@SHARED_SNAP_ARG",
                                             "@icontract.ensure(lambda OLD: True)"], "ValueError"),
    ("ok-shared-object-once", ["@SHARED_SNAP_ARG", "@icontract.ensure(lambda OLD: OLD.a == 1)"], None),
    ("unnamed-zero-params", ["@icontract.snapshot(lambda: 1)", "@icontract.ensure(lambda result: True)"], "ValueError"),
    ("unnamed-two-params", ["@icontract.snapshot(lambda ARG, y=1: 1)", "@icontract.ensure(lambda result: True)"], "ValueError"),
    ("no-postcondition-at-all", ["@icontract.snapshot(lambda ARG: 1)"], "ValueError"),
    ("above-only-require", ["@icontract.snapshot(lambda ARG: 1)", "@icontract.require(lambda ARG: True)"], "ValueError"),
    ("above-two-requires", ["@icontract.snapshot(lambda ARG: 1, name='q')", "@icontract.require(lambda ARG: True)",
                            "@icontract.require(lambda: True)"], "ValueError"),
    ("below-the-only-ensure", ["@icontract.ensure(lambda result: True)", "@icontract.snapshot(lambda ARG: 1)"], "ValueError"),
    ("ok-named-zero-params", ["@icontract.snapshot(lambda: 1, name='a')", "@icontract.ensure(lambda result: True)"], None),
    ("ok-two-names", ["@icontract.snapshot(lambda ARG: 1, name='a')", "@icontract.snapshot(lambda ARG: 2, name='b')",
                      "@icontract.ensure(lambda result: True)"], None),
    ("ok-above-ensure-and-require", ["@icontract.snapshot(lambda ARG: 1)", "@icontract.require(lambda: True)",
                                     "@icontract.ensure(lambda result: True)"], None),
]

HIER_MISUSE = '''
class HB_{n}(icontract.DBC):
    {deco1}
    @icontract.snapshot(lambda x: 1, name={nm1!r})
    @icontract.ensure(lambda result: True)
    def f(self, x):
        return x
try:
    class HC_{n}(HB_{n}):
        {deco2}
        @icontract.snapshot(lambda x: 2, name={nm2!r})
        @icontract.ensure(lambda result: True)
        def f(self, x):
            return x
except BaseException as HUB_err:
    HUB.definition_failed("HC_{n}", HUB_err)
else:
    HUB.defined("HC_{n}", True)
'''

HIER_TWO_BASES = '''
class HL_{n}(icontract.DBC):
    @icontract.snapshot(lambda x: ("left", x), name={nm1!r})
    @icontract.ensure(lambda OLD, result: True)
    def f(self, x):
        return x
class HR_{n}(icontract.DBC):
    @icontract.snapshot(lambda x: ("right", x), name={nm2!r})
    @icontract.ensure(lambda OLD, result: True)
    def f(self, x):
        return x
try:
    class HJ_{n}(HL_{n}, HR_{n}):
        {own}
        def f(self, x):
            return x
except BaseException as HUB_err:
    HUB.definition_failed("HJ_{n}", HUB_err)
else:
    HUB.defined("HJ_{n}", True)
'''

OLD_UNKNOWN = '''
@icontract.snapshot(lambda x: x, name="known")
@icontract.ensure(lambda OLD, result: OLD.{attr} is not None, error=ValueError("never raised"))
def f_old_{n}(x):
    return x

class K_old_{n}(icontract.DBC):
    @icontract.ensure(lambda OLD: OLD.{attr} is not None, error=ValueError("never raised"))
    def m(self, x):
        return x
'''


def run_misuse(w) -> None:
    src = ["import icontract\n\nSHARED_SNAP_x = icontract.snapshot(lambda x: 1, name='a')\nSHARED_SNAP_self = icontract.snapshot(lambda self: 1, name='a')\n\n"]
    expect = {}  # type: Dict[str, Any]
    n = 0
    for kind in KIND_WRAP:
        for tag, decos, want in MISUSES:
            for dbc in ((False, True) if KIND_WRAP[kind][0] else (False,)):
                n += 1
                name = "d{}".format(n)
                src.append(misuse_source(kind, decos, name, dbc))
                expect[name] = (kind, tag, dbc, want)
    hn = 0
    for nm1, nm2, want in (("a", "a", "ValueError"), ("a", "b", None), ("x", "x", "ValueError")):
        hn += 1
        src.append(HIER_MISUSE.format(n=hn, nm1=nm1, nm2=nm2, deco1="", deco2=""))
        expect["HC_{}".format(hn)] = ("hierarchy", "inherited-name-{}-{}".format(nm1, nm2), True, want)
    # the same name coming from two different bases (two different captures: one of them would be lost)
    jn = 0
    for nm1, nm2, want in (("a", "a", "ValueError"), ("a", "b", None), ("x", "x", "ValueError")):
        for own_tag, own in (("plain-override", ""), ("override-with-ensure", "@icontract.ensure(lambda result: True)"),
                             ("override-with-own-snapshot", "@icontract.snapshot(lambda x: 3, name='own')\n        @icontract.ensure(lambda OLD: True)")):
            jn += 1
            src.append(HIER_TWO_BASES.format(n=jn, nm1=nm1, nm2=nm2, own=own))
            expect["HJ_{}".format(jn)] = ("hierarchy-two-bases", "names-{}-{}-{}".format(nm1, nm2, own_tag), True, want)
    loaded = prog.load_source("".join(src), w.scratch())
    try:
        hub = loaded.hub
        for name, (kind, tag, dbc, want) in expect.items():
            w.count("misuse_programs")
            err = hub.creation_errors.get(name)
            got = type(err).__name__ if err is not None else None
            w.case(("misuse", kind, tag, dbc))
            case = {"misuse": tag, "kind": kind, "dbc": dbc}
            if got != want:
                key = "C08/misuse-{}-{}".format(tag, "accepted" if got is None else "raised-" + got)
                if got is None and tag.startswith("above-"):
                    key = "C08/snapshot-above-require-only-accepted"
                if want is None:
                    key = "C08/valid-snapshot-rejected-{}".format(tag)
                w.violation(key, "snapshot misuse {!r} on {} ({}DBC): expected {}, got {}".format(
                    tag, kind, "" if dbc else "no ", want, "{}: {}".format(got, str(err)[:200]) if err else "accepted silently"), case)
    finally:
        loaded.unload()
    # (c) unknown OLD attribute
    for n, attr in enumerate(("missing", "x", "result", "_private")):
        loaded = prog.load_source("import icontract\n" + OLD_UNKNOWN.format(n=n, attr=attr), w.scratch())
        try:
            f = getattr(loaded.module, "f_old_{}".format(n))
            w.case(("old-unknown", attr))
            w.count("misuse_programs")
            try:
                f(1)
                w.violation("C08/unknown-OLD-name-not-reported", "reading OLD.{} returned normally".format(attr), {"attr": attr})
            except AttributeError as err:
                if attr not in str(err):
                    w.violation("C08/unknown-OLD-name-not-named", "AttributeError does not name {!r}: {}".format(attr, err), {"attr": attr})
            except BaseException as err:  # pylint: disable=broad-except
                w.violation("C08/unknown-OLD-name-wrong-exception", "reading OLD.{} raised {}: {}".format(
                    attr, type(err).__name__, str(err)[:200]), {"attr": attr})
            # postcondition asking for OLD without any snapshot: TypeError naming OLD (C05's clause), not a wrong value
            k = getattr(loaded.module, "K_old_{}".format(n))()
            try:
                k.m(1)
                w.violation("C08/OLD-without-snapshot-not-reported", "postcondition asking for OLD without snapshots ran", {"attr": attr})
            except TypeError as err:
                if "OLD" not in str(err):
                    w.violation("C08/OLD-without-snapshot-not-named", "TypeError does not name OLD: {}".format(err), {"attr": attr})
            except BaseException as err:  # pylint: disable=broad-except
                w.violation("C08/OLD-without-snapshot-wrong-exception", "{}: {}".format(type(err).__name__, str(err)[:200]), {"attr": attr})
        finally:
            loaded.unload()


AWAITABLE_VALUES_SOURCE = '''
import icontract

SEEN = []


class Ticket:
    """An awaitable value of its own right (the way an asyncio.Future or a Task is); awaiting it is an observable operation."""

    def __init__(self, name):
        self.name = name
        self.awaited = 0

    def __await__(self):
        self.awaited += 1
        return iter(())


def take(box):
    return box["ticket"]


def record(box, result, OLD):
    SEEN.append(("post", OLD.before))
    return True


def record_falsy(box, result, OLD):
    SEEN.append(("post", OLD.before))
    return False


def make_error(OLD):
    SEEN.append(("error", OLD.before))
    return ValueError("violated")


@icontract.snapshot(take, name="before")
@icontract.ensure(record)
{a}def f(box):
    box["ticket"] = None
    return 1


@icontract.snapshot(lambda box: box["ticket"], name="before")
@icontract.ensure(record_falsy, error=make_error)
{a}def g(box):
    box["ticket"] = None
    return 1
'''


def run_awaitable_values(w) -> None:
    """The captured value is an awaitable object of its own right (not a coroutine): postconditions and error factories must see
    that very object as OLD.<name>, for sync and async callables alike, and the checker must not have awaited it."""
    import asyncio  # pylint: disable=import-outside-toplevel

    for is_async in (False, True):
        loaded = prog.load_source(AWAITABLE_VALUES_SOURCE.replace("{a}", "async " if is_async else ""), w.scratch())
        mod = loaded.module
        try:
            for fname in ("f", "g"):
                for kind in ("object-with-__await__", "finished-future"):
                    loop = None
                    if kind == "finished-future":
                        loop = asyncio.new_event_loop()
                        ticket = loop.create_future()
                        ticket.set_result("outcome")
                    else:
                        ticket = mod.Ticket("t")
                    del mod.SEEN[:]
                    try:
                        res = getattr(mod, fname)({"ticket": ticket})
                        if is_async:
                            res = loop.run_until_complete(res) if loop is not None else probe.drive(res)
                        outcome = "returned"
                    except ValueError:
                        outcome = "violation"
                    except BaseException as err:  # pylint: disable=broad-except
                        outcome = "raised {}: {}".format(type(err).__name__, str(err)[:100])
                    finally:
                        if loop is not None:
                            loop.close()
                    w.count("old_identity_checks", len(mod.SEEN))
                    w.count("awaitable_value_calls")
                    w.case(("awaitable-captured-value", fname, kind, is_async))
                    want_outcome = "returned" if fname == "f" else "violation"
                    want_seen = [("post", ticket)] if fname == "f" else [("post", ticket), ("error", ticket)]
                    awaited = getattr(ticket, "awaited", 0)
                    if outcome != want_outcome or len(mod.SEEN) != len(want_seen) or any(a[0] != b[0] or a[1] is not b[1] for a, b in zip(mod.SEEN, want_seen)) \
                            or awaited:
                        w.violation("C08/captured-awaitable-value-not-handed-over-as-captured", "{}{}: the capture returned {!r}; the postcondition / "
                                    "error factory saw {!r} as OLD.before, the call {}, the value was awaited {} time(s) by the checker".format(
                                        "async " if is_async else "", fname, ticket, mod.SEEN, outcome, awaited),
                                    {"awaitable_values": fname, "async": is_async, "kind": kind})
        finally:
            loaded.unload()


def run(w) -> None:
    w.exhaustive = False
    if w.shard == 1 % w.nshards:
        run_awaitable_values(w)
        run_self_referring_captures(w)
    for meta, spec in specs(w):
        w.count("programs")
        run_spec(w, spec, meta)
    if w.shard == 0:
        run_misuse(w)


SELF_REFERRING_SOURCE = '''
import icontract


def balance_before(self):
    HUB.capture("cap:balance", {{}})
    return {w}self.balance()


{a}def same_as_before(self, result, OLD):
    HUB.cond("post:balance", {{}})
    return result == OLD.before


class Account:
    def __init__(self, cents):
        self.cents = cents

    @icontract.require(lambda self: HUB.cond("pre:balance", {{}}))
    @icontract.snapshot({cap}, name="before")
    @icontract.ensure(same_as_before)
    {a}def balance(self):
        """A pure query whose snapshot asks the very query."""
        HUB.body("balance", {{}})
        return self.cents


{a}def depth_of_other(node):
    HUB.capture("cap:depth", {{}})
    return 0 if node.child is None else {w}depth(node.child)


class Node:
    def __init__(self, child=None):
        self.child = child


@icontract.require(lambda node: HUB.cond("pre:depth", {{}}))
@icontract.snapshot(depth_of_other, name="below")
@icontract.ensure(lambda result, OLD: HUB.cond("post:depth", {{}}) and result == OLD.below + 1)
{a}def depth(node):
    HUB.body("depth", {{}})
    return 1 if node.child is None else 1 + ({w}depth(node.child))
'''


def run_self_referring_captures(w) -> None:
    """A capture which calls the function it belongs to (a query asked for its own value before the call; the same function on another
    argument): that call is a re-entry while the contracts of the function are being evaluated - each capture runs once per checked
    call, and the evaluation terminates."""
    import sys  # pylint: disable=import-outside-toplevel

    for is_async in (False, True):
        a, aw = ("async ", "await ") if is_async else ("", "")
        cap = "balance_before"
        src = SELF_REFERRING_SOURCE.format(a=a, w=aw, cap=cap)
        if is_async:
            src = src.replace("def balance_before(self):", "async def balance_before(self):")
        loaded = prog.load_source(src, w.scratch())
        mod, hub = loaded.module, loaded.hub
        old_limit = sys.getrecursionlimit()
        try:
            for tag, call, want in (
                    ("query-captures-itself", lambda: mod.Account(5).balance(),
                     [("cond", "pre:balance"), ("snap", "cap:balance"), ("body", "balance"), ("body", "balance"), ("cond", "post:balance")]),
                    ("capture-calls-the-function-on-another-argument", lambda: mod.depth(mod.Node(mod.Node())),
                     # (the call made by the CAPTURE is a re-entry: body only; the recursive call made by the BODY is checked in full)
                     [("cond", "pre:depth"), ("snap", "cap:depth"), ("body", "depth"), ("body", "depth"), ("cond", "pre:depth"), ("snap", "cap:depth"),
                      ("body", "depth"), ("cond", "post:depth"), ("cond", "post:depth")])):
                hub.reset()
                sys.setrecursionlimit(len(inspect.stack(0)) + 300)
                try:
                    res = call()
                    if inspect.iscoroutine(res):
                        res = probe.drive(res)
                    outcome = "returned {!r}".format(res)
                except RecursionError:
                    outcome = "RecursionError"
                except BaseException as err:  # pylint: disable=broad-except
                    outcome = "raised {}: {}".format(type(err).__name__, str(err)[:100])
                finally:
                    sys.setrecursionlimit(old_limit)
                got = [(e.kind, e.id) for e in hub.events]
                w.count("programs")
                w.count("capture_events", sum(1 for k, _ in got if k == "snap"))
                w.count("self_referring_capture_calls")
                w.case(("self-referring-capture", tag, is_async))
                if not outcome.startswith("returned") or got != want:
                    w.violation("C08/capture-evaluated-more-than-once-per-checked-call", "{} ({}): {} with events {} (expected {})".format(
                        tag, "async" if is_async else "sync", outcome, got[:14], want), {"self_referring": tag, "async": is_async})
        finally:
            sys.setrecursionlimit(old_limit)
            loaded.unload()


def replay(case, w) -> None:
    if "self_referring" in case:
        run_self_referring_captures(w)
        return
    if "awaitable_values" in case:
        run_awaitable_values(w)
        return
    if "prog" not in case:
        run_misuse(w)
        return
    spec = case["prog"]
    model = Model(spec)
    contracts = runner.index_contracts(spec)
    loaded = prog.load(spec, w.scratch())
    try:
        if "call" in case:
            judge(w, loaded, model, contracts, case["call"], tuple(case.get("meta", ())), 1)
        else:
            for d in runner.check_definitions(loaded, model):
                w.violation("C08/definition", d.what, {"prog": spec})
    finally:
        loaded.unload()
