"""C10 — contracts calling contracted code terminate; only own re-entry goes unchecked."""
import inspect
import sys
from typing import Any, Dict, List, Optional, Tuple

from vkit import gen, probe, prog, runner
from vkit.model import Model, decos_of
from vkit.prog import P

ID = "C10"
LEVEL = "exploration"
SHARDS = {"quick": 4, "thorough": 16}
TIMEOUT = {"quick": 300, "thorough": 3400}
DECIDING = ["invocations_judged", "must_check_invocations", "reentrant_invocations", "graphs"]
RULE = (
    "random finite call graphs over 2..5 contracted functions (sync or async) and 1..3 objects of a class hierarchy with invariants: "
    "every condition, capture, body, invariant and constructor body carries a script of calls (any function, any public method of "
    "any object incl. the one it is evaluated on, any number of times up to a per-probe budget, incl. itself, incl. recursion from "
    "the body) executed when the probe runs. The monitor keeps the dynamic stack of probes and invocations and judges EVERY "
    "invocation by the statement: unless an enclosing frame is a contract probe of the same function, all its preconditions, "
    "snapshots and (on normal return) postconditions must have been evaluated for this invocation; unless an enclosing frame is an "
    "invariant / the constructor / a public method of the same object, its invariants must have been evaluated before and after; "
    "the body runs exactly once. Termination: recursion limit 300 frames above the entry and an event budget; RecursionError or "
    "budget overrun is a violation, a watchdog firing is inconclusive. Non-trivial = invocation made from inside another probe; "
    "distinct = (graph index, caller probe, callee, exemption class)."
    ' Directed graphs (1 in 25): a pre / post / snapshot / invariant probe re-enters its own function every time it'
    ' runs after another checked function ran in between (called by the probe and, every time, by the body).'
    ' Every other asynchronous graph runs inside a task of a running event loop. Both halves of the rule are judged: an invocation that is not a re-entry is checked, and a re-entry (same function while its contracts run; same object while its invariants, constructor or a public method run, in this very flow) is NOT. Constructions: classes built by __init__, by __new__ alone, without any constructor and named tuples whose invariant calls a public method of the object evaluate each invariant once per construction.'
)
ASSUMPTIONS = ["all conditions hold in the bulk of this workload (so 'fully checked' means every contract evaluated); a share of the graphs has one falsy contract"]


class Frame:
    __slots__ = ("kind", "func", "obj", "inv_id", "events", "probe_id", "callee_desc")

    def __init__(self, kind: str, func: Any = None, obj: Any = None, probe_id: str = "") -> None:
        self.kind = kind  # "invocation" | "probe"
        self.func = func  # for invocation: name of the function owning the checker; for probe: function whose contract it is
        self.obj = obj  # object the invocation / invariant probe is about (or None)
        self.probe_id = probe_id
        self.events = []  # type: List[Tuple[str, str]]
        self.callee_desc = ""


class Director:
    """Executes the scripts and records, for every invocation, the probes that ran directly on its behalf."""

    def __init__(self, hub: probe.Hub, module: Any, scripts: Dict[str, List[Any]], budgets: Dict[str, int], probe_info: Dict[str, Dict[str, Any]],
                 objects: Dict[str, Any], event_budget: int, model: Optional[Model] = None) -> None:
        self.hub = hub
        self.model = model
        self.module = module
        self.scripts = scripts
        self.budgets = budgets
        self.probe_info = probe_info  # probe id -> {"role": pre|post|snap|inv|body|ctor, "func": function key}
        self.objects = objects
        self.stack = []  # type: List[Frame]
        self.done = []  # type: List[Tuple[Frame, List[Frame], Optional[BaseException]]]
        self.counts = {}  # type: Dict[str, int]
        self.event_budget = event_budget
        self.n_events = 0
        self.overrun = False

    def on_probe(self, pid: str, got: Dict[str, Any]) -> None:
        self.n_events += 1
        if self.n_events > self.event_budget:
            self.overrun = True
            raise probe.CustomBase("event budget exhausted")
        info = self.probe_info[pid]
        # attribute the event to the innermost invocation frame
        for fr in reversed(self.stack):
            if fr.kind == "invocation":
                fr.events.append((info["role"], pid))
                break
        n = self.counts.get(pid, 0)
        self.counts[pid] = n + 1
        if n >= self.budgets.get(pid, 0):
            return
        obj = got.get("self") if isinstance(got, dict) else None
        frame = Frame("probe", func=info["func"], obj=obj, probe_id=pid)
        frame.callee_desc = info["role"]
        self.stack.append(frame)
        try:
            for callee in self.scripts.get(pid, []):
                self.invoke(callee, obj)
        finally:
            self.stack.pop()

    def invoke(self, callee: Any, current_obj: Any) -> Any:
        kind = callee[0]
        if kind == "func":
            fn = getattr(self.module, callee[1])
            frame = Frame("invocation", func=callee[1], obj=None)
            args = (probe.Tok("x"),)
            target = fn
        elif kind == "method":
            obj = current_obj if callee[1] == "self" else self.objects.get(callee[1])
            if obj is None:
                return None
            cls_name = type(obj).__name__
            frame = Frame("invocation", func="{}.{}".format(self.model.owner(cls_name, callee[2]), callee[2]), obj=obj)
            args = (probe.Tok("x"),)
            target = getattr(obj, callee[2])
        else:
            raise ValueError(callee)
        frame.callee_desc = "{}".format(callee)
        context = list(self.stack)
        self.stack.append(frame)
        exc = None
        try:
            res = target(*args)
            if inspect.iscoroutine(res):
                res = probe.drive(res)
            return res
        except BaseException as err:  # pylint: disable=broad-except
            exc = err
            raise
        finally:
            self.stack.pop()
            self.done.append((frame, context, exc))

    @staticmethod
    def owner_key(cls: type, name: str) -> str:
        for k in cls.__mro__:
            if name in vars(k):
                return "{}.{}".format(k.__name__, name)
        return "{}.{}".format(cls.__name__, name)


def make_graph(rng, ids: gen.Ids, is_async: bool, with_falsy: bool):
    """Build the program spec, scripts and expectations."""
    unlimited = rng.random() < 0.5
    n_funcs = rng.randint(2, 3) if unlimited else rng.randint(2, 5)
    funcs = []
    probe_info = {}  # type: Dict[str, Dict[str, Any]]
    expect = {}  # type: Dict[str, Dict[str, List[str]]]   # function key -> {"pre": ids, "snap": ids, "post": ids}
    for i in range(n_funcs):
        name = "f{}".format(i)
        m = gen.make_member(ids, rng, "function", name, is_async, rng.randint(1, 2), rng.randint(0, 2), rng.randint(0, 1),
                            forms=["def"] + (["adef"] if is_async else []), errs=["instance"], params=[P("x")])
        m["name"] = name
        funcs.append(m)
        expect[name] = {"pre": [c["id"] for c in decos_of(m, "pre")], "post": [c["id"] for c in decos_of(m, "post")],
                        "snap": [s["id"] for s in decos_of(m, "snap")] if decos_of(m, "post") else []}
        for role in ("pre", "post", "snap"):
            for c in decos_of(m, role):
                probe_info[c["id"]] = {"role": role, "func": name}
        probe_info[name] = {"role": "body", "func": name}
    # classes: base with invariants and methods; optional subclass overriding one method
    classes = []
    n_classes = rng.randint(1, 2)
    class_names = []
    method_names = ["ma", "mb"]
    for ci in range(n_classes):
        cname = "K{}".format(ci)
        members = []
        init = {"name": "__init__", "kind": "init", "async": False, "params": [P("self")], "decos": []}
        members.append(init)
        probe_info["{}___init__".format(cname)] = {"role": "ctor", "func": "{}.__init__".format(cname)}
        for mn in method_names:
            if ci > 0 and rng.random() < 0.5:
                continue
            m = gen.make_member(ids, rng, "method", mn, is_async and rng.random() < 0.5, rng.randint(0, 1) if ci > 0 else rng.randint(1, 2),
                                rng.randint(0, 1), 0, forms=["def"], errs=["instance"], params=[P("self"), P("x")])
            members.append(m)
            key = "{}.{}".format(cname, mn)
            probe_info["{}_{}".format(cname, mn)] = {"role": "body", "func": key}
            for role in ("pre", "post"):
                for c in decos_of(m, role):
                    probe_info[c["id"]] = {"role": role, "func": key}
        invs = [gen.make_inv(ids, rng, errs=["instance"], forms=("def",)) for _ in range(rng.randint(1, 2) if ci == 0 else rng.randint(0, 1))]
        for inv in invs:
            inv["self"] = True
            probe_info[inv["id"]] = {"role": "inv", "func": None}
        classes.append(gen.chain_class(cname, class_names[-1:], members, invs))
        class_names.append(cname)
    spec = {"funcs": funcs, "classes": classes}
    model = Model(spec)
    # effective contracts per function key (methods inherit)
    for cname in class_names:
        for mn in method_names:
            if model.defines(cname, mn) is not None:
                key = "{}.{}".format(cname, mn)
                expect[key] = {"pre": [c["id"] for g in model.eff_pre(cname, mn) for c in g],
                               "pre_groups": [[c["id"] for c in g] for g in model.eff_pre(cname, mn)],
                               "post": [c["id"] for c in model.eff_post(cname, mn)], "snap": []}
                # inherited conditions are evaluated on behalf of the overriding function too
                for role in ("pre", "post"):
                    for cid in expect[key][role]:
                        probe_info.setdefault(cid, {"role": role, "func": key})
    # scripts
    callees = [("func", f["name"]) for f in funcs]
    objs = ["o0", "o1", "o2"][: rng.randint(1, 3)]
    for o in objs + ["self"]:
        for mn in method_names:
            callees.append(("method", o, mn))
    scripts = {}
    budgets = {}
    for pid, info in probe_info.items():
        if rng.random() < (0.3 if unlimited else 0.45):
            scripts[pid] = [rng.choice(callees) for _ in range(rng.randint(1, 2) if unlimited else rng.randint(1, 3))]
            budgets[pid] = rng.randint(1, 2)
            if unlimited and info["role"] in ("pre", "post", "snap", "inv"):
                # a contract that re-enters contracted code EVERY time it is evaluated: termination then rests on the
                # library's suspension rule alone (bodies and constructors keep a budget: unbounded recursion between
                # bodies would be the program's own)
                budgets[pid] = 10 ** 9
    obj_classes = {o: rng.choice(class_names) for o in objs}
    truth = {}
    if with_falsy:
        cands = [pid for pid, info in probe_info.items() if info["role"] in ("pre", "post", "inv")]
        truth[rng.choice(cands)] = False
    return spec, model, scripts, budgets, probe_info, expect, obj_classes, truth


def judge_invocation(w, frame: Frame, context: List[Frame], exc: Optional[BaseException], model: Model, expect, probe_info, truth, case,
                     graph_index: int) -> None:
    roles = {}  # type: Dict[str, List[str]]
    for role, pid in frame.events:
        roles.setdefault(role, []).append(pid)
    func_key = frame.func
    # a contract probe belongs to the invocation it is evaluated for (an inherited condition is evaluated on behalf of the
    # overriding function): the owner is the nearest invocation frame below the probe
    exempt_func = False
    owner = None
    for fr in context:
        if fr.kind == "invocation":
            owner = fr
        elif fr.callee_desc in ("pre", "post", "snap") and owner is not None and owner.func == func_key:
            exempt_func = True
    obj = frame.obj
    exempt_obj = False
    if obj is not None:
        for fr in context:
            if fr.kind == "probe" and fr.callee_desc == "inv" and fr.obj is obj:
                exempt_obj = True
            if fr.kind == "probe" and fr.callee_desc == "ctor" and fr.obj is obj:
                exempt_obj = True
            if fr.kind == "invocation" and fr.obj is obj:
                exempt_obj = True
            if fr.kind == "probe" and fr.obj is obj and fr.callee_desc in ("pre", "post", "snap", "body"):
                # a contract or the body of a public method of the same object is running
                exempt_obj = True
    w.count("invocations_judged")
    nested = bool(context)
    if nested:
        w.count("reentrant_invocations")
    w.case((graph_index, context[-1].probe_id if context else "<top>", func_key, exempt_func, exempt_obj) if nested else None)
    detail = {"callee": frame.callee_desc, "events_of_this_invocation": frame.events,
              "context": ["{}:{}".format(fr.kind, fr.probe_id or fr.func) for fr in context], "exception": repr(exc)}
    exp = expect.get(func_key, {"pre": [], "post": [], "snap": []})
    falsy = {k for k, v in truth.items() if v is False}
    n_body = len(roles.get("body", []))
    if not exempt_func:
        w.count("must_check_invocations")
        groups = exp.get("pre_groups", [exp["pre"]] if exp["pre"] else [])
        got_pre = roles.get("pre", [])
        # groups are tried in order until one holds; a group stops at its first falsy condition
        want_pre = []
        for g in groups:
            ok = True
            for c in g:
                want_pre.append(c)
                if c in falsy:
                    ok = False
                    break
            if ok:
                break
        if [c for c in got_pre] != want_pre and not (exc is not None and len(got_pre) <= len(want_pre) and got_pre == want_pre[:len(got_pre)]):
            w.violation(classify(context, func_key, "preconditions-not-evaluated"),
                        "invocation {} made from {} is not a re-entry into its own contracts, yet its preconditions {} were evaluated as {}".format(
                            frame.callee_desc, detail["context"][-1:] or "<top>", want_pre, got_pre), case, detail)
            return
        if exc is None:
            want_post = exp["post"]
            if roles.get("post", []) != want_post:
                w.violation(classify(context, func_key, "postconditions-not-evaluated"),
                            "invocation {} from {}: postconditions {} evaluated as {}".format(
                                frame.callee_desc, detail["context"][-1:] or "<top>", want_post, roles.get("post", [])), case, detail)
                return
    if exempt_func and (roles.get("pre") or roles.get("post") or roles.get("snap")):
        # the other half of the rule: a re-entrant call made while the function's own contracts are being evaluated IS skipped (this is
        # what makes the evaluation terminate, and what lets a contract use the function it describes)
        w.count("reentrant_invocations_found_checked")
        w.violation("C10/re-entrant-call-checked", "invocation {} made from {} re-enters the function whose contracts are being evaluated in this very "
                    "flow, yet its contracts were evaluated: {}".format(frame.callee_desc, detail["context"][-1:], frame.events), case, detail)
        return
    if obj is not None and exempt_obj:
        w.count("must_skip_invariants_invocations")
        if roles.get("inv"):
            # a public method called while an invariant, the constructor or a public method of that very object is running in this
            # very flow: the object may be in a transient state, which is why these calls are skipped
            w.violation("C10/re-entrant-call-checked", "invocation {} made from {} is a re-entrant call on an object whose invariants / constructor / "
                        "public method is running in this very flow, yet its invariants were evaluated: {}".format(
                            frame.callee_desc, detail["context"][-1:], frame.events), case, detail)
            return
    if obj is not None and not exempt_obj:
        w.count("must_check_invariants_invocations")
        invs = [i["id"] for i in model.invs_on(type(obj).__name__, "CALL")]
        got_inv = roles.get("inv", [])
        want = invs + invs if exc is None else None
        if exc is None and got_inv != want:
            w.violation("C10/invariants-not-evaluated-around-call-on-other-object",
                        "invocation {} from {}: invariants {} evaluated as {}".format(frame.callee_desc, detail["context"][-1:] or "<top>", want, got_inv),
                        case, detail)
            return
    if exc is None and n_body != 1:
        w.violation("C10/body-not-run-exactly-once", "invocation {}: body ran {} times".format(frame.callee_desc, n_body), case, detail)


def classify(context: List[Frame], func_key: str, what: str) -> str:
    # mechanism: an invocation of the same function is in flight further up the stack with its BODY running (its contracts are
    # not being evaluated, otherwise the invocation would have been exempt)
    if any(fr.kind == "invocation" and fr.func == func_key for fr in context):
        return "C10/function-suspension-spans-body"
    return "C10/" + what


def run_graph(w, graph_index: int, is_async: bool, with_falsy: bool) -> None:
    rng = w.rng
    ids = gen.Ids()
    spec, model, scripts, budgets, probe_info, expect, obj_classes, truth = make_graph(rng, ids, is_async, with_falsy)
    tops = [("func", f["name"]) for f in spec["funcs"]] + [("method", o, mn) for o in obj_classes for mn in ("ma", "mb")]
    rng.shuffle(tops)
    execute_graph(w, graph_index, is_async, spec, model, scripts, budgets, probe_info, expect, obj_classes, truth, tops[:6])


SAME_DEF_SOURCE = '''
import icontract


def make(tag, helper=None):
    """Every call makes a new contracted function from the very same ``def`` (the function objects share one code object)."""

    @icontract.require(lambda x: HUB.cond("pre:" + tag, {"x": x}) and (helper is None or helper(x) is not None))
    @icontract.ensure(lambda result: HUB.cond("post:" + tag, {"result": result}))
    def limited(x):
        HUB.body("body:" + tag, {"x": x})
        return x

    return limited


small = make("small")
big = make("big", helper=small)
huge = make("huge", helper=big)


def make_class(tag, other=None):
    @icontract.invariant(lambda self: HUB.inv("inv:" + tag, self))
    class Account(icontract.DBC):
        @icontract.require(lambda self, amount: HUB.cond("pre:" + tag, {"amount": amount})
                           and (other is None or other.withdraw(amount) is not None))
        def withdraw(self, amount):
            HUB.body("body:" + tag, {"amount": amount})
            return amount

    return Account


@icontract.invariant(lambda self: HUB.inv("interval:" + str(self.x), self) and self.x > 0)
class Interval(icontract.DBC):
    """Constructed by __new__ alone; the construction builds further objects of the same class on its way."""

    def __new__(cls, x, inner=None):
        self = super().__new__(cls)
        self.x = x
        self.inner = None if inner is None else Interval(inner)
        return self


First = make_class("first")
first = First()
Second = make_class("second", other=first)
second = Second()
'''


def run_same_def(w) -> None:
    """Distinct contracted functions / classes made from one ``def`` / ``class`` statement: a call of one from a condition of another is
    a call of ANOTHER function and is fully checked."""
    loaded = prog.load_source(SAME_DEF_SOURCE, w.scratch())
    mod, hub = loaded.module, loaded.hub
    try:
        # the constructor of ANOTHER object of the same class, called while a construction is in flight, is fully checked
        import icontract  # pylint: disable=import-outside-toplevel
        for tag, call, want_outcome, want in (("inner-object-valid", lambda: mod.Interval(5, inner=7), "returned", ["interval:7", "interval:5"]),
                                              ("inner-object-invalid", lambda: mod.Interval(5, inner=-7), "violation", None)):
            hub.reset()
            try:
                call()
                outcome = "returned"
            except icontract.ViolationError:
                outcome = "violation"
            except BaseException as err:  # pylint: disable=broad-except
                outcome = "raised {}: {}".format(type(err).__name__, str(err)[:100])
            evs = [e.id for e in hub.events if e.kind == "inv"]
            w.count("invocations_judged", 2)
            w.count("must_check_invariants_invocations")
            w.count("same_def_calls")
            w.case(("constructor-of-another-object", tag))
            if outcome != want_outcome or (want is not None and evs != want):
                w.violation("C10/constructor-of-another-object-of-the-class-unchecked", "{}: {} with invariant evaluations {} (expected {}{})".format(
                    tag, outcome, evs, want_outcome, "" if want is None else " with " + str(want)), {"same_def": tag})
        for tag, call, want in (
                ("function-made-twice", lambda: mod.big(1), ["pre:big", "pre:small", "body:small", "post:small", "body:big", "post:big"]),
                ("function-made-three-times", lambda: mod.huge(1), ["pre:huge", "pre:big", "pre:small", "body:small", "post:small", "body:big", "post:big",
                                                                     "body:huge", "post:huge"]),
                ("method-of-class-made-twice", lambda: mod.second.withdraw(1), ["inv:second", "pre:second", "inv:first", "pre:first", "body:first", "inv:first",
                                                                              "body:second", "inv:second"])):
            hub.reset()
            try:
                call()
                outcome = "returned"
            except BaseException as err:  # pylint: disable=broad-except
                outcome = "raised {}: {}".format(type(err).__name__, str(err)[:100])
            evs = [e.id for e in hub.events]
            w.count("invocations_judged", 2)
            w.count("must_check_invocations")
            w.count("same_def_calls")
            w.case(("same-def", tag))
            if outcome != "returned" or evs != want:
                w.violation("C10/call-of-another-function-made-from-the-same-def-unchecked", "{}: {}; events {} but the call made from the condition "
                            "is a call of another function (expected {})".format(tag, outcome, evs, want), {"same_def": tag})
    finally:
        loaded.unload()


CONSTRUCTIONS_SOURCE = '''
import typing
import icontract


def consistent(self):
    """An invariant which asks a public method of the object."""
    HUB.inv("inv", self)
    return self.ok()


@icontract.invariant(consistent)
class WithInit{base}:
    def __init__(self, x=1):
        self.x = x

    def ok(self):
        HUB.body("ok", {{}})
        return True


@icontract.invariant(consistent)
class WithoutConstructor{base}:
    x = 1

    def ok(self):
        HUB.body("ok", {{}})
        return True


@icontract.invariant(consistent)
class WithNew{base}:
    def __new__(cls, x=1):
        self = super().__new__(cls)
        self.x = x
        return self

    def ok(self):
        HUB.body("ok", {{}})
        return True


@icontract.invariant(consistent)
class Resettable{base}:
    def __init__(self, x=1):
        HUB.body("init", {{}})
        self.x = x

    def ok(self):
        HUB.body("ok", {{}})
        return True

    def reset(self):
        """Re-initialises the object: the constructor is entered again while a public method of the object is running."""
        HUB.body("reset", {{}})
        self.__init__(5)
        return self.x

    @property
    def fresh(self):
        HUB.body("fresh", {{}})
        self.__init__(7)
        return self.x


class ResettableChild(Resettable):
    """The constructor which the class of the instance resolves to is the inherited one."""


@icontract.invariant(consistent)
class Tuple(typing.NamedTuple):
    x: int = 1

    def ok(self):
        HUB.body("ok", {{}})
        return True
'''


def run_constructions(w) -> None:
    """An invariant which calls a public method of the object: that call is a re-entry while the invariants of the object are being
    evaluated - whatever kind of constructor the class has (``__init__``, ``__new__`` alone, none at all, a named tuple)."""
    for dbc in (False, True):
        loaded = prog.load_source(CONSTRUCTIONS_SOURCE.format(base="(icontract.DBC)" if dbc else ""), w.scratch())
        mod, hub = loaded.module, loaded.hub
        try:
            for cname in ("WithInit", "WithoutConstructor", "WithNew", "Tuple"):
                hub.reset()
                try:
                    obj = getattr(mod, cname)()
                    outcome = "returned"
                except BaseException as err:  # pylint: disable=broad-except
                    obj = None
                    outcome = "raised {}: {}".format(type(err).__name__, str(err)[:100])
                built = [(e.kind, e.id) for e in hub.events]
                hub.reset()
                if obj is not None:
                    obj.ok()
                called = [(e.kind, e.id) for e in hub.events]
                w.count("invocations_judged", 2)
                w.count("must_skip_invariants_invocations", 3)
                w.count("constructions_judged")
                w.case(("construction", cname, dbc))
                want_built = [("inv", "inv"), ("body", "ok")]
                want_called = [("inv", "inv"), ("body", "ok"), ("body", "ok"), ("inv", "inv"), ("body", "ok")]
                if outcome != "returned" or built != want_built or called != want_called:
                    w.violation("C10/re-entrant-call-checked", "{}{}: construction {} with events {} (expected {}), then ok() with events {} (expected {}): "
                                "the call which the invariant makes on its own object is a re-entry and is skipped".format(
                                    cname, " on DBC" if dbc else "", outcome, built, want_built, called, want_called), {"construction": cname})
            for cname in ("Resettable", "ResettableChild"):
                if cname == "ResettableChild" and not dbc:
                    continue  # (contract inheritance needs DBC)
                obj = getattr(mod, cname)()
                for op, want in (("reset", [("inv", "inv"), ("body", "ok"), ("body", "reset"), ("body", "init"), ("inv", "inv"), ("body", "ok")]),
                                 ("fresh", [("inv", "inv"), ("body", "ok"), ("body", "fresh"), ("body", "init"), ("inv", "inv"), ("body", "ok")])):
                    hub.reset()
                    try:
                        res = obj.reset() if op == "reset" else obj.fresh
                        outcome = "returned {!r}".format(res)
                    except BaseException as err:  # pylint: disable=broad-except
                        outcome = "raised {}: {}".format(type(err).__name__, str(err)[:100])
                    got = [(e.kind, e.id) for e in hub.events]
                    w.count("invocations_judged", 2)
                    w.count("must_skip_invariants_invocations")
                    w.count("constructions_judged")
                    w.case(("re-initialisation", cname, dbc, op))
                    if not outcome.startswith("returned") or got != want:
                        w.violation("C10/re-entrant-call-checked", "{}{}.{}: {} with events {} (expected {}): the constructor entered again from a public "
                                    "member of the same object is a re-entry and is skipped".format(cname, " on DBC" if dbc else "", op, outcome, got, want),
                                    {"construction": cname + "." + op})
        finally:
            loaded.unload()


OUT_OF_ORDER_SOURCE = '''
import icontract


class Gate:
    """An awaitable which hands control back to whoever drives the coroutine."""

    def __await__(self):
        yield "gate"


@icontract.ensure(lambda result: HUB.cond("post:slow", {}))
async def slow(tag):
    HUB.body("slow:start", {})
    await Gate()
    HUB.body("slow:end", {})
    return tag


PENDING = []


def finishes_the_pending_calls_and_reenters(x):
    """A condition of ``checked``: other calls - started earlier, suspended in their bodies - finish while it is evaluated; then it uses
    the function it describes."""
    HUB.cond("pre:checked", {"x": x})
    while PENDING:
        coro = PENDING.pop()
        try:
            coro.send(None)
        except StopIteration:
            pass
    return x <= 0 or checked(x - 1) == x - 1


@icontract.require(finishes_the_pending_calls_and_reenters)
def checked(x):
    HUB.body("checked", {"x": x})
    return x
'''


def run_out_of_order(w) -> None:
    """Calls which started earlier and are suspended in their bodies finish (out of order) while a condition of another function is
    being evaluated; the condition then re-enters its own function: still a re-entry, skipped - the precondition is evaluated once."""
    for n_pending in (1, 2, 4):
        loaded = prog.load_source(OUT_OF_ORDER_SOURCE, w.scratch())
        mod, hub = loaded.module, loaded.hub
        try:
            hub.reset()
            for i in range(n_pending):
                coro = mod.slow(i)
                coro.send(None)  # suspended in its body, outside of any check
                mod.PENDING.append(coro)
            try:
                res = mod.checked(3)
                outcome = "returned {!r}".format(res)
            except RecursionError:
                outcome = "RecursionError"
            except BaseException as err:  # pylint: disable=broad-except
                outcome = "raised {}: {}".format(type(err).__name__, str(err)[:100])
            pres = sum(1 for e in hub.events if e.kind == "cond" and e.id == "pre:checked")
            posts = sum(1 for e in hub.events if e.kind == "cond" and e.id == "post:slow")
            w.count("invocations_judged", 2)
            w.count("must_skip_invariants_invocations")
            w.count("out_of_order_finishes", n_pending)
            w.case(("out-of-order", n_pending))
            if outcome != "returned 3" or pres != 1 or posts != n_pending:
                w.violation("C10/re-entrant-call-checked", "{} suspended call(s) finished while the precondition of `checked` was evaluated: {}; the "
                            "precondition was evaluated {} time(s) (expected once) and {} postcondition(s) of the finished calls ran (expected {})".format(
                                n_pending, outcome, pres, posts, n_pending), {"out_of_order": n_pending})
        finally:
            loaded.unload()


def run_directed(w, graph_index: int, is_async: bool) -> None:
    """Directed graphs: a contract probe re-enters its own function EVERY time it runs, after another contracted function was checked in
    between (called by the probe itself and, every time, by the body); termination rests on the suspension rule alone."""
    rng = w.rng
    ids = gen.Ids()
    spec, model, _scripts, _budgets, probe_info, expect, obj_classes, _truth = make_graph(rng, ids, is_async, False)
    names = [f["name"] for f in spec["funcs"]]
    inf = 10 ** 9
    made = 0
    for role in ("pre", "post", "snap", "inv"):
        if role == "inv":
            pids = [pid for pid, info in probe_info.items() if info["role"] == "inv"]
            if not pids or not obj_classes:
                continue
            obj = sorted(obj_classes)[0]
            mn = rng.choice(("ma", "mb"))
            other = ("func", rng.choice(names))
            scripts = {pids[0]: [other, ("method", "self", mn)]}
            for cname in ("K0", "K1"):
                scripts["{}_{}".format(cname, mn)] = [other]
            tops = [("method", obj, mn)]
        else:
            cands = [n for n in names if expect[n][role]]
            if not cands or len(names) < 2:
                continue
            name = rng.choice(cands)
            other = ("func", rng.choice([n for n in names if n != name]))
            scripts = {expect[name][role][-1]: [other, ("func", name)], name: [other]}
            tops = [("func", name)]
        scripts = {k: v for k, v in scripts.items() if k in probe_info}
        budgets = {k: inf for k in scripts}
        w.count("directed_graphs")
        made += 1
        execute_graph(w, graph_index, is_async, spec, model, scripts, budgets, probe_info, expect, obj_classes, {}, tops)


def execute_graph(w, graph_index, is_async, spec, model, scripts, budgets, probe_info, expect, obj_classes, truth, tops) -> None:
    loaded = prog.load(spec, w.scratch())
    hub = loaded.hub
    case = {"prog": spec, "scripts": scripts, "budgets": budgets, "objects": obj_classes, "truth": truth, "probe_info": probe_info,
            "expect": expect, "async": is_async, "tops": [list(t) for t in tops], "graph": graph_index}
    try:
        import icontract._checkers as chk  # pylint: disable=import-outside-toplevel

        objects = {}
        director = Director(hub, loaded.module, scripts, budgets, probe_info, objects, event_budget=60000, model=model)
        for pid in probe_info:
            hub.hooks[pid] = director.on_probe
        hub.reset()
        hub.truth = {}
        # construct the objects first (constructors may run scripts of their own)
        for o, cname in obj_classes.items():
            cls_obj = loaded.get(cname)
            frame = Frame("invocation", func="{}.__init__".format(cname), obj=None)
            frame.callee_desc = "construct {}".format(o)
            director.stack.append(frame)
            try:
                objects[o] = cls_obj()
            except BaseException as err:  # pylint: disable=broad-except
                w.violation("C10/construction-failed", "constructing {} raised {!r}".format(o, err), case)
                return
            finally:
                director.stack.pop()
        director.done = []
        hub.truth = dict(truth)
        def live_marks():
            """The suspension state that is in force: the live marks (the library drops finished ones lazily)."""
            state = chk._IN_PROGRESS.get() if hasattr(chk, "_IN_PROGRESS") else None
            return {(getattr(m, "flow", None), getattr(m, "target", m)) for m in (state or ()) if getattr(m, "active", True)}

        snapshot_before = live_marks()
        # top-level calls; every other asynchronous graph runs inside a task of a running event loop (the flow of a call is then
        # (thread, task) for synchronous and asynchronous callables alike), the others outside of any loop
        in_task = is_async and graph_index % 2 == 0

        def run_tops() -> bool:
            base_depth = len(inspect.stack(0))
            old_limit = sys.getrecursionlimit()
            sys.setrecursionlimit(base_depth + 300)
            try:
                for top in tops:
                    director.counts = {}
                    try:
                        director.invoke(top, None)
                    except RecursionError as err:
                        w.violation("C10/unbounded-recursion", "top-level call {} hit the recursion limit: {}".format(top, err), case)
                        return False
                    except probe.CustomBase:
                        # breadth blow-up of a finite call tree (depth stayed below the recursion limit): not judged
                        w.count("graphs_abandoned_event_budget")
                        return False
                    except BaseException as err:  # pylint: disable=broad-except
                        if not truth:
                            w.violation("C10/unexpected-exception", "top-level call {} raised {!r} although every contract holds".format(top, err), case)
                            return False
            finally:
                sys.setrecursionlimit(old_limit)
            return True

        if in_task:
            import asyncio  # pylint: disable=import-outside-toplevel

            async def in_a_task() -> bool:
                return run_tops()

            w.count("graphs_run_inside_a_task")
            if not asyncio.run(in_a_task()):
                return
        elif not run_tops():
            return
        w.count("probe_events", director.n_events)
        for frame, context, exc in director.done:
            judge_invocation(w, frame, context, exc, model, expect, probe_info, truth, case, graph_index)
        state_after = live_marks()
        if state_after != snapshot_before:
            w.violation("C10/suspension-state-not-empty-between-calls", "live in-progress marks after the top-level calls: {}".format(state_after), case)
        if graph_index % 40 == 0:
            w.sample({"graph": graph_index, "async": is_async, "scripts": scripts, "invocations": len(director.done),
                      "first_invocations": [(fr.callee_desc, fr.events) for fr, _c, _e in director.done[:4]]})
    finally:
        hub.hooks = {}
        loaded.unload()


OTHER_FLOWS_SOURCE = '''
import asyncio
import contextvars
import threading
import icontract


def pre(x, tag):
    return HUB.cond("pre:" + tag, {"x": x})


@icontract.require(pre, error=lambda tag: KeyError("pre:" + tag))
def f(x, tag, nested=None):
    HUB.body("f:" + tag, {"x": x})
    return nested() if nested is not None else x


@icontract.require(pre, error=lambda tag: KeyError("pre:" + tag))
async def af(x, tag, nested=None):
    HUB.body("af:" + tag, {"x": x})
    return (await nested()) if nested is not None else x


@icontract.invariant(lambda self: HUB.inv("inv", self))
class K:
    def __init__(self):
        self.v = 1

    def hold(self, nested):
        HUB.body("hold", {"self": self})
        return nested()

    def poke(self, tag):
        HUB.body("poke:" + tag, {"self": self})
        return tag

    async def ahold(self, nested):
        HUB.body("ahold", {"self": self})
        return await nested()

    async def apoke(self, tag):
        HUB.body("apoke:" + tag, {"self": self})
        return tag


def in_thread_with_copied_context(fn, *args):
    box = {}
    ctx = contextvars.copy_context()
    th = threading.Thread(target=lambda: box.setdefault("r", ctx.run(fn, *args)))
    th.start()
    th.join()
    return box.get("r")
'''


def run_other_flows(w) -> None:
    """Calls made from ANOTHER thread / task while a contracted call is in flight are not re-entrant calls: fully checked."""
    import asyncio  # pylint: disable=import-outside-toplevel

    loaded = prog.load_source(OTHER_FLOWS_SOURCE, w.scratch())
    mod, hub = loaded.module, loaded.hub
    try:
        def events():
            return [(e.kind, e.id) for e in hub.events]

        def expect(tag, want_subseq, case):
            got = events()
            w.count("invocations_judged")
            w.count("other_flow_invocations")
            w.case(("other-flow", tag))
            it = iter(got)
            if not all(any(x == y for y in it) for x in want_subseq):
                w.violation("C10/call-from-another-flow-not-checked", "{}: the call made from another thread/task while a call on the same "
                            "function/object was in flight was not fully checked: events {} lack {}".format(tag, got, want_subseq), case)

        # a thread with a copied context, started from the body of a method: the nested call on the same object is checked
        hub.reset()
        k = mod.K()
        hub.reset()
        k.hold(lambda: mod.in_thread_with_copied_context(k.poke, "t"))
        expect("method-in-thread-from-method-body", [("body", "hold"), ("inv", "inv"), ("body", "poke:t"), ("inv", "inv")], {"other_flow": "thread-method"})
        # ... the same function from the body of the function (not marked there at all) and from another thread
        hub.reset()
        mod.f(1, "outer", nested=lambda: mod.in_thread_with_copied_context(mod.f, 2, "inner"))
        expect("function-in-thread-from-function-body", [("cond", "pre:outer"), ("body", "f:outer"), ("cond", "pre:inner"), ("body", "f:inner")],
               {"other_flow": "thread-function"})

        async def main():
            k2 = mod.K()
            hub.reset()
            await k2.ahold(lambda: asyncio.ensure_future(k2.apoke("task")))
            expect("method-in-task-from-method-body", [("body", "ahold"), ("inv", "inv"), ("body", "apoke:task"), ("inv", "inv")],
                   {"other_flow": "task-method"})
            hub.reset()
            await k2.ahold(lambda: asyncio.to_thread(k2.poke, "to_thread"))
            expect("method-in-to_thread-from-method-body", [("body", "ahold"), ("inv", "inv"), ("body", "poke:to_thread"), ("inv", "inv")],
                   {"other_flow": "to_thread-method"})
            hub.reset()
            await mod.af(1, "outer", nested=lambda: asyncio.ensure_future(mod.af(2, "inner")))
            expect("function-in-task-from-function-body", [("cond", "pre:outer"), ("body", "af:outer"), ("cond", "pre:inner"), ("body", "af:inner")],
                   {"other_flow": "task-function"})

        asyncio.run(main())
    finally:
        loaded.unload()


def run(w) -> None:
    if w.shard == 0:
        run_other_flows(w)
    if w.shard == 1 % w.nshards:
        run_same_def(w)
    if w.shard == 2 % w.nshards:
        run_constructions(w)
    if w.shard == 3 % w.nshards:
        run_out_of_order(w)
    n = 20000 if w.tier == "thorough" else 1500
    for i in range(n):
        if i % w.nshards != w.shard:
            continue
        w.count("graphs")
        run_graph(w, i, is_async=(i % 3 == 2), with_falsy=(i % 5 == 4))
        if i % 25 == 0:
            run_directed(w, i, is_async=(i % 50 == 0))
    w.exhaustive = False


def replay(case, w) -> None:
    if "construction" in case:
        run_constructions(w)
        return
    if "out_of_order" in case:
        run_out_of_order(w)
        return
    if "other_flow" in case:
        run_other_flows(w)
        return
    if "same_def" in case:
        run_same_def(w)
        return
    spec = case["prog"]
    scripts = {k: [tuple(c) for c in v] for k, v in case["scripts"].items()}
    execute_graph(w, case.get("graph", 0), case.get("async", False), spec, Model(spec), scripts, case["budgets"], case["probe_info"],
                  case["expect"], case["objects"], case.get("truth", {}), [tuple(t) for t in case["tops"]])
