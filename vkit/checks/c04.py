"""C04 — inherited contracts combine per Liskov: preconditions OR-ed, postconditions and invariants AND-ed."""
from typing import Any, Dict, List, Optional

from vkit import gen, probe, prog, runner
from vkit.model import Model, decos_of
from vkit.probe import truth_bool

ID = "C04"
LEVEL = "exploration"
SHARDS = {"quick": 8, "thorough": 16}
TIMEOUT = {"quick": 300, "thorough": 3400}
DECIDING = ["calls", "calls_pre_false", "calls_post_false", "calls_inv_false", "classes_rejected_as_required", "hierarchies"]
RULE = (
    "ALL inheritance DAG shapes over <=3 classes (thorough: all 75 shapes over 4, sampled 5) rooted in DBC - chains, two-base joins, "
    "diamonds, gaps - x member kind {method, static, class, property get/set/del, async method, __call__ and other names that "
    "exist on the metaclass} x per class {absent, redefined without contracts, own precondition group, own postconditions, both} x "
    "invariants on random classes x foreign decorators above the contracts; calls on an instance of EVERY class with ALL truth "
    "assignments over the effective contracts (cap 48/96); constructor programs (pre/post on __init__/__new__ of base and child); "
    "weaken-without-base and snapshot-name-clash rejection programs. Oracle: DNF/CNF reference over the declaration DAG "
    "(accept-all if any providing ancestor has no precondition): body entered or not, error belongs to a falsy contract of the "
    "effective set, class-creation exceptions. Non-trivial = call whose effective contracts span >=2 classes; distinct = "
    "(shape, kind, per-class choices, class called, truth vector)."
    ' Fixed scenario: the error of a violated base group cannot be built (raising factory, argument without repr) w'
    'hile the weaker group of the override holds - the call is accepted (sync and async).'
)
ASSUMPTIONS = ["model.eff_pre/eff_post/eff_invs encode the statement; snapshots reached along two diamond paths are a silent zone"]


def verdict(model: Model, cls: str, key: str, truth: Dict[str, Any], owner: Any = None) -> Dict[str, Any]:
    """The statement's verdict, independent of evaluation order (``owner``: judge as if that class provided the member)."""
    o = owner if owner is not None else model.owner(cls, key)
    m = model.defines(o, key)
    pre = model.eff_pre(o, key)
    post = model.eff_post(o, key)
    invs = model.invs_around(cls, m)

    def t(cid: str, n: int = 0) -> bool:
        spec = truth.get(cid, True)
        if isinstance(spec, dict):
            seq = spec["seq"]
            spec = seq[min(n, len(seq) - 1)]
        return truth_bool(spec)

    pre_ok = (not pre) or any(all(t(c["id"]) for c in g) for g in pre)
    res = {"pre_ids": [c["id"] for g in pre for c in g], "post_ids": [c["id"] for c in post], "inv_ids": [i["id"] for i in invs]}
    if not pre_ok:
        res.update(kind="pre", body=False, culprits=[c["id"] for g in pre for c in g if not t(c["id"])])
        return res
    bad_post = [c["id"] for c in post if not t(c["id"])]
    if bad_post:
        res.update(kind="post", body=True, culprits=bad_post)
        return res
    # the after-value of an invariant is the entry following its before-evaluations (one per inheritance path)
    occurrences = {}  # type: Dict[str, int]
    for i in invs:
        occurrences[i["id"]] = occurrences.get(i["id"], 0) + 1
    bad_inv = [i["id"] for i in invs if not t(i["id"], occurrences[i["id"]])]
    if bad_inv:
        res.update(kind="inv", body=True, culprits=bad_inv)
        return res
    res.update(kind="ok", body=True, culprits=[])
    return res


def error_matches(loaded, contracts, exc: BaseException, cid: str) -> bool:
    import icontract  # pylint: disable=import-outside-toplevel

    hub = loaded.hub
    c = contracts[cid]
    err = c.get("err", "default")
    if err == "default":
        return type(exc) is icontract.ViolationError and ("D:" + cid + ":") in str(exc)
    if err == "class":
        return type(exc) is hub.errclasses.get(cid) and ("D:" + cid + ":") in str(exc)
    if err == "instance":
        return exc is hub.errinsts.get(cid)
    if err in ("factory", "method"):
        made = hub.factory_made.get(cid, [])
        return bool(made) and exc is made[-1]
    return False


def explained_by_copy_shadow(model: Model, cls: str, key: str, truth: Dict[str, Any], obs: Any, loaded: Any, contracts: Any) -> bool:
    """Is the observation exactly what the known copy-shadow mechanism predicts (and nothing else)?

    The class ``k = copy_shadow(cls, key)`` holds a wrapped copy of the member it inherits from ``owner(k, key)``; Python finds
    that copy for ``cls``. The prediction is therefore the verdict of the statement for the member of THAT owner (its body, its
    effective contracts) under the invariants of ``cls``. Anything else observed in this corner is a different violation.
    """
    k = model.copy_shadow(cls, key)
    if k is None:
        return False
    shadow_owner = model.owner(k, key)
    v = verdict(model, cls, key, truth, owner=shadow_owner)
    keys = obs.keys()
    bodies = [e[1] for e in keys if e[0] == "body"]
    if bool(bodies) != v["body"]:
        return False
    if bodies and not all(b.startswith(shadow_owner + "_") for b in bodies):
        return False
    if v["kind"] == "ok":
        return bool(obs.returned)
    if obs.returned:
        return False
    return any(error_matches(loaded, contracts, obs.exc, cid) for cid in v["culprits"])


def classify(model: Model, cls: str, key: str, what: str, explained: bool = False) -> str:
    if model.copy_shadow(cls, key) is not None:
        # mechanism: a class that only adds invariants holds a copy of the member it inherits from classes without
        # invariants; in a join that copy is found before the sibling class that overrides the member. The key of the known
        # finding is used only if the observation is exactly what that mechanism predicts.
        if explained:
            return "C04/inherited-member-copy-shadows-override-in-mro"
        return "C04/" + what + "/in-copy-shadow-corner-but-not-explained-by-it"
    o = model.owner(cls, key)
    # mechanism: several bases provide the member, one of them with no precondition at all
    cur = o
    stack = [o]
    seen = set()
    while stack:
        c = stack.pop()
        if c in seen or c is None:
            continue
        seen.add(c)
        flags = []
        for b in model.bases(c):
            bo = model.owner(b, key)
            if bo is not None:
                flags.append(bool(model.eff_pre(bo, key)))
                stack.append(bo)
        if len(flags) >= 2 and any(flags) and not all(flags):
            return "C04/mixed-bases-one-without-precondition"
    return "C04/" + what


def judge(w, loaded, model, contracts, spec, cls: str, key: str, truth: Dict[str, Any], meta) -> None:
    call = {"target": "member", "cls": cls, "key": key, "truth": truth}
    v = verdict(model, cls, key, truth)
    obs = runner.perform(loaded, model, call)
    case = {"prog": spec, "call": call, "meta": meta}
    w.count("calls")
    span = set()
    for cid in v["pre_ids"] + v["post_ids"] + v["inv_ids"]:
        span.add(cid)
    owners = set()
    for c in model.classes.values():
        for m in c.get("members", []):
            for dk, d in m.get("decos", []):
                if dk != "foreign" and d["id"] in span:
                    owners.add(c["name"])
        for i in c.get("invs", []):
            if i["id"] in span:
                owners.add(c["name"])
    w.case((meta, cls, tuple(sorted((k, str(x)) for k, x in truth.items()))) if len(owners) >= 2 else None)
    if obs.setup_error:
        w.violation("C04/setup", obs.setup_error, case)
        return
    keys = obs.keys()
    body_ran = any(k[0] == "body" for k in keys)
    detail = {"verdict": v, "observed": obs.describe()}
    explained = explained_by_copy_shadow(model, cls, key, truth, obs, loaded, contracts)
    w.count({"pre": "calls_pre_false", "post": "calls_post_false", "inv": "calls_inv_false", "ok": "calls_ok"}[v["kind"]])
    if v["body"] != body_ran:
        w.violation(classify(model, cls, key, "body-entered-though-effective-pre-false" if body_ran else "body-not-entered-though-effective-pre-holds", explained),
                    "{}.{}: effective precondition {} but the body {}; outcome {}".format(
                        cls, key, "holds" if v["body"] else "is false", "ran" if body_ran else "did not run", obs.describe()["outcome"]),
                    case, detail)
        return
    if v["kind"] == "ok":
        if not obs.returned:
            w.violation(classify(model, cls, key, "raised-though-all-effective-contracts-hold", explained), "{}.{} raised {}".format(
                cls, key, obs.describe()["outcome"]), case, detail)
        return
    if obs.returned:
        w.violation(classify(model, cls, key, "returned-though-effective-{}-false".format(v["kind"]), explained),
                    "{}.{}: effective {} {} false but the call returned".format(cls, key, v["kind"], v["culprits"]), case, detail)
        return
    if not any(error_matches(loaded, contracts, obs.exc, cid) for cid in v["culprits"]):
        w.violation(classify(model, cls, key, "error-of-a-contract-outside-the-effective-set", explained),
                    "{}.{}: falsy effective contracts {} but the caller got {}".format(cls, key, v["culprits"], obs.describe()["outcome"]),
                    case, detail)
    if w.counters["calls"] % 211 == 1:
        w.sample({"class": cls, "member": key, "meta": meta, "verdict": v, "observed": obs.describe()})


def truths(w, model: Model, cls: str, key: str, cap: int):
    o = model.owner(cls, key)
    m = model.defines(o, key)
    ids = []
    for g in model.eff_pre(o, key):
        for c in g:
            if c["id"] not in ids:
                ids.append(c["id"])
    for c in model.eff_post(o, key):
        if c["id"] not in ids:
            ids.append(c["id"])
    # every condition declared on the member anywhere in the ancestry gets a truth value too: contracts the statement
    # says are NOT effective (accept-all ancestors, overridden constructors) must not influence the verdict
    for k in model.mro(cls):
        mm = model.defines(k, key)
        if mm is not None:
            for dk, c in mm.get("decos", []):
                if dk in ("pre", "post") and c["id"] not in ids:
                    ids.append(c["id"])
    inv_ids = []
    occurrences = {}  # type: Dict[str, int]
    for i in model.invs_around(cls, m):
        occurrences[i["id"]] = occurrences.get(i["id"], 0) + 1
        if i["id"] not in inv_ids:
            inv_ids.append(i["id"])
    for truth in gen.all_truth(ids + inv_ids, w.rng, cap):
        for iid in inv_ids:
            # invariants hold before the call (once per inheritance path); their after-value is what is enumerated
            truth[iid] = {"seq": [["T", 0]] * occurrences[iid] + [truth[iid]]}
        yield truth


def run_spec(w, spec, meta) -> None:
    model = Model(spec)
    contracts = runner.index_contracts(spec)
    loaded = prog.load(spec, w.scratch())
    cap = 96 if w.tier == "thorough" else 48
    try:
        for d in runner.check_definitions(loaded, model):
            if d.info.get("exc_type") == "NameError" and any(b in loaded.hub.creation_errors for b in model.bases(d.info.get("cls"))):
                continue  # consequence of a base class that failed to be created (reported there)
            key = "C04/class-creation-verdict-differs"
            cls = d.info.get("cls")
            if cls and model.class_rejection(cls) is None and d.info.get("exc_type") == "TypeError" and "weaken" in d.what:
                m_names = [m["name"] for m in model.classes[cls].get("members", [])]
                import abc  # pylint: disable=import-outside-toplevel
                if any(hasattr(abc.ABCMeta, n) and n not in vars(object) for n in m_names):
                    key = "C04/metaclass-attribute-taken-for-inherited-member"
            w.violation(key, d.what, {"prog": spec, "meta": meta})
        for cls in model.classes:
            want = model.class_rejection(cls)
            if want in ("TypeError", "ValueError") and cls in loaded.hub.creation_errors:
                w.count("classes_rejected_as_required")
                w.case((meta, cls, "rejected"))
        kind = spec.get("kind")
        for cls in model.classes:
            if loaded.get(cls) is None:
                continue
            if kind in ("init", "new"):
                ckey = "__init__" if kind == "init" else "__new__"
                o = model.owner(cls, ckey)
                ids = []
                if o is not None:
                    m = model.defines(o, ckey)
                    ids = [c["id"] for dk, c in m["decos"] if dk in ("pre", "post")]
                inv_ids = []
                for i in model.eff_invs(cls):
                    if i["id"] not in inv_ids:
                        inv_ids.append(i["id"])
                for truth in gen.all_truth(ids + inv_ids, w.rng, cap):
                    exp, obs, discs = runner.run_case(loaded, model, contracts, {"target": "construct", "cls": cls, "truth": truth},
                                                      check_identity=False)
                    w.count("calls")
                    w.count("constructor_calls")
                    w.case((meta, cls, "ctor", tuple(sorted((k, str(x)) for k, x in truth.items()))))
                    for d in discs:
                        if d.kind in ("outcome", "error-identity") or (d.kind == "events" and d.info.get("body_expected") != d.info.get("body_observed")):
                            vkey = "C04/constructor-contracts-" + d.kind
                            import inspect as _inspect  # pylint: disable=import-outside-toplevel
                            try:
                                resolved = _inspect.unwrap(getattr(loaded.get(cls), ckey)).__qualname__.split(".")[0]
                            except Exception:  # pylint: disable=broad-except
                                resolved = None
                            if o is not None and resolved in model.classes and resolved != o:
                                # mechanism: a class on the MRO holds a (wrapped) copy of the constructor it inherits; the copy is
                                # found before the sibling class that overrides the constructor
                                vkey = "C04/inherited-constructor-copy-shadows-override-in-mro"
                            w.violation(vkey, d.what, {"prog": spec, "call": {"target": "construct", "cls": cls, "truth": truth},
                                                                                         "meta": meta}, {"expected": repr(exp), "observed": obs.describe()})
                continue
            key = spec["key"]
            if model.owner(cls, key) is None:
                continue
            for truth in truths(w, model, cls, key, cap):
                judge(w, loaded, model, contracts, spec, cls, key, truth, meta)
    finally:
        loaded.unload()


METACLASS_NAMES = ["__call__", "mro", "register", "__instancecheck__", "__subclasscheck__", "__subclasses__"]


def specs(w, avoid_copy_shadow: bool = False):
    rng = w.rng
    # The PLAN (which programs exist, in which order) is drawn from a stream that is the same in every shard: the running index
    # ``idx`` must mean the same program everywhere, otherwise programs fall between the shards. Only the CONTENT of a program
    # comes from the shard's own stream.
    import random as _random  # pylint: disable=import-outside-toplevel
    plan = _random.Random("C04-plan/{}/{}".format(w.tier, getattr(w, "seed", 0)))
    thorough = w.tier == "thorough"
    shapes = gen.dag_shapes(1) + gen.dag_shapes(2) + gen.dag_shapes(3)
    shapes4 = gen.dag_shapes(4)
    kinds = ["method", "static", "class", "pget", "pset", "pdel", "method"]
    idx = 0
    rounds = 10 if thorough else 3
    for rnd in range(rounds):
        pool = shapes + (shapes4 if thorough else plan.sample(shapes4, 30))
        for shape in pool:
            for kind in (kinds if len(shape) <= 3 else plan.sample(kinds, 3)):
                for is_async in ((False, True) if kind == "method" and plan.random() < 0.5 else (False,)):
                    for variant in range(3 if len(shape) >= 2 else 2):
                        idx += 1
                        if idx % w.nshards != w.shard:
                            continue
                        ids = gen.Ids()
                        spec = gen.hier_program(ids, rng, shape, kind, is_async, inv_prob=0.3, max_conj=2,
                                                allow_reject=(variant == 2), avoid_mixed=False, avoid_copy_shadow=avoid_copy_shadow)
                        yield (str(shape), kind, is_async, variant), spec
        # constructors
        for shape in shapes:
            for kind in ("init", "new"):
                idx += 1
                if idx % w.nshards != w.shard:
                    continue
                ids = gen.Ids()
                yield (str(shape), kind, False, 0), gen.hier_program(ids, rng, shape, kind, False, inv_prob=0.3, max_conj=2)
        # a class that only adds invariants to a base without invariants, joined BEFORE a sibling that overrides the member
        if not avoid_copy_shadow:
            for kind in ("method", "pset", "static"):
                idx += 1
                if idx % w.nshards != w.shard:
                    continue
                ids = gen.Ids()
                spec = gen.hier_program(ids, rng, [[], [0], [0], [1, 2]], kind, False, choices=["plain", "absent", "both", "absent"], inv_prob=0.0,
                                        avoid_copy_shadow=False)
                spec["classes"][1]["invs"] = [gen.make_inv(ids, rng)]
                yield ("copy-shadow", kind, False, 0), spec
            # the same for constructors: the class in the middle holds (a) a copy of the root's already wrapped constructor
            # (invariants on the root) or (b) a wrapper of its own around the inherited constructor (invariants added by it)
            for kind in ("init", "new"):
                for inv_at in (0, 1):
                    idx += 1
                    if idx % w.nshards != w.shard:
                        continue
                    ids = gen.Ids()
                    spec = gen.hier_program(ids, rng, [[], [0], [0], [1, 2]], kind, False, choices=["plain", "absent", "both", "absent"],
                                            inv_prob=0.0, avoid_copy_shadow=False)
                    spec["classes"][inv_at]["invs"] = [gen.make_inv(ids, rng)]
                    yield ("copy-shadow-ctor", kind, False, inv_at), spec
        # member names that also exist on the metaclass (type / ABCMeta)
        for name in METACLASS_NAMES:
            idx += 1
            if idx % w.nshards != w.shard:
                continue
            ids = gen.Ids()
            shape = rng.choice(gen.dag_shapes(2))
            spec = gen.hier_program(ids, rng, shape, "method", False, choices=["pre", rng.choice(("pre", "plain", "both"))], inv_prob=0.0)
            old = spec["classes"][0]["members"][0]["name"]
            for c in spec["classes"]:
                for m in c["members"]:
                    if m["name"] == old:
                        m["name"] = name
            spec["key"] = name
            yield (str(shape), "metaclass-name:" + name, False, 0), spec


OVERRULED_SOURCE = '''
import icontract

LOG = []


class Interrupted(BaseException):
    pass


class Touchy:
    """An argument whose repr cannot be taken (reprlib absorbs ordinary exceptions; this one is not an ordinary exception)."""

    def __init__(self, v):
        self.v = v

    def __repr__(self):
        LOG.append("repr")
        raise Interrupted("repr of a Touchy")


def only_for_positive(x):
    LOG.append("factory")
    raise RuntimeError("this error text is only defined for the inputs of the base class")


class Base(icontract.DBC):
    @icontract.require(lambda x: x.v > 0, error=only_for_positive)
    {a}def with_factory(self, x):
        LOG.append("body")
        return x.v

    @icontract.require(lambda x: x.v > 0)
    {a}def with_message(self, x):
        LOG.append("body")
        return x.v


class Derived(Base):
    @icontract.require(lambda x: x.v < 0)
    {a}def with_factory(self, x):
        LOG.append("body")
        return x.v

    @icontract.require(lambda x: x.v < 0)
    {a}def with_message(self, x):
        LOG.append("body")
        return x.v
'''


def run_overruled_groups(w) -> None:
    """The group of the base is violated, the weaker group of the override holds: the call is accepted - also when the error of the
    overruled group could not even be built (its factory raises for these inputs; an argument has no repr)."""
    for is_async in (False, True):
        loaded = prog.load_source(OVERRULED_SOURCE.replace("{a}", "async " if is_async else ""), w.scratch())
        mod = loaded.module
        try:
            for member in ("with_factory", "with_message"):
                for value, want in ((-3, "returned -3"), (5, "returned 5")):
                    del mod.LOG[:]
                    try:
                        res = getattr(mod.Derived(), member)(mod.Touchy(value))
                        if is_async:
                            res = probe.drive(res)
                        outcome = "returned {}".format(res)
                    except BaseException as err:  # pylint: disable=broad-except
                        outcome = "raised {}: {}".format(type(err).__name__, str(err)[:100])
                    w.count("calls")
                    w.count("overruled_group_calls")
                    w.count("pre_evaluations")
                    w.case(("overruled-group", member, value, is_async))
                    if outcome != want:
                        w.violation("C04/call-refused-because-of-the-error-of-an-overruled-group", "{}Derived().{}(Touchy({})): the effective precondition "
                                    "(x.v > 0 or x.v < 0) holds but the call {}; log {}".format("async " if is_async else "", member, value, outcome, mod.LOG),
                                    {"overruled": member, "async": is_async})
        finally:
            loaded.unload()


REBOUND_SOURCE = '''
import icontract


class Grand(icontract.DBC):
    @icontract.require(lambda x: x > 0)
    @icontract.ensure(lambda result: result < 1000)
    def f(self, x):
        return x

    @icontract.require(lambda x: x > 0)
    def g(self, x):
        return x


class Parent(Grand):
    @icontract.require(lambda x: x < -10)
    @icontract.ensure(lambda result: result % 2 == 0)
    def f(self, x):
        return x

    @icontract.require(lambda x: x < -10)
    def g(self, x):
        return x


def verdicts():
    out = []
    for cls in (Grand, Parent):
        for member in ("f", "g"):
            for x in (5, 6, -20, -5, 2000):
                try:
                    getattr(cls(), member)(x)
                    out.append((cls.__name__, member, x, "returned"))
                except icontract.ViolationError:
                    out.append((cls.__name__, member, x, "violation"))
            checker = icontract._checkers.find_checker(getattr(cls, member))
            out.append((cls.__name__, member, "groups", [len(group) for group in checker.__preconditions__], len(checker.__postconditions__)))
    return out


BEFORE = verdicts()


class Child(Parent):
    # the sub-class takes the functions of the grand-parent over as they are (the parent overrides them)
    f = Grand.f
    g = Grand.g


AFTER = verdicts()
CHILD = []
for x in (5, -20):
    try:
        Child().f(x)
        CHILD.append((x, "returned"))
    except icontract.ViolationError:
        CHILD.append((x, "violation"))
'''


def run_rebound_ancestor_member(w) -> None:
    """A sub-class which re-binds the function of a grand-parent (overridden by its parent) under the same name: the members which
    the grand-parent and the parent provide keep their contracts as they are."""
    loaded = prog.load_source(REBOUND_SOURCE, w.scratch())
    mod = loaded.module
    try:
        w.count("calls", len(mod.BEFORE))
        w.count("rebound_member_observations", len(mod.BEFORE))
        w.case(("rebound-ancestor-member",))
        for before, after in zip(mod.BEFORE, mod.AFTER):
            if before != after:
                w.violation("C04/inherited-member-changed-by-a-sub-class-which-rebinds-it", "defining Child(Parent) with f = Grand.f changed {} into {}".format(
                    before, after), {"rebound": True})
        # the function is Grand's own: its contracts as they are
        if mod.CHILD != [(5, "returned"), (-20, "violation")]:
            w.violation("C04/inherited-member-changed-by-a-sub-class-which-rebinds-it", "Child().f, which is Grand.f taken over as it is, gives {}".format(
                mod.CHILD), {"rebound": True})
    finally:
        loaded.unload()


OBJECT_DEFAULTS_SOURCE = '''
import icontract


class A(icontract.DBC):
    def __init__(self, tag="<a>", key=1):
        self.tag, self.key = tag, key

    @icontract.ensure(lambda result: result.startswith("<"))
    def __str__(self):
        return self.tag

    @icontract.ensure(lambda result: result >= 0)
    def __hash__(self):
        return self.key

    @icontract.ensure(lambda result: result != "")
    def __format__(self, spec):
        return self.tag

    @icontract.ensure(lambda other, result: result is False or other is not None)
    def __eq__(self, other):
        return other is not None and type(other) is type(self)


class B(A):
    """Overrides without contracts of its own: the postconditions of A still bind it."""
    def __str__(self):
        return "b" + self.tag

    def __hash__(self):
        return self.key

    def __format__(self, spec):
        return ""

    def __eq__(self, other):
        return True


class C(B):
    @icontract.ensure(lambda result: len(result) < 100)
    def __str__(self):
        return "c" + self.tag
'''


def run_object_default_members(w) -> None:
    """Special methods for which `object` provides a default (__str__, __hash__, __format__, __eq__) are members like any other once a
    class of the hierarchy defines them with contracts: an override inherits the postconditions."""
    import icontract  # pylint: disable=import-outside-toplevel

    loaded = prog.load_source(OBJECT_DEFAULTS_SOURCE, w.scratch())
    mod = loaded.module
    try:
        for tag, call, want in (
                ("A.__str__ holds", lambda: str(mod.A()), "returned"), ("B.__str__ violates the inherited postcondition", lambda: str(mod.B()), "violation"),
                ("C.__str__ violates the postcondition of its grand-parent", lambda: str(mod.C()), "violation"),
                ("B.__hash__ holds", lambda: hash(mod.B(key=3)), "returned"), ("B.__hash__ violates", lambda: hash(mod.B(key=-3)), "violation"),
                ("A.__format__ holds", lambda: format(mod.A(), ""), "returned"), ("B.__format__ violates", lambda: format(mod.B(), ""), "violation"),
                ("A.__eq__ holds", lambda: mod.A() == None, "returned"),  # noqa: E711  pylint: disable=singleton-comparison
                ("B.__eq__ violates", lambda: mod.B() == None, "violation")):  # noqa: E711  pylint: disable=singleton-comparison
            try:
                call()
                got = "returned"
            except icontract.ViolationError:
                got = "violation"
            except BaseException as err:  # pylint: disable=broad-except
                got = "raised {}: {}".format(type(err).__name__, str(err)[:100])
            w.count("calls")
            w.count("object_default_member_calls")
            w.case(("object-default-member", tag))
            if got != want:
                w.violation("C04/inherited-postcondition-of-a-special-method-not-enforced", "{}: {} (expected {})".format(tag, got, want),
                            {"object_defaults": tag})
    finally:
        loaded.unload()


ASSIGNED_OVERRIDES_SOURCE = '''
import icontract


class A(icontract.DBC):
    @icontract.require(lambda x: x > 0)
    @icontract.ensure(lambda result: result < 100)
    def plain(self, x):
        return x

    @icontract.require(lambda x: x > 0)
    def weakened(self, x):
        return x

    def unconstrained(self, x):
        return x

    @property
    @icontract.ensure(lambda result: result >= 0)
    def prop(self):
        return 1


def _plain_impl(self, x):
    return x * 50


@icontract.require(lambda x: x < -10)
def _weakened_impl(self, x):
    return x


def _prop_getter(self):
    return -1


def make_impl():
    def impl(self, x):
        return x * 50
    return impl


class Assigned(A):
    """Overrides given as functions that were defined outside the class body: they are overrides like any other."""
    plain = _plain_impl
    weakened = _weakened_impl
    prop = property(_prop_getter)


class FromFactory(A):
    plain = make_impl()


class FromLambda(A):
    plain = lambda self, x: x * 50  # noqa: E731


try:
    class Strengthening(A):
        unconstrained = _weakened_impl
except TypeError as err:
    STRENGTHENING = "TypeError"
else:
    STRENGTHENING = "accepted"
'''


def run_assigned_overrides(w) -> None:
    """An overriding member which is a function defined OUTSIDE the class body (at module level, by a factory, a lambda) and assigned in
    it inherits the contracts of the ancestors like an override written in the body."""
    import icontract  # pylint: disable=import-outside-toplevel

    loaded = prog.load_source(ASSIGNED_OVERRIDES_SOURCE, w.scratch())
    mod = loaded.module
    try:
        for tag, call, want in (
                ("Assigned.plain(-1): inherited precondition", lambda: mod.Assigned().plain(-1), "violation"),
                ("Assigned.plain(7): inherited postcondition", lambda: mod.Assigned().plain(7), "violation"),
                ("Assigned.plain(1)", lambda: mod.Assigned().plain(1), "returned"),
                ("Assigned.weakened(5): the group of the base admits it", lambda: mod.Assigned().weakened(5), "returned"),
                ("Assigned.weakened(-20): the own group admits it", lambda: mod.Assigned().weakened(-20), "returned"),
                ("Assigned.weakened(-5): no group admits it", lambda: mod.Assigned().weakened(-5), "violation"),
                ("Assigned.prop: inherited postcondition of the getter", lambda: mod.Assigned().prop, "violation"),
                ("FromFactory.plain(7)", lambda: mod.FromFactory().plain(7), "violation"),
                ("FromFactory.plain(-1)", lambda: mod.FromFactory().plain(-1), "violation"),
                ("FromLambda.plain(7)", lambda: mod.FromLambda().plain(7), "violation"),
                ("FromLambda.plain(1)", lambda: mod.FromLambda().plain(1), "returned")):
            try:
                call()
                got = "returned"
            except icontract.ViolationError:
                got = "violation"
            except BaseException as err:  # pylint: disable=broad-except
                got = "raised {}: {}".format(type(err).__name__, str(err)[:100])
            w.count("calls")
            w.count("assigned_override_calls")
            w.case(("assigned-override", tag))
            if got != want:
                w.violation("C04/override-assigned-in-the-class-body-does-not-inherit", "{}: {} (expected {})".format(tag, got, want),
                            {"assigned_overrides": tag})
        w.count("calls")
        if mod.STRENGTHENING != "TypeError":
            w.violation("C04/override-assigned-in-the-class-body-does-not-inherit", "a class whose assigned override adds a precondition over an ancestor "
                        "without any was {} (expected TypeError at class creation)".format(mod.STRENGTHENING), {"assigned_overrides": "strengthening"})
    finally:
        loaded.unload()


def run(w) -> None:
    if w.shard == 4 % w.nshards:
        run_assigned_overrides(w)
    if w.shard == 3 % w.nshards:
        run_object_default_members(w)
    if w.shard == 1 % w.nshards:
        run_overruled_groups(w)
    if w.shard == 2 % w.nshards:
        run_rebound_ancestor_member(w)
    for meta, spec in specs(w):
        w.count("hierarchies")
        run_spec(w, spec, meta)
    w.exhaustive = False


def replay(case, w) -> None:
    if "overruled" in case:
        run_overruled_groups(w)
        return
    if "rebound" in case:
        run_rebound_ancestor_member(w)
        return
    if "assigned_overrides" in case:
        run_assigned_overrides(w)
        return
    if "object_defaults" in case:
        run_object_default_members(w)
        return
    spec = case["prog"]
    model = Model(spec)
    contracts = runner.index_contracts(spec)
    loaded = prog.load(spec, w.scratch())
    try:
        if "call" in case and case["call"]["target"] == "member":
            judge(w, loaded, model, contracts, spec, case["call"]["cls"], case["call"]["key"], case["call"].get("truth", {}),
                  tuple(case.get("meta", ())))
        else:
            loaded.unload()
            run_spec(w, spec, tuple(case.get("meta", ())))
            return
    finally:
        loaded.unload()
