"""C09 — the `error` argument decides exactly what a violation raises."""
import inspect
import itertools
import os
from typing import Any, Dict, List

from vkit import gen, probe, prog, runner
from vkit.model import Model, decos_of
from vkit.prog import P

ID = "C09"
LEVEL = "exploration"
SHARDS = {"quick": 4, "thorough": 16}
TIMEOUT = {"quick": 240, "thorough": 2400}
DECIDING = ["violations_raised", "factory_calls", "invalid_error_programs"]
RULE = (
    "the full product error form {default, exception class, exception instance, function factory, bound-method factory} x role "
    "{precondition, postcondition, invariant} x callable kind {function, method, static, class method, property get/set/del, "
    "__init__, __new__} x sync/async x condition form {def, lambda, coroutine function, awaitable}; for factories EVERY subset of "
    "the nameable values (parameters, _ARGS, _KWARGS, result, OLD, self) and factories returning a non-exception; invalid error "
    "arguments (non-exception class, str/int instance, functools.partial, callable object, builtin, object()) on every decorator. "
    "Monitors: type/identity/args/message structure of the exception at the caller, number of factory calls, identity of the "
    "objects the factory received. Non-trivial = a violation was raised; distinct = (form, role, kind, async, cond form, subset)."
    ' Error factories carry a keyword-only marker at a random position of their parameter list (factories are called by keyword: the kind of a parameter makes no difference to what it receives).'
)
ASSUMPTIONS = ["decorators created with enabled=False skip validation (silent zone, C15)", "factories with defaulted parameters are a silent zone"]


def programs(w):
    """Yield (spec, calls) where each call violates exactly one contract."""
    rng = w.rng
    kinds = ["function", "method", "static", "class", "pget", "pset", "pdel", "init", "new"]
    forms = ["default", "class", "instance", "factory", "method"]
    idx = 0
    rounds = 20 if w.tier == "thorough" else 2
    for rnd in range(rounds):
        for kind in kinds:
            for is_async in ((False, True) if kind in ("function", "method", "static", "class") else (False,)):
                idx += 1
                if idx % w.nshards != w.shard:
                    continue
                ids = gen.Ids()
                funcs, classes, calls = [], [], []
                cond_forms = ["def", "lambda"] + (["adef", "aw"] if is_async else [])
                for role in ("pre", "post", "inv"):
                    if role == "inv" and kind in ("function", "static", "class", "new"):
                        continue
                    for form in forms:
                        for cform in cond_forms:
                            if cform in ("adef", "aw") and (form in ("default", "class") or role == "inv"):
                                continue
                            params = gen.params_for(kind, rng, [P("x"), P("y", default=True)] if kind not in ("pget", "pset", "pdel") else None)
                            names = gen.askable(params, kind)
                            extra = ["_ARGS", "_KWARGS"]
                            if role == "post":
                                extra += ["result", "OLD"]
                            if role == "inv":
                                subsets = [[], ["self"]] if form in ("factory", "method") else [["self"]]
                            elif form in ("factory", "method"):
                                pool = names + extra
                                subsets = [list(c) for r in range(len(pool) + 1) for c in itertools.combinations(pool, r)]
                                if len(subsets) > (24 if w.tier == "quick" else 64):
                                    keep = [[], pool]
                                    keep += rng.sample(subsets[1:-1], (22 if w.tier == "quick" else 62))
                                    subsets = keep
                            else:
                                subsets = [[]]
                            for eargs in subsets:
                                n_snap = 1 if role == "post" else 0
                                m = gen.make_member(ids, rng, kind, ids.new("m"), is_async, 1 if role == "pre" else 0,
                                                    1 if role == "post" else 0, n_snap, forms=[cform], errs=[form], params=[dict(p) for p in params],
                                                    shuffle=False)
                                for dk, c in m["decos"]:
                                    if dk in ("pre", "post"):
                                        c["eargs"] = list(eargs)
                                        c["edefaults"] = [n for n in eargs if rng.random() < 0.35]
                                        c["eextra"] = rng.random() < 0.3
                                        c["ekwonly"] = rng.randrange(len(eargs) + 1) if rng.random() < 0.4 else None
                                        if "OLD" in c["args"] and not n_snap:
                                            c["args"].remove("OLD")
                                    if dk == "snap":
                                        c["form"] = "def"
                                meta = {"form": form, "role": role, "kind": kind, "async": is_async, "cform": cform, "eargs": eargs}
                                if kind == "function":
                                    funcs.append(m)
                                    target = [c for dk, c in m["decos"] if dk == role][0]
                                    calls.append(({"target": "func", "name": m["name"]}, target["id"], meta))
                                else:
                                    cname = ids.new("K")
                                    members = [m]
                                    if kind in ("pset", "pdel"):
                                        members.insert(0, gen.make_member(ids, rng, "pget", m["name"], False, 0, 0, 0))
                                    invs = []
                                    if role == "inv":
                                        inv = gen.make_inv(ids, rng, errs=[form], forms=(cform if cform in ("def", "lambda") else "def",))
                                        inv["self"] = True
                                        inv["eargs"] = list(eargs)
                                        inv["ekwonly"] = 0 if rng.random() < 0.4 else None
                                        # (a defaulted parameter which names no call value - the closure-binding idiom - keeps its default)
                                        inv["eextra"] = rng.random() < 0.5
                                        inv["edefaults"] = [n for n in eargs if rng.random() < 0.35]
                                        invs = [inv]
                                        m["decos"] = []
                                    classes.append(gen.chain_class(cname, [], members, invs, dbc=rng.random() < 0.5))
                                    if role == "inv":
                                        tid = invs[0]["id"]
                                    else:
                                        tid = [c for dk, c in m["decos"] if dk == role][0]["id"]
                                    if kind in ("init", "new"):
                                        calls.append(({"target": "construct", "cls": cname}, tid, meta))
                                    else:
                                        key = m["name"] if kind not in ("pget", "pset", "pdel") else "{}.{}".format(m["name"], kind)
                                        calls.append(({"target": "member", "cls": cname, "key": key}, tid, meta))
                yield {"funcs": funcs, "classes": classes}, calls


def judge(w, loaded, model, contracts, call, tid, meta) -> None:
    import icontract  # pylint: disable=import-outside-toplevel

    hub = loaded.hub
    c = contracts[tid]
    form = c.get("err", "default")
    for mode in (("normal", "nonexc", w.rng.choice(("nonexc-none", "nonexc-none", "nonexc-class", "nonexc-zero"))) if form in ("factory", "method") else ("normal",)):
        truth = {tid: ["F", w.rng.randrange(11)]}
        if mode.startswith("nonexc"):
            truth["error:" + tid] = mode
        if meta["role"] == "inv" and call["target"] == "member":
            # let the invariant hold before the call and fail after it
            truth[tid] = {"seq": [["T", 1], ["F", w.rng.randrange(11)]]}
        full = dict(call, truth=truth)
        exp = runner.expected_for(model, full)
        obs = runner.perform(loaded, model, full)
        case = {"prog": model.prog, "call": full, "meta": meta, "tid": tid}
        detail = {"expected": repr(exp), "observed": obs.describe()}
        w.case((meta["form"], meta["role"], meta["kind"], meta["async"], meta["cform"], tuple(meta["eargs"]), mode))
        if obs.setup_error:
            w.violation("C09/setup", obs.setup_error, case)
            continue
        if obs.returned:
            w.violation("C09/violation-not-raised", "falsy {} contract {} did not raise".format(meta["role"], tid), case, detail)
            continue
        w.count("violations_raised")
        exc = obs.exc
        err_events = [e for e in obs.events if e.kind == "error"]
        if mode.startswith("nonexc"):
            w.count("factory_calls", len(err_events))
            if type(exc) is not TypeError:
                w.violation("C09/non-exception-from-factory-not-TypeError", "factory returned a non-exception; caller got {}: {}".format(
                    type(exc).__name__, str(exc)[:200]), case, detail)
            continue
        if form == "default":
            if type(exc) is not icontract.ViolationError or not isinstance(exc, AssertionError):
                w.violation("C09/default-error-type", "expected ViolationError, got {}: {}".format(type(exc).__name__, str(exc)[:300]), case, detail)
            else:
                check_message(w, loaded, str(exc), tid, case, detail)
        elif form == "class":
            cls = hub.errclasses.get(tid)
            if type(exc) is not cls:
                w.violation("C09/class-error-type", "expected an instance of the given class, got {}: {}".format(
                    type(exc).__name__, str(exc)[:300]), case, detail)
            elif len(exc.args) != 1 or not isinstance(exc.args[0], str):
                w.violation("C09/class-error-args", "exception class must be instantiated with the message only, args={!r}".format(exc.args), case, detail)
            else:
                check_message(w, loaded, exc.args[0], tid, case, detail)
        elif form == "instance":
            if exc is not hub.errinsts.get(tid):
                w.violation("C09/instance-error-identity", "expected the very instance given as error, got {}: {!r}".format(
                    type(exc).__name__, exc), case, detail)

        elif form in ("factory", "method"):
            w.count("factory_calls", len(err_events))
            made = hub.factory_made.get(tid, [])
            if len(err_events) == 0 and c.get("eextra") and type(exc) is TypeError and "have not been set" in str(exc):
                # mechanism: every parameter of the factory is demanded from the call values, defaulted ones included
                w.violation("C09/defaulted-factory-parameter-demanded", "the factory has a defaulted parameter that names no call value; instead "
                            "of being called with the values it names, the caller got TypeError: {}".format(str(exc)[-120:]), case, detail)
                continue
            if len(err_events) != 1:
                w.violation("C09/factory-call-count", "error factory called {} times".format(len(err_events)), case, detail)
            elif not made or exc is not made[-1]:
                w.violation("C09/factory-result-identity", "caller got {!r}, factory returned {!r}".format(exc, made), case, detail)
            else:
                got = err_events[0].got
                if set(got) != set(c.get("eargs", [])):
                    w.violation("C09/factory-kwargs", "factory asked for {} got {}".format(c.get("eargs"), sorted(got)), case, detail)
        for d in runner.identity_checks(loaded, contracts, obs):
            w.violation("C09/factory-or-condition-saw-other-object", d.what, case, detail)
        # the order of events must still be the model's
        cmp_o, cmp_e = runner.align(obs.keys(), exp)
        if cmp_o != cmp_e:
            w.violation("C09/trace-differs", "expected {} observed {}".format(cmp_e, cmp_o), case, detail)
        if form == "instance" and exc is hub.errinsts.get(tid):
            # ... and again on the following violations (the instance has been raised before and carries a traceback now)
            for nth in (2, 3):
                obs_n = runner.perform(loaded, model, full)
                w.count("repeated_instance_violations")
                if obs_n.returned or obs_n.exc is not hub.errinsts.get(tid):
                    w.violation("C09/instance-error-identity", "violation #{} of the same contract: expected the very instance given as "
                                "error, got {!r}".format(nth, "a normal return" if obs_n.returned else obs_n.exc), case, detail)
                    break
        if w.counters["evaluations"] % 71 == 1:
            w.sample({"meta": meta, "exception": "{}: {}".format(type(exc).__name__, str(exc)[:200]),
                      "events": ["{}:{}".format(*k) for k in obs.keys()]})


def check_message(w, loaded, msg: str, tid: str, case, detail) -> None:
    """Structure of the generated message: location line, description, condition text."""
    lines = msg.split("\n")
    ok = lines[0].startswith("File {}, line ".format(loaded.path)) and lines[0].endswith(":")
    ok = ok and len(lines) > 1 and lines[1].startswith("D:{}: ".format(tid))
    if not ok:
        w.violation("C09/message-structure", "message lacks location/description: {!r}".format(msg[:300]), case, detail)
    w.count("messages_checked")


INVALID_ERRORS = [
    ("non-exception-class", "int"),
    ("plain-class", "type('Plain', (), {})"),
    ("str-instance", "'some error'"),
    ("int-instance", "42"),
    ("partial", "functools.partial(ValueError, 'x')"),
    ("callable-object", "CallableObj()"),
    ("builtin", "len"),
    ("object", "object()"),
    ("list", "[ValueError]"),
]

VALID_ERRORS = [
    ("lambda", "lambda: ValueError('x')"),
    ("bound-method", "Holder().make"),
    ("base-exception-class", "KeyboardInterrupt"),
    ("base-exception-instance", "SystemExit(3)"),
    ("exception-subclass", "type('MyErr', (ValueError,), {})"),
]

INVALID_SRC = '''
import functools
import icontract

class CallableObj:
    def __call__(self):
        return ValueError("from callable object")

class Holder:
    def make(self):
        return ValueError("from bound method")

RESULTS = {{}}
{body}
'''


def run_invalid(w) -> None:
    body = []
    expect = {}
    n = 0
    for deco in ("require", "ensure", "invariant"):
        for tag, expr in INVALID_ERRORS + VALID_ERRORS:
            n += 1
            name = "t{}".format(n)
            cond = "lambda self: True" if deco == "invariant" else "lambda: True"
            body.append("try:\n    icontract.{}({}, error={})\nexcept BaseException as err:\n    RESULTS[{!r}] = err\nelse:\n    RESULTS[{!r}] = None\n".format(
                deco, cond, expr, name, name))
            expect[name] = (deco, tag, (tag, expr) in INVALID_ERRORS)
    loaded = prog.load_source(INVALID_SRC.format(body="".join(body)), w.scratch())
    try:
        res = loaded.module.RESULTS
        for name, (deco, tag, invalid) in expect.items():
            w.count("invalid_error_programs")
            w.case(("error-arg", deco, tag))
            err = res[name]
            case = {"decorator": deco, "error": tag}
            if invalid and type(err) is not ValueError:
                w.violation("C09/invalid-error-accepted-{}".format(tag), "{}(error=<{}>) must raise ValueError at creation, got {}".format(
                    deco, tag, "no exception" if err is None else "{}: {}".format(type(err).__name__, err)), case)
            if not invalid and err is not None:
                w.violation("C09/valid-error-rejected-{}".format(tag), "{}(error=<{}>) raised {}: {}".format(
                    deco, tag, type(err).__name__, err), case)
    finally:
        loaded.unload()


OVERRULED_SOURCE = '''
import icontract


def base_error(x):
    return HUB.error("base", {{"x": x}})


def derived_error(x):
    return HUB.error("derived", {{"x": x}})


def sloppy_error(x):
    HUB.log("error", "sloppy", {{"x": x}}, None)
    return "not an exception"


class Base(icontract.DBC):
    @icontract.require(lambda x: HUB.cond("c_base", {{"x": x}}), error=base_error)
    {a}def do(self, x):
        return HUB.body("do", {{}})

    @icontract.require(lambda x: HUB.cond("c_sloppy", {{"x": x}}), error=sloppy_error)
    {a}def sloppy(self, x):
        return HUB.body("sloppy", {{}})


class Derived(Base):
    @icontract.require(lambda x: HUB.cond("c_derived", {{"x": x}}), error=derived_error)
    {a}def do(self, x):
        return HUB.body("do", {{}})

    @icontract.require(lambda x: HUB.cond("c_derived", {{"x": x}}), error=derived_error)
    {a}def sloppy(self, x):
        return HUB.body("sloppy", {{}})
'''


def run_overruled_group_factories(w) -> None:
    """Two precondition groups (a DBC override which states a precondition of its own): the error function of a violated group which a
    later group overrules - or which is not the last group tried - has no say in what the call raises: only the error of the violation
    that IS raised decides it (a factory that returns a non-exception for the overruled group does not turn a valid call into a
    TypeError). Sync and async."""
    for is_async in (False, True):
        loaded = prog.load_source(OVERRULED_SOURCE.format(a="async " if is_async else ""), w.scratch())
        mod, hub = loaded.module, loaded.hub
        try:
            for member, truth, want_outcome in (
                    ("do", {"c_base": False}, "returned"), ("do", {"c_base": False, "c_derived": False}, "derived"),
                    ("sloppy", {"c_sloppy": False}, "returned"), ("sloppy", {"c_sloppy": False, "c_derived": False}, "derived"),
                    ("do", {}, "returned")):
                hub.reset()
                hub.truth = dict(truth)
                exc = None
                try:
                    res = getattr(mod.Derived(), member)(probe.Tok("x"))
                    if inspect.iscoroutine(res):
                        probe.drive(res)
                    outcome = "returned"
                except BaseException as err:  # pylint: disable=broad-except
                    exc = err
                    made = hub.factory_made.get("derived", [])
                    outcome = "derived" if made and err is made[-1] else "raised {}: {}".format(type(err).__name__, str(err)[:120])
                w.count("violations_raised" if exc is not None else "overruled_group_calls_returned")
                w.count("factory_calls", sum(1 for e in hub.events if e.kind == "error"))
                w.count("overruled_group_calls")
                w.case(("overruled-group-factory", member, tuple(sorted(truth)), is_async))
                if outcome != want_outcome:
                    w.violation("C09/error-of-an-overruled-group-decides-the-outcome", "Derived().{}(x) [{}] with {}: {} (expected {})".format(
                        member, "async" if is_async else "sync", sorted(truth), outcome, want_outcome),
                        {"overruled_factories": member, "async": is_async, "truth": sorted(truth)})
        finally:
            loaded.unload()


def run(w) -> None:
    w.exhaustive = False
    if w.shard == 1 % w.nshards:
        run_overruled_group_factories(w)
    for spec, calls in programs(w):
        w.count("programs")
        model = Model(spec)
        contracts = runner.index_contracts(spec)
        loaded = prog.load(spec, w.scratch())
        try:
            for name, err in loaded.hub.creation_errors.items():
                w.violation("C09/definition", "definition of {} raised {}: {}".format(name, type(err).__name__, str(err)[:300]), {"prog": spec})
            for call, tid, meta in calls:
                judge(w, loaded, model, contracts, call, tid, meta)
        finally:
            loaded.unload()
    if w.shard == 0:
        run_invalid(w)


def replay(case, w) -> None:
    if "overruled_factories" in case:
        run_overruled_group_factories(w)
        return
    if "prog" not in case:
        run_invalid(w)
        return
    spec = case["prog"]
    model = Model(spec)
    contracts = runner.index_contracts(spec)
    loaded = prog.load(spec, w.scratch())
    try:
        call = {k: v for k, v in case["call"].items() if k != "truth"}
        judge(w, loaded, model, contracts, call, case["tid"], case["meta"])
    finally:
        loaded.unload()
