"""C07 — a violation always surfaces as the contract's error with the true condition text."""
import ast
import re
from typing import Any, Dict, List, Optional, Tuple

from vkit import exprs, prog
from vkit.checks import c06

ID = "C07"
LEVEL = "exploration"
SHARDS = {"quick": 8, "thorough": 16}
TIMEOUT = {"quick": 400, "thorough": 3400}
DECIDING = ["violating_calls", "guarded_conditions_with_skipped_operands", "layout_cases", "probe_subsets_checked"]
RULE = (
    "(a) conditions from the C06 grammar biased (70%) to GUARDED forms whose later operands are only defined when earlier ones hold "
    "(`xs and xs[0] > i`, `k in d and d[k] > i`, `b != 0 and a // b > i`, `0 < b < 10 // b`, `x is None or x + 1 > i`, guarded "
    "conditionals, ...) with inputs falsifying the guard; random sub-expressions are wrapped in counting probes P(k, e). x error "
    "form {default, exception class, instance, factory}. (b) layout matrix: the same conditions rendered in 37 decorator layouts "
    "(one line, many lines, keyword form with condition first/last, error lambdas before/after the condition and on neighbouring "
    "decorators, comments trailing/interleaved containing `def`/`class`/`@`, foreign decorators around, nested in classes and "
    "functions at several indentations, backslash continuation, blank lines and comments before def, async def, aliased imports, "
    "ensure and invariant) x error forms. Monitors: the exception class at the caller is the configured error (never RuntimeError, "
    "SyntaxError, IndexError, ...); message = location (file, line inside the decorator) + description + condition text that parses "
    "to the generated expression; the probes evaluated while the message is built are a subset of those CPython evaluated. "
    "Non-trivial = violated condition; distinct = (expression, layout, error form)."
    ' Fixed corner conditions: a closure variable not bound yet behind a short-circuit, a callee that compares equa'
    'l to everything called with a generator.'
)
ASSUMPTIONS = ["lambdas outside decorators, inline lambdas inside conditions and string literals that look like def/class lines are silent zones"]

CAPTURED_TEXT = []  # type: List[str]
_HOOKED = False


def install_hook() -> None:
    global _HOOKED  # pylint: disable=global-statement
    c06.install_hook()
    if _HOOKED:
        return
    import icontract._represent as rep  # pylint: disable=import-outside-toplevel

    original = rep.inspect_lambda_condition

    def recording(condition):  # type: ignore
        res = original(condition=condition)
        if res is not None:
            CAPTURED_TEXT.append(res.text)
        return res

    rep.inspect_lambda_condition = recording
    _HOOKED = True


PRELUDE = '''
import functools
import icontract
import icontract as ic
from icontract import require as req, ensure as ens
from icontract import require as ñreq

P_LOG = []


def P(k, v):
    P_LOG.append(k)
    return v


def foreign_deco(func):
    @functools.wraps(func)
    def wrapper(*args, **kwargs):
        return func(*args, **kwargs)
    return wrapper


def foreign_with_args(*a, **k):
    return foreign_deco


class _Mat:
    def __matmul__(self, other):
        return "matmul"


MAT = _Mat()


class ErrA(Exception):
    pass


ERR_INSTANCES = {}


def err_instance(k):
    if k not in ERR_INSTANCES:
        ERR_INSTANCES[k] = ErrA("instance " + str(k))
    return ERR_INSTANCES[k]

'''


def error_kw(form: str, k: str, lam_params: List[str]) -> str:
    if form == "default":
        return ""
    if form == "class":
        return ", error=ErrA"
    if form == "instance":
        return ", error=err_instance({!r})".format(k)
    if form == "factory":
        return ", error=lambda {}: ErrA({!r})".format(", ".join(lam_params), "factory " + k)
    raise ValueError(form)


# layouts: functions (k, lam, expr, desc, errkw, fparams) -> (source, accessor expression, kind)
def _fn(body_deco: str, fparams: str, k: str, indent: str = "", is_async: bool = False, pre: str = "", post_blank: str = "") -> str:
    lines = []
    for ln in (pre + body_deco).rstrip("\n").split("\n"):
        lines.append(indent + ln if ln else ln)
    if post_blank:
        lines.extend(post_blank.split("\n"))
    lines.append("{}{}def f_{}({}):".format(indent, "async " if is_async else "", k, fparams))
    lines.append("{}    return None".format(indent))
    return "\n".join(lines) + "\n"


def layouts() -> List[Tuple[str, Any]]:
    L = []  # type: List[Tuple[str, Any]]

    def add(name):
        def deco(fn):
            L.append((name, fn))
            return fn
        return deco

    @add("one-line")
    def _(k, lam, e, d, ek, fp):
        return _fn("@icontract.require(lambda {}: {}, description={!r}{})".format(lam, e, d, ek), fp, k), "f_" + k

    @add("keyword-condition-first")
    def _(k, lam, e, d, ek, fp):
        return _fn("@icontract.require(condition=lambda {}: {}, description={!r}{})".format(lam, e, d, ek), fp, k), "f_" + k

    @add("keyword-condition-last")
    def _(k, lam, e, d, ek, fp):
        return _fn("@icontract.require(description={!r}{}, condition=lambda {}: {})".format(d, ek, lam, e), fp, k), "f_" + k

    @add("keyword-error-lambda-before-condition")
    def _(k, lam, e, d, ek, fp):
        ek2 = ", error=lambda: ErrA('factory')"
        return _fn("@icontract.require({}, description={!r}, condition=lambda {}: {})".format(ek2[2:], d, lam, e), fp, k), "f_" + k, "factory"

    @add("multi-line-parenthesised")
    def _(k, lam, e, d, ek, fp):
        return _fn("@icontract.require(\n    lambda {}: (\n        {}\n    ),\n    description={!r}{},\n)".format(lam, e, d, ek), fp, k), "f_" + k

    @add("multi-line-lambda-on-second-line")
    def _(k, lam, e, d, ek, fp):
        return _fn("@icontract.require(\n    lambda {}:\n    {},\n    description={!r}{})".format(lam, e, d, ek), fp, k), "f_" + k

    @add("description-first-multi-line")
    def _(k, lam, e, d, ek, fp):
        return _fn("@icontract.require(\n    description={!r},\n    condition=lambda {}: {}{})".format(d, lam, e, ek), fp, k), "f_" + k

    @add("trailing-comment")
    def _(k, lam, e, d, ek, fp):
        return _fn("@icontract.require(lambda {}: {}, description={!r}{})  # comment: def g(): @x class K:".format(lam, e, d, ek), fp, k), "f_" + k

    @add("interleaved-comments")
    def _(k, lam, e, d, ek, fp):
        return _fn("@icontract.require(\n    # def looks_like_a_def(): pass\n    lambda {}: {},  # class Foo: @deco\n    # @another\n    description={!r}{},\n)".format(
            lam, e, d, ek), fp, k), "f_" + k

    @add("between-foreign-decorators")
    def _(k, lam, e, d, ek, fp):
        return _fn("@foreign_deco\n@icontract.require(lambda {}: {}, description={!r}{})\n@foreign_with_args('x', y=lambda: 1)".format(lam, e, d, ek), fp, k), "f_" + k

    @add("blank-after-the-at-sign")
    def _(k, lam, e, d, ek, fp):
        return _fn("@ icontract.require(lambda {}: {}, description={!r}{})".format(lam, e, d, ek), fp, k), "f_" + k

    @add("neighbours-with-blank-and-parentheses-after-the-at-sign")
    def _(k, lam, e, d, ek, fp):
        return _fn("@ foreign_deco\n@icontract.require(lambda {}: {}, description={!r}{})\n@(foreign_deco)\n@  foreign_with_args('x')".format(lam, e, d, ek), fp, k), "f_" + k

    @add("tab-after-the-at-sign-multi-line")
    def _(k, lam, e, d, ek, fp):
        return _fn("@\ticontract.require(\n    lambda {}: {},\n    description={!r}{})\n@ foreign_deco".format(lam, e, d, ek), fp, k), "f_" + k

    @add("definition-keyword-followed-by-a-line-continuation")
    def _(k, lam, e, d, ek, fp):
        return ("@icontract.require(lambda {}: {}, description={!r}{})\ndef\\\n    f_{}({}):\n    return None\n".format(lam, e, d, ek, k, fp)), "f_" + k

    @add("stacked-with-error-lambdas-around")
    def _(k, lam, e, d, ek, fp):
        first = lam.split(",")[0].strip()
        return _fn("@icontract.require(lambda {a}: True, error=lambda {a}: ValueError('n1'))\n@icontract.require(lambda {lam}: {e}, description={d!r}{ek})\n"
                   "@icontract.ensure(lambda result: True, error=lambda result: ValueError('n2'))".format(a=first, lam=lam, e=e, d=d, ek=ek), fp, k), "f_" + k

    @add("stacked-same-condition-text-twice")
    def _(k, lam, e, d, ek, fp):
        return _fn("@icontract.require(lambda {lam}: ({e}) or True, description='other')\n@icontract.require(lambda {lam}: {e}, description={d!r}{ek})".format(
            lam=lam, e=e, d=d, ek=ek), fp, k), "f_" + k

    @add("backslash-continuation")
    def _(k, lam, e, d, ek, fp):
        return _fn("@icontract.require(lambda {}: \\\n    {}, \\\n    description={!r}{})".format(lam, e, d, ek), fp, k), "f_" + k

    @add("blank-line-and-comment-before-def")
    def _(k, lam, e, d, ek, fp):
        return _fn("@icontract.require(lambda {}: {}, description={!r}{})".format(lam, e, d, ek), fp, k, post_blank="\n# a comment between decorator and def\n"), "f_" + k

    @add("async-def")
    def _(k, lam, e, d, ek, fp):
        return _fn("@icontract.require(lambda {}: {}, description={!r}{})".format(lam, e, d, ek), fp, k, is_async=True), "f_" + k

    @add("aliased-module")
    def _(k, lam, e, d, ek, fp):
        return _fn("@ic.require(lambda {}: {}, description={!r}{})".format(lam, e, d, ek), fp, k), "f_" + k

    @add("aliased-name")
    def _(k, lam, e, d, ek, fp):
        return _fn("@req(lambda {}: {}, description={!r}{})".format(lam, e, d, ek), fp, k), "f_" + k

    @add("aliased-name-starting-with-a-non-ascii-letter")
    def _(k, lam, e, d, ek, fp):
        return _fn("@ñreq(lambda {}: {}, description={!r}{})".format(lam, e, d, ek), fp, k), "f_" + k

    @add("description-text-with-many-lines-like-decorators-before-the-condition")
    def _(k, lam, e, d, ek, fp):
        return _fn('@icontract.require(description="""{}\n@one\n@two\n@three\n@four\n@five\n""".splitlines()[0],\n    condition=lambda {}: {}{})'.format(
            d, lam, e, ek), fp, k), "f_" + k

    @add("ensure")
    def _(k, lam, e, d, ek, fp):
        return _fn("@icontract.ensure(lambda {}: {}, description={!r}{})".format(lam, e, d, ek), fp, k), "f_" + k

    @add("ensure-multi-line-with-snapshot-above")
    def _(k, lam, e, d, ek, fp):
        first = lam.split(",")[0].strip()
        return _fn("@icontract.snapshot(lambda {a}: {a}, name='old_first')\n@icontract.ensure(\n    lambda {lam}:\n        {e},\n    description={d!r}{ek})".format(
            a=first, lam=lam, e=e, d=d, ek=ek), fp, k), "f_" + k

    @add("method-in-class")
    def _(k, lam, e, d, ek, fp):
        src = "class C_{}:\n".format(k) + _fn("@icontract.require(lambda {}: {}, description={!r}{})".format(lam, e, d, ek), "self, " + fp, k, indent="    ")
        return src, "C_{}().f_{}".format(k, k)

    @add("method-in-class-indented-by-a-tab")
    def _(k, lam, e, d, ek, fp):
        src = "class C_{}:\n".format(k) + _fn("@icontract.require(lambda {}: {}, description={!r}{})".format(lam, e, d, ek), "self, " + fp, k, indent="\t")
        return src, "C_{}().f_{}".format(k, k)

    @add("method-in-class-indented-by-tabs-multi-line")
    def _(k, lam, e, d, ek, fp):
        src = "class C_{}:\n\tclass Inner:\n".format(k) + _fn(
            "@icontract.require(\n\tlambda {}: {},\n\tdescription={!r}{},\n)".format(lam, e, d, ek), "self, " + fp, k, indent="\t\t")
        return src, "C_{}.Inner().f_{}".format(k, k)

    @add("staticmethod-in-dbc-class-multi-line")
    def _(k, lam, e, d, ek, fp):
        src = "class C_{}(icontract.DBC):\n".format(k) + _fn(
            "@staticmethod\n@icontract.require(\n    lambda {}: {},\n    description={!r}{},\n)".format(lam, e, d, ek), fp, k, indent="    ")
        return src, "C_{}.f_{}".format(k, k)

    @add("nested-class-in-class")
    def _(k, lam, e, d, ek, fp):
        src = "class Outer_{}:\n    class Inner:\n".format(k) + _fn("@icontract.require(lambda {}: {}, description={!r}{})".format(lam, e, d, ek), "self, " + fp, k, indent="        ")
        return src, "Outer_{}.Inner().f_{}".format(k, k)

    @add("function-in-function")
    def _(k, lam, e, d, ek, fp):
        src = "def outer_{}():\n".format(k) + _fn("@icontract.require(\n    lambda {}: {},\n    description={!r}{})".format(lam, e, d, ek), fp, k, indent="    ")
        src += "    return f_{}\n".format(k)
        return src, "outer_{}()".format(k)

    @add("function-nested-seven-levels-deep")
    def _(k, lam, e, d, ek, fp):
        # (28 blanks in front of the decorator: no limit on the indentation may be built in)
        src = ("class VeryDeep_{}:\n    class Inner:\n        def make(self):\n            if True:\n                for _ in (0,):\n"
               "                    try:\n                        with open(__file__):\n").format(k)
        src += _fn("@icontract.require(\n    lambda {}: {},\n    description={!r}{})".format(lam, e, d, ek), fp, k, indent=" " * 28)
        src += " " * 28 + "return f_{}\n".format(k) + " " * 20 + "finally:\n" + " " * 24 + "pass\n"
        return src, "VeryDeep_{}.Inner().make()".format(k)

    @add("function-in-method-deep")
    def _(k, lam, e, d, ek, fp):
        src = "class Deep_{}:\n    def make(self):\n        if True:\n".format(k) + _fn(
            "@icontract.require(lambda {}: {}, description={!r}{})".format(lam, e, d, ek), fp, k, indent="            ")
        src += "            return f_{}\n".format(k)
        return src, "Deep_{}().make()".format(k)

    @add("two-decorators-one-line-style")
    def _(k, lam, e, d, ek, fp):
        return _fn("@icontract.require(lambda {}: {}, {!r}{})\n@icontract.require(lambda: True, 'always')".format(lam, e, d, ek), fp, k), "f_" + k

    @add("positional-description")
    def _(k, lam, e, d, ek, fp):
        return _fn("@icontract.require(lambda {}: {}, {!r}{})".format(lam, e, d, ek), fp, k), "f_" + k

    @add("multi-line-string-description")
    def _(k, lam, e, d, ek, fp):
        return _fn("@icontract.require(lambda {}: {},\n                   description=({!r}\n                                ''){})".format(lam, e, d, ek), fp, k), "f_" + k

    @add("decorator-after-comment-block-and-blank-lines")
    def _(k, lam, e, d, ek, fp):
        return _fn("@icontract.require(lambda {}: {}, description={!r}{})".format(lam, e, d, ek), fp, k, pre="# @icontract.require(lambda: False)\n\n"), "f_" + k

    # nested decorators some of whose physical lines are indented less than the `@` (legal inside parentheses and strings)
    def _nested(k, deco_lines, fp, in_class=True):
        if in_class:
            head = "class CU_{}:\n".format(k)
            tail = "    def f_{}(self, {}):\n        return None\n".format(k, fp)
            return head + "\n".join(deco_lines) + "\n" + tail, "CU_{}().f_{}".format(k, k)
        head = "def outer_u_{}():\n".format(k)
        tail = "    def f_{}({}):\n        return None\n    return f_{}\n".format(k, fp, k)
        return head + "\n".join(deco_lines) + "\n" + tail, "outer_u_{}()".format(k)

    @add("method-continuation-indented-less-than-decorator")
    def _(k, lam, e, d, ek, fp):
        return _nested(k, ["    @icontract.require(lambda {}:".format(lam), "  {}, description={!r}{})".format(e, d, ek)], fp)

    @add("method-comment-at-column-0-inside-decorator")
    def _(k, lam, e, d, ek, fp):
        return _nested(k, ["    @icontract.require(", "        lambda {}: {},".format(lam, e), "# a comment at column 0", "        description={!r}{})".format(d, ek)], fp)

    @add("method-triple-quoted-description-continued-at-column-0")
    def _(k, lam, e, d, ek, fp):
        return _nested(k, ["    @icontract.require(", "        lambda {}: {},".format(lam, e), '        description="""{}'.format(d),
                           'continued at column 0""".splitlines()[0]{})'.format(ek)], fp)

    @add("function-in-function-closing-parenthesis-at-column-0")
    def _(k, lam, e, d, ek, fp):
        return _nested(k, ["    @icontract.require(", "        lambda {}: {}, description={!r}{}".format(lam, e, d, ek), ")"], fp, in_class=False)

    # physical lines inside the decorator that LOOK like the start of another decorator or of the definition
    @add("continuation-line-starting-with-the-matmul-operator")
    def _(k, lam, e, d, ek, fp):
        return _fn("@icontract.require(lambda {}: {}, description=str(MAT\n    @MAT) and {!r}{})".format(lam, e, d, ek), fp, k), "f_" + k

    @add("description-text-with-lines-like-def-class-and-decorator")
    def _(k, lam, e, d, ek, fp):
        return _fn('@icontract.require(lambda {}: {}, description="""{}\ndef looks_like_a_definition(): pass\nclass OrAClass:\n@or_a_decorator\n""".splitlines()[0]{})'.format(
            lam, e, d, ek), fp, k), "f_" + k

    @add("method-continuation-line-starting-with-the-matmul-operator")
    def _(k, lam, e, d, ek, fp):
        return _nested(k, ["    @icontract.require(lambda {}: {}, description=str(MAT".format(lam, e), "        @MAT) and {!r}{})".format(d, ek)], fp)

    @add("invariant-on-class")
    def _(k, lam, e, d, ek, fp):
        return None  # handled separately (different parameters)

    return [x for x in L if x[0] != "invariant-on-class"]


def wrap_probes(rng, expr: str, max_probes: int = 4) -> Tuple[str, int]:
    """Wrap random (non-scope, Load) sub-expressions of the expression into counting probes P(k, e)."""
    tree = ast.parse(expr, mode="eval")
    cands = []
    scope_depth = {}

    def walk(node, scoped):
        if isinstance(node, ast.expr) and not scoped and not isinstance(node, (ast.Constant, ast.Starred, ast.GeneratorExp, ast.Slice)) \
                and not isinstance(getattr(node, "ctx", None), (ast.Store, ast.Del)):
            cands.append(node)
        child_scoped = scoped or isinstance(node, exprs.SCOPE_TYPES) or isinstance(node, ast.JoinedStr)
        for ch in ast.iter_child_nodes(node):
            if isinstance(node, ast.NamedExpr) and ch is node.target:
                continue
            if isinstance(node, ast.keyword):
                pass
            walk(ch, child_scoped)

    walk(tree.body, False)
    if not cands:
        return expr, 0
    chosen = rng.sample(cands, min(len(cands), rng.randint(1, max_probes)))
    ids = {id(n): i for i, n in enumerate(chosen)}

    class T(ast.NodeTransformer):
        def generic_visit(self, node):  # type: ignore
            node = super().generic_visit(node)
            if id(node) in ids:
                return ast.Call(func=ast.Name(id="P", ctx=ast.Load()), args=[ast.Constant(ids[id(node)]), node], keywords=[])
            return node

    # ids refer to the original nodes; NodeTransformer visits the same objects
    new = T().visit(tree)
    ast.fix_missing_locations(new)
    return ast.unparse(new.body), len(chosen)


def judge(w, mod: Any, item: Dict[str, Any], twin: exprs.Twin, kwargs: Dict[str, Any], accessor: str, path: str) -> None:
    import icontract  # pylint: disable=import-outside-toplevel
    import inspect  # pylint: disable=import-outside-toplevel
    from vkit import probe  # pylint: disable=import-outside-toplevel

    k = item["k"]
    form = item["form"]
    # probes CPython evaluates (ground truth run of the same expression)
    del mod.P_LOG[:]
    tw_kwargs = {n: kwargs[n] for n in item["lam_params"]}
    tw_kwargs["c1"] = item.get("c1", 0)
    twin.evaluate(vars(mod), tw_kwargs)
    cpython_probes = list(mod.P_LOG)
    del mod.P_LOG[:]
    del c06.CAPTURED[:]
    del CAPTURED_TEXT[:]
    target = eval(accessor, vars(mod))  # pylint: disable=eval-used
    exc = None
    try:
        res = target(**kwargs)
        if inspect.iscoroutine(res):
            res = probe.drive(res)
    except BaseException as err:  # pylint: disable=broad-except
        exc = err
    all_probes = list(mod.P_LOG)
    w.count("violating_calls")
    w.case((item["expr"], item["layout"], form))
    case = {"expr": item["expr"], "layout": item["layout"], "form": form, "values": {n: repr(v) for n, v in kwargs.items()},
            "source": item["source"], "accessor": accessor, "lam_params": item["lam_params"], "params": item["params"]}
    detail = {"exception": "{}: {}".format(type(exc).__name__, str(exc)[:500]), "probes_cpython": cpython_probes, "probes_total": all_probes}
    # (1) exception class
    want_type = {"default": icontract.ViolationError, "class": mod.ErrA, "instance": mod.ErrA, "factory": mod.ErrA}[form]
    if exc is None:
        w.violation("C07/violation-not-raised", "condition {!r} is falsy for {} but nothing was raised".format(item["expr"], case["values"]), case, detail)
        return
    if type(exc) is not want_type:
        key = "C07/violation-replaced-by-other-exception"
        root = exc.__cause__ if isinstance(exc, RuntimeError) and exc.__cause__ is not None else exc
        if isinstance(root, TypeError) and "__bool__ should return bool" in str(root) and "all(" in item["expr"]:
            key = "C07/all-quantifier-truth-test-returns-non-bool"
        elif isinstance(exc, RuntimeError) and "Failed to recompute" in str(exc):
            key = classify_recompute_failure(item["expr"], exc)
        elif isinstance(exc, IndentationError):
            key = "C07/decorator-line-indented-less-than-at-sign"
        elif isinstance(exc, SyntaxError) and ("matmul" in item["layout"] or "lines-like-def" in item["layout"]):
            key = "C07/decorator-cut-at-look-alike-line"
        elif form in ("default", "class") and (isinstance(exc, SyntaxError) or (
                isinstance(exc, (ValueError, AssertionError)) and ("decorator" in str(exc) or "lambda" in str(exc)))):
            key = "C07/decorator-source-not-recovered/" + item["layout"]
        w.violation(key, "layout {}: expected {} but got {}: {}".format(item["layout"], want_type.__name__, type(exc).__name__, str(exc)[:300]), case, detail)
        return
    if form == "instance" and exc is not mod.ERR_INSTANCES.get(k):
        w.violation("C07/wrong-instance", "another error instance was raised", case, detail)
    # (2) evaluation during message building stays within what CPython evaluated
    extra = all_probes[len(cpython_probes):]
    w.count("probe_subsets_checked")
    if all_probes[: len(cpython_probes)] != cpython_probes:
        w.violation("C07/first-evaluation-differs-from-cpython", "the wrapper's evaluation ran probes {} but Python runs {}".format(all_probes, cpython_probes), case, detail)
    elif not set(extra) <= set(cpython_probes):
        w.violation("C07/message-building-evaluates-skipped-subexpression",
                    "while building the message probes {} ran although Python's short-circuit evaluation skipped them (Python ran {})".format(
                        sorted(set(extra) - set(cpython_probes)), cpython_probes), case, detail)
    if form in ("instance", "factory") and extra:
        w.violation("C07/condition-re-evaluated-although-no-message-needed", "probes {} ran again".format(extra), case, detail)
    n_nodes_probed = item.get("n_probes", 0)
    if n_nodes_probed and len(set(cpython_probes)) < n_nodes_probed:
        w.count("guarded_conditions_with_skipped_operands")
    if form not in ("default", "class"):
        return
    # (3) message: location, description, condition text
    msg = str(exc) if form == "default" else (exc.args[0] if exc.args else "")
    lines = msg.split("\n")
    m = re.match(r"^File (.*), line (\d+) in (.*):$", lines[0]) if lines else None
    lo, hi = item["deco_lines"]
    if not m:
        w.violation("C07/message-without-location", "first line of the message is {!r}".format(lines[0] if lines else ""), case, detail)
    else:
        if m.group(1) != path:
            w.violation("C07/location-names-other-file", "{} instead of {}".format(m.group(1), path), case, detail)
        if not lo <= int(m.group(2)) <= hi:
            w.violation("C07/location-line-outside-decorator", "line {} but the decorator spans {}-{}".format(m.group(2), lo, hi), case, detail)
    rest = "\n".join(lines[1:])
    desc = "D:{}: ".format(k)
    if not rest.startswith(desc):
        w.violation("C07/description-missing", "message after the location starts with {!r}".format(rest[:60]), case, detail)
        return
    text = CAPTURED_TEXT[-1] if CAPTURED_TEXT else None
    w.count("messages_with_text_checked")
    if text is None or not rest[len(desc):].startswith(text):
        w.violation("C07/condition-text-not-in-message", "message {!r} does not carry the recovered condition text {!r}".format(rest[:120], text), case, detail)
        return
    try:
        got_dump = ast.dump(ast.parse(text.strip(), mode="eval"))
        # the text of a multi-line condition may be a dedented slice: parse it inside parentheses
    except SyntaxError:
        try:
            got_dump = ast.dump(ast.parse("(" + text + ")", mode="eval"))
        except SyntaxError:
            got_dump = None
    want_dump = ast.dump(ast.parse(item["expr"], mode="eval"))
    if got_dump != want_dump:
        w.violation("C07/condition-text-is-not-the-condition/" + item["layout"], "message carries {!r} but the violated condition is {!r}".format(
            text[:160], item["expr"][:160]), case, detail)
    if w.counters["violating_calls"] % 173 == 1:
        w.sample({"layout": item["layout"], "form": form, "expr": item["expr"], "message_head": msg[:200]})


def classify_recompute_failure(expr: str, exc: BaseException) -> str:
    tree = ast.parse(expr, mode="eval")
    cause = exc.__cause__
    in_call = {id(a) for n in ast.walk(tree) if isinstance(n, ast.Call) for a in n.args if isinstance(a, ast.Starred)}
    starred = [n for n in ast.walk(tree) if isinstance(n, ast.Starred)]
    unpack_dict = any(isinstance(n, ast.Dict) and any(k is None for k in n.keys) for n in ast.walk(tree))
    if isinstance(cause, AttributeError) and "items" in str(cause) and any(
            isinstance(n, ast.Call) and any(kw.arg is None for kw in n.keywords) for n in ast.walk(tree)):
        # mechanism: ``f(**m)`` re-computed through m.items(), which the call protocol of Python does not ask for (keys + item access)
        return "C07/double-star-argument-needs-more-than-the-mapping-protocol-of-calls"
    if isinstance(cause, ValueError) and any(isinstance(n, ast.FormattedValue) and n.format_spec is not None and
                                             any(isinstance(v, ast.FormattedValue) for v in n.format_spec.values) for n in ast.walk(tree)):
        # mechanism: a computed format specification pasted into a format string (a brace in it is taken for a replacement field)
        return "C07/computed-format-specification-re-parsed-as-a-format-string"
    if isinstance(cause, (NotImplementedError, AssertionError)) and (unpack_dict or any(id(n) not in in_call for n in starred)):
        return "C07/unpacking-in-display-unhandled"
    if starred and isinstance(cause, NotImplementedError):
        return "C07/starred-call-argument-unhandled"
    # a guarded operand inside the element / filter of a comprehension
    for comp in ast.walk(tree):
        if isinstance(comp, (ast.GeneratorExp, ast.ListComp, ast.SetComp, ast.DictComp)):
            inner = [n for n in ast.walk(comp) if isinstance(n, ast.BoolOp) or (isinstance(n, ast.Compare) and len(n.ops) > 1)]
            if inner and isinstance(cause, (IndexError, KeyError, ZeroDivisionError, TypeError, AttributeError, ValueError)):
                return "C07/speculative-evaluation-after-placeholder-operand"
    has_guard = any(isinstance(n, ast.BoolOp) or (isinstance(n, ast.Compare) and len(n.ops) > 1) for n in ast.walk(tree))
    if has_guard and isinstance(cause, (IndexError, KeyError, ZeroDivisionError, TypeError, AttributeError, ValueError)):
        return "C07/eager-boolop-and-compare-chain"
    return "C07/message-building-failed"


def build_items(w, n: int, batch_no: int, all_layouts) -> Tuple[str, List[Dict[str, Any]]]:
    rng = w.rng
    src_parts = [PRELUDE, exprs.SUPPORT, "\n"]
    items = []
    line = sum(p.count("\n") for p in src_parts) + 1
    for i in range(n):
        env = exprs.Env(rng, {}, with_none=rng.random() < 0.4)
        g = exprs.Gen(rng, env, max_depth=rng.choice((2, 3)), guarded_bias=0.7)
        try:
            base = g.condition()
            ast.parse(base, mode="eval")
        except (SyntaxError, RecursionError):
            continue
        base = base.replace("c1", "G_INT")  # layouts are module-level: no closure variable
        expr, n_probes = wrap_probes(rng, base)
        params = env.params()
        lam_params = c06.used_params(expr, params)
        if not lam_params:
            continue
        name, fn = rng.choice(all_layouts) if i >= len(all_layouts) else all_layouts[i % len(all_layouts)]
        form = rng.choice(("default", "default", "class", "instance", "factory"))
        k = "{}_{}".format(batch_no, i)
        out = fn(k, ", ".join(lam_params), expr, "D:" + k, error_kw(form, k, lam_params), ", ".join(params))
        if out is None:
            continue
        source, accessor = out[0], out[1]
        if len(out) > 2:
            form = out[2]
        start = line
        n_lines = source.count("\n")
        # the decorator under test spans from its first line to the def line
        deco_lo = start
        deco_hi = start + n_lines
        src_parts.append(source + "\n")
        line += n_lines + 1
        items.append({"k": k, "expr": expr, "base": base, "params": params, "lam_params": lam_params, "layout": name, "form": form, "env": env,
                      "source": source, "accessor": accessor, "deco_lines": (deco_lo, deco_hi), "n_probes": n_probes})
    return "".join(src_parts), items


def run_batch(w, batch_no: int, n: int, all_layouts) -> None:
    rng = w.rng
    source, items = build_items(w, n, batch_no, all_layouts)
    try:
        loaded = prog.load_source(source, w.scratch())
    except BaseException as err:  # pylint: disable=broad-except
        w.mark_inconclusive("rendered layout module does not import: {!r}".format(err))
        return
    mod = loaded.module
    try:
        for it in items:
            env = it["env"]
            try:
                twin = exprs.Twin(it["expr"], it["lam_params"], ["c1"])
            except Exception as err:  # pylint: disable=broad-except
                w.mark_inconclusive("twin construction failed for {!r}: {!r}".format(it["expr"], err))
                continue
            found = None
            for _ in range(60):
                vals = c06.materialise(mod, env.values(rng))
                tw = {n: vals[n] for n in it["lam_params"]}
                tw["c1"] = 0
                raised, value = twin.evaluate(vars(mod), tw)
                if raised:
                    continue
                try:
                    if not value:
                        found = vals
                        break
                except Exception:  # pylint: disable=broad-except
                    continue
            if found is None:
                w.count("conditions_never_falsy")
                continue
            w.count("layout_cases")
            w.distinct("layouts", it["layout"])
            judge(w, mod, it, twin, found, it["accessor"], loaded.path)
    finally:
        loaded.unload()


INVARIANT_LAYOUTS = [
    "@icontract.invariant(lambda self: {e}, description={d!r}{ek})\nclass K_{k}{base}:\n    def __init__(self, v):\n        self.v = v\n        self.items = []\n",
    "@icontract.invariant(\n    lambda self:\n        {e},\n    description={d!r}{ek},\n)\nclass K_{k}{base}:\n    def __init__(self, v):\n        self.v = v\n        self.items = []\n",
    "@icontract.invariant(description={d!r}{ek}, condition=lambda self: {e})  # class X: def y():\n@foreign_class_deco\nclass K_{k}{base}:\n    def __init__(self, v):\n"
    "        self.v = v\n        self.items = []\n",
]


def run_invariant_layouts(w) -> None:
    import icontract  # pylint: disable=import-outside-toplevel

    conds = ["self.v > 0", "self.items and self.items[0] > 0", "self.v != 0 and 10 // self.v > 20", "0 < self.v < 10 // self.v",
             "len(self.items) > 0 and self.items[0] > self.v"]
    src = [PRELUDE, "def foreign_class_deco(cls):\n    return cls\n\n"]
    items = []
    line = sum(p.count("\n") for p in src) + 1
    n = 0
    for li, layout in enumerate(INVARIANT_LAYOUTS):
        for e in conds:
            for form in ("default", "class", "instance"):
                for base in ("", "(icontract.DBC)"):
                    n += 1
                    k = "i{}".format(n)
                    ek = {"default": "", "class": ", error=ErrA", "instance": ", error=err_instance({!r})".format(k)}[form]
                    text = layout.format(e=e, d="D:" + k, ek=ek, k=k, base=base)
                    items.append({"k": k, "expr": e, "form": form, "layout": "invariant-{}".format(li), "lines": (line, line + text.count("\n")), "source": text})
                    src.append(text + "\n")
                    line += text.count("\n") + 1
    loaded = prog.load_source("".join(src), w.scratch())
    mod = loaded.module
    try:
        for it in items:
            del CAPTURED_TEXT[:]
            exc = None
            try:
                getattr(mod, "K_" + it["k"])(0)
            except BaseException as err:  # pylint: disable=broad-except
                exc = err
            w.count("layout_cases")
            w.count("violating_calls")
            w.case((it["expr"], it["layout"], it["form"]))
            case = {"invariant": it["expr"], "layout": it["layout"], "form": it["form"], "source": it["source"]}
            want = icontract.ViolationError if it["form"] == "default" else mod.ErrA
            if type(exc) is not want:
                key = "C07/violation-replaced-by-other-exception"
                if isinstance(exc, RuntimeError) and "Failed to recompute" in str(exc):
                    key = classify_recompute_failure(it["expr"], exc)
                w.violation(key, "invariant {!r} ({}, {}): expected {} got {}: {}".format(
                    it["expr"], it["layout"], it["form"], want.__name__, type(exc).__name__, str(exc)[:200]), case)
                continue
            if it["form"] == "instance":
                continue
            msg = str(exc) if it["form"] == "default" else exc.args[0]
            lines = msg.split("\n")
            m = re.match(r"^File (.*), line (\d+) in (.*):$", lines[0])
            if not m or not it["lines"][0] <= int(m.group(2)) <= it["lines"][1]:
                w.violation("C07/location-line-outside-decorator", "invariant message starts with {!r}, decorator spans {}".format(lines[0], it["lines"]), case)
            text = CAPTURED_TEXT[-1] if CAPTURED_TEXT else ""
            try:
                ok = ast.dump(ast.parse(text.strip(), mode="eval")) == ast.dump(ast.parse(it["expr"], mode="eval"))
            except SyntaxError:
                ok = False
            if not ok or ("D:{}: ".format(it["k"]) + text) not in msg:
                w.violation("C07/condition-text-is-not-the-condition/" + it["layout"], "invariant message {!r} vs condition {!r}".format(msg[:200], it["expr"]), case)
    finally:
        loaded.unload()


def run_generic(w, batch_no: int, n_items: int) -> None:
    """The full C06 grammar (depth 4, closures, shadowed builtins, None): every falsifying input must give ViolationError."""
    import icontract  # pylint: disable=import-outside-toplevel

    rng = w.rng
    items = []
    for i in range(n_items):
        shadow = rng.choice(exprs.SHADOW_SETS) if rng.random() < 0.3 else {}
        env = exprs.Env(rng, shadow, with_none=rng.random() < 0.3)
        g = exprs.Gen(rng, env, max_depth=rng.choice((3, 4)), guarded_bias=0.3)
        try:
            expr = g.condition()
            ast.parse(expr, mode="eval")
        except (SyntaxError, RecursionError):
            continue
        params = env.params()
        lam = c06.used_params(expr, params)
        items.append({"k": "g{}_{}".format(batch_no, i), "expr": expr, "params": params, "lam_params": lam, "role": "pre", "c1": env.closure["c1"],
                      "env": env, "shadow": shadow})
    loaded = prog.load_source(c06.render_batch(items), w.scratch())
    mod = loaded.module
    try:
        for it in items:
            try:
                twin = exprs.Twin(it["expr"], it["lam_params"], ["c1"])
            except Exception:  # pylint: disable=broad-except
                continue
            for _ in range(3):
                found = None
                for _try in range(40):
                    vals = c06.materialise(mod, it["env"].values(rng))
                    tw = {n: vals[n] for n in it["lam_params"]}
                    tw["c1"] = it["c1"]
                    raised, value = twin.evaluate(vars(mod), tw)
                    if raised:
                        continue
                    try:
                        if not value:
                            found = vals
                            break
                    except Exception:  # pylint: disable=broad-except
                        continue
                if found is None:
                    break
                exc = None
                try:
                    getattr(mod, "F_" + it["k"])(**found)
                except BaseException as err:  # pylint: disable=broad-except
                    exc = err
                w.count("violating_calls")
                w.count("generic_grammar_calls")
                w.case((it["expr"], "generic", repr(sorted((k, repr(v)) for k, v in found.items()))))
                if type(exc) is not icontract.ViolationError:
                    key = "C07/violation-replaced-by-other-exception"
                    if isinstance(exc, RuntimeError) and "Failed to recompute" in str(exc):
                        key = classify_recompute_failure(it["expr"], exc)
                    w.violation(key, "condition {!r} with {}: expected ViolationError, got {}: {} (cause {!r})".format(
                        it["expr"], {k: repr(v) for k, v in found.items()}, type(exc).__name__, str(exc)[:200], getattr(exc, "__cause__", None)),
                        {"generic_expr": it["expr"], "values": {k: repr(v) for k, v in found.items()}, "params": it["params"], "c1": it["c1"],
                         "shadow": it["shadow"]})
    finally:
        loaded.unload()


PRIVATE_SOURCE = '''
import icontract

__module_private = 99  # a decoy: inside the class body Python reads _Account__module_private


class ErrP(Exception):
    pass


class Account:
    def __init__(self):
        self.__balance = 1
        self.__items = [1, 2]
        self.plain = 5

    @icontract.require(lambda self, a: self.__balance > a, description="D:attr"{ek})
    def attr(self, a):
        return a

    @icontract.require(lambda self, a: all(x > a for x in self.__items), description="D:in-iterable"{ek})
    def in_iterable(self, a):
        return a

    @icontract.require(lambda self, a: all(x + self.__balance > a for x in [1, 2]), description="D:in-comprehension"{ek})
    def in_comprehension(self, a):
        return a

    @icontract.require(lambda self, a: self.plain > a and self.__balance > a, description="D:guarded"{ek})
    def guarded(self, a):
        return a

    @icontract.ensure(lambda self, result: result > self.__balance, description="D:post"{ek})
    def post(self, a):
        return a

    @icontract.require(lambda a: a > __module_private, description="D:global"{ek})
    def global_name(self, a):
        return a

    class Inner:
        def __init__(self):
            self.__depth = 2

        @icontract.require(lambda self, a: self.__depth > a, description="D:nested-class"{ek})
        def nested(self, a):
            return a


class My__Box:
    """A class name that contains a double underscore itself."""

    def __init__(self):
        self.__limit = 1

    @icontract.require(lambda self, a: self.__limit > a, description="D:dunder-in-class-name"{ek})
    def put(self, a):
        return a

    @icontract.require(lambda self, a: all(x + self.__limit > a for x in [0, 1]), description="D:dunder-in-class-name-genexp"{ek})
    def put_all(self, a):
        return a


class Multi:
    def __init__(self):
        self.__a = 1
        self.__b__c = 1

    @icontract.require(lambda self, a: self.__a > a and self.__b__c > a, description="D:two-private-names"{ek})
    def both(self, a):
        return a


class Nested:
    """Two private names, one of which ends like the other (``__c`` and ``__b__c``): one prefix mangles them all."""

    def __init__(self):
        self.__c = 1
        self.__b__c = 1

    @icontract.require(lambda self, a: self.__c > a and self.__b__c > a, description="D:private-name-ending-like-another"{ek})
    def both(self, a):
        return a

    @icontract.require(lambda self, a: self.__c > a, description="D:private-name-alone-next-to-a-longer-attribute"{ek})
    def one(self, a):
        return a


class _Hidden:
    def __init__(self):
        self.__v = 1

    @icontract.require(lambda self, a: self.__v > a, description="D:underscored-class"{ek})
    def underscored(self, a):
        return a
'''

def run_private_names(w) -> None:
    """Conditions written in a class body that use private (name-mangled) attributes and names."""
    import icontract  # pylint: disable=import-outside-toplevel

    for form, ek in (("default", ""), ("class", ", error=ErrP")):
        src = PRIVATE_SOURCE.replace("{ek}", ek) + "\n_Account__module_private = 3\n"
        loaded = prog.load_source(src, w.scratch())
        mod = loaded.module
        try:
            targets = [("attr", mod.Account().attr), ("in-iterable", mod.Account().in_iterable), ("in-comprehension", mod.Account().in_comprehension),
                       ("guarded", mod.Account().guarded), ("post", mod.Account().post), ("global", mod.Account().global_name),
                       ("nested-class", mod.Account.Inner().nested), ("underscored-class", mod._Hidden().underscored),  # pylint: disable=protected-access
                       ("dunder-in-class-name", mod.My__Box().put), ("dunder-in-class-name-genexp", mod.My__Box().put_all),
                       ("two-private-names", mod.Multi().both), ("private-name-ending-like-another", mod.Nested().both),
                       ("private-name-alone-next-to-a-longer-attribute", mod.Nested().one)]
            for tag, fn in targets:
                for arg in (4, 0):
                    w.count("violating_calls")
                    w.count("private_name_conditions")
                    w.case(("private-name", tag, form, arg))
                    case = {"private_name": tag, "form": form, "arg": arg}
                    try:
                        fn(arg)
                        exc = None
                    except BaseException as err:  # pylint: disable=broad-except
                        exc = err
                    want = icontract.ViolationError if form == "default" else mod.ErrP
                    violated = (arg == 4) if tag not in ("post", "global") else (arg == 0)
                    if not violated:
                        if exc is not None:
                            w.violation("C07/private-name-condition-fails-although-satisfied", "{}({}) raised {!r}".format(tag, arg, exc), case)
                        continue
                    if type(exc) is not want:
                        w.violation("C07/private-name-not-mangled-during-message-building",
                                    "condition {} uses a private name inside a class body; expected {} but got {}: {}".format(
                                        tag, want.__name__, type(exc).__name__, str(exc)[:200]), case)
                    elif "D:{}: ".format(tag) not in (str(exc) if form == "default" else str(exc.args[0])):
                        w.violation("C07/description-missing", "message of {} lacks its description".format(tag), case)
                    elif tag == "global" and "__module_private was 99" in str(exc):
                        w.violation("C07/private-name-not-mangled-during-message-building",
                                    "the message shows the value of the un-mangled global (99), Python evaluated _Account__module_private (3)", case)
        finally:
            loaded.unload()


STRING_LITERAL_SOURCE = '''
import icontract


class ErrS(Exception):
    pass


@icontract.require(lambda s: s == """top
    level""", description="D:top"{ek})
def top(s):
    return s


class Holder:
    @icontract.require(lambda s: s == """first
        second
    third""", description="D:method"{ek})
    def method(self, s):
        return s

    class Inner:
        @icontract.require(lambda s: len(s) > len("""x
                y"""), description="D:inner"{ek})
        def method(self, s):
            return s


def factory():
    @icontract.ensure(lambda result: result != \'\'\'p
        q\'\'\', description="D:closure"{ek})
    def made(s):
        return s
    return made
'''


def run_string_literals(w) -> None:
    """Multi-line string literals inside the condition of an indented decorator: the reported text is the expression evaluated."""
    import icontract  # pylint: disable=import-outside-toplevel

    for form, ek in (("default", ""), ("class", ", error=ErrS")):
        loaded = prog.load_source(STRING_LITERAL_SOURCE.replace("{ek}", ek), w.scratch())
        mod = loaded.module
        try:
            for tag, fn, arg, want_const in (("top", mod.top, "zz", "top\n    level"), ("method", mod.Holder().method, "zz", "first\n        second\n    third"),
                                            ("inner", mod.Holder.Inner().method, "", "x\n                y"), ("closure", mod.factory(), "p\n        q", "p\n        q")):
                w.count("violating_calls")
                w.count("string_literal_conditions")
                w.case(("string-literal", tag, form))
                case = {"string_literal": tag, "form": form}
                try:
                    fn(arg)
                    exc = None
                except BaseException as err:  # pylint: disable=broad-except
                    exc = err
                want = icontract.ViolationError if form == "default" else mod.ErrS
                if type(exc) is not want:
                    w.violation("C07/violation-replaced-by-other-exception", "string literal scenario {}: expected {} got {!r}".format(tag, want.__name__, exc), case)
                    continue
                msg = str(exc) if form == "default" else str(exc.args[0])
                body = msg.split("D:{}: ".format(tag), 1)[-1]
                # the condition text runs up to a ':' that is followed by the value entries (on the same line or on the next ones)
                consts = None
                for pos in [k for k, ch in enumerate(body) if ch == ":"]:
                    try:
                        tree = ast.parse("(" + body[:pos] + ")", mode="eval")
                    except SyntaxError:
                        continue
                    consts = [n.value for n in ast.walk(tree) if isinstance(n, ast.Constant) and isinstance(n.value, str)]
                    break
                if consts is None or want_const not in consts:
                    w.violation("C07/string-literal-of-the-condition-altered-in-the-message", "scenario {}: the reported condition text does not "
                                "parse to the expression that was evaluated: its string constants are {!r}, the source has {!r}".format(
                                    tag, consts, want_const), case, {"message": msg})
        finally:
            loaded.unload()


CORNER_SOURCE = '''
import icontract

OUT = {}


def attempt(tag, thunk):
    try:
        thunk()
        OUT[tag] = ("returned", None)
    except BaseException as err:
        OUT[tag] = ("raised", err)


def make_with_unbound_closure_variable():
    """The condition names a variable of the enclosing function which is not bound yet; Python never reads it for this call."""

    @icontract.require(lambda x: x > 0 and helper(x))
    def f(x):
        return x

    attempt("unbound-closure-variable-not-evaluated", lambda: f(-1))
    helper = bool
    attempt("closure-variable-bound-later", lambda: f(-2))
    return helper


class Agreeable:
    """A callable which compares equal to everything (mock objects and symbolic expressions do)."""

    def __eq__(self, other):
        return True

    def __hash__(self):
        return 1

    def __call__(self, items):
        return len(list(items)) > 3


agreeable = Agreeable()


@icontract.require(lambda xs: agreeable(x > 0 for x in xs))
def g(xs):
    return xs


import functools


def between(x, low, high):
    return low <= x <= high


@icontract.require(functools.partial(between, low=0, high=10))
def with_partial(x):
    return x


class InRange:
    def __init__(self, low, high):
        self.low, self.high = low, high

    def __call__(self, x):
        return self.low <= x <= self.high


@icontract.require(InRange(0, 10))
@icontract.ensure(InRange(0, 10), error=lambda x: KeyError(x))
def with_callable_object(x):
    return x


@icontract.require(lambda value, *, min=0, max=10: min <= value <= max)
def clamped(value):
    return value


lo = "left over from a loop at module level"


@icontract.require(lambda x, *, lo=3: lo is not None and x >= lo)
@icontract.ensure(lambda result, *, len=4: result < len, error=lambda result: KeyError(result))
def above(x):
    return x


@icontract.require(lambda read_assigned, assigned, dict: [(w := x) for x in read_assigned] and w + assigned + dict < 0)
def named_like_helpers(read_assigned, assigned, dict):
    return read_assigned


make_with_unbound_closure_variable()
attempt("arguments-named-like-the-helpers-of-the-recomputation", lambda: named_like_helpers([1, 2], 3, 4))
attempt("keyword-only-defaults-named-like-builtins", lambda: clamped(50))
attempt("keyword-only-default-named-like-a-global", lambda: above(1))
attempt("callee-equal-to-everything-over-a-generator", lambda: g([1, 2]))
attempt("condition-given-as-a-partial", lambda: with_partial(50))
attempt("condition-given-as-a-callable-object", lambda: with_callable_object(50))
attempt("satisfied-partial-and-callable-object", lambda: (with_partial(5), with_callable_object(5)))
'''

CORNER_TEXTS = {"arguments-named-like-the-helpers-of-the-recomputation": "[(w := x) for x in read_assigned] and w + assigned + dict < 0",
                "keyword-only-defaults-named-like-builtins": "min <= value <= max", "keyword-only-default-named-like-a-global": "lo is not None and x >= lo",
                "unbound-closure-variable-not-evaluated": "x > 0 and helper(x)", "closure-variable-bound-later": "x > 0 and helper(x)",
                "callee-equal-to-everything-over-a-generator": "agreeable(x > 0 for x in xs)",
                # (a condition which is no function has no source text of its own: only the kind of the error is demanded)
                "condition-given-as-a-partial": "", "condition-given-as-a-callable-object": "", "satisfied-partial-and-callable-object": None}


def run_corner_conditions(w) -> None:
    """Falsy conditions which Python evaluates without any trouble: the caller gets the ViolationError with the condition text, also
    when the enclosing scope has a variable that is not bound yet, or when the callee compares equal to the builtin all."""
    import icontract  # pylint: disable=import-outside-toplevel

    loaded = prog.load_source(CORNER_SOURCE, w.scratch())
    try:
        for tag, (outcome, err) in sorted(loaded.module.OUT.items()):
            w.count("violating_calls")
            w.count("corner_conditions")
            w.case(("corner-condition", tag))
            text = CORNER_TEXTS[tag]
            if text is None:
                if outcome != "returned":
                    w.violation("C07/violation-not-surfaced/" + tag, "satisfied conditions gave {} {!r}".format(outcome, err), {"corner_condition": tag})
                continue
            if outcome != "raised" or not isinstance(err, icontract.ViolationError) or text not in str(err):
                w.violation("C07/violation-not-surfaced/" + tag, "the falsy condition `{}` gave {} {}: {!r}".format(
                    text, outcome, type(err).__name__, str(err)[:300]), {"corner_condition": tag})
    finally:
        loaded.unload()


def run(w) -> None:
    install_hook()
    if w.shard == 3 % w.nshards:
        run_corner_conditions(w)
    all_layouts = layouts()
    n_batches = 3000 if w.tier == "thorough" else 160
    for b in range(n_batches):
        if b % w.nshards != w.shard:
            continue
        run_batch(w, b, 40, all_layouts)
        run_generic(w, b, 40)
    if w.shard == 0:
        run_invariant_layouts(w)
    if w.shard == 1 % w.nshards:
        run_private_names(w)
    if w.shard == 2 % w.nshards:
        run_string_literals(w)
    w.exhaustive = False


def replay(case, w) -> None:
    install_hook()
    if "private_name" in case:
        run_private_names(w)
        return
    if "corner_condition" in case:
        run_corner_conditions(w)
        return
    if "string_literal" in case:
        run_string_literals(w)
        return
    if "invariant" in case:
        run_invariant_layouts(w)
        return
    if "generic_expr" in case:
        import icontract  # pylint: disable=import-outside-toplevel
        env = exprs.Env(w.rng, case.get("shadow", {}))
        lam = c06.used_params(case["generic_expr"], case["params"])
        it = {"k": "g_r", "expr": case["generic_expr"], "params": case["params"], "lam_params": lam, "role": "pre", "c1": case.get("c1", 0)}
        loaded = prog.load_source(c06.render_batch([it]), w.scratch())
        try:
            ns = dict(vars(loaded.module))
            vals = {k: eval(v, ns) for k, v in case["values"].items()}  # pylint: disable=eval-used
            try:
                loaded.module.F_g_r(**vals)
                exc = None
            except BaseException as err:  # pylint: disable=broad-except
                exc = err
            if type(exc) is not icontract.ViolationError:
                w.violation("C07/violation-replaced-by-other-exception", "expected ViolationError, got {!r}".format(exc), case)
        finally:
            loaded.unload()
        return
    src = PRELUDE + exprs.SUPPORT + "\n"
    start = src.count("\n") + 1
    source = case["source"]
    loaded = prog.load_source(src + source + "\n", w.scratch())
    mod = loaded.module
    try:
        env_eval = dict(vars(mod))
        vals = {k: eval(v, env_eval) for k, v in case["values"].items()}  # pylint: disable=eval-used
        twin = exprs.Twin(case["expr"], case["lam_params"], ["c1"])
        k = re.search(r"f_(\w+)", case["accessor"] + " " + source).group(1)
        it = {"k": k, "expr": case["expr"], "layout": case["layout"], "form": case["form"], "source": source, "lam_params": case["lam_params"],
              "params": case["params"], "deco_lines": (start, start + source.count("\n")), "n_probes": 0}
        judge(w, mod, it, twin, vals, case["accessor"], loaded.path)
    finally:
        loaded.unload()
