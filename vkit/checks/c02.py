"""C02 — postconditions gate every normal return; results and exceptions pass unchanged."""
from typing import Any, Dict, List

from vkit import gen, probe, prog, runner
from vkit.model import Model

ID = "C02"
LEVEL = "exploration"
SHARDS = {"quick": 4, "thorough": 16}
TIMEOUT = {"quick": 240, "thorough": 3000}
DECIDING = ["post_evaluations", "calls_body_raised", "calls_post_false", "calls_post_true", "result_identity_checks"]
RULE = (
    "programs: plain function stacks (0..3 postconditions, 0..2 snapshots, sync/async) and inheritance DAGs (<=3 classes "
    "all shapes, sampled 4-class) x member kinds x sync/async with own + inherited postconditions; bodies return from a "
    "hostile pool (None, 0, '', [], {}, False, an exception instance, a generator, NaN, an argument itself, a fresh token), "
    "mutate their arguments, or raise from {ValueError, custom Exception, KeyboardInterrupt, SystemExit, GeneratorExit, "
    "custom BaseException, RecursionError, StopIteration(sync only), AssertionError, a ViolationError look-alike, "
    "asyncio.CancelledError}; ALL truth assignments over the effective postconditions (cap 32/64). Oracle: model trace; "
    "`result`/argument/OLD objects received by every postcondition and error factory are (by identity) the body's result, "
    "the call's arguments, the captures' return values; the caller receives the identical result/exception object. "
    "Non-trivial = a postcondition was evaluated or the body raised; distinct = (shape, kind, async, class, truth vector, body script)."
)
ASSUMPTIONS = ["reference model encodes CNF semantics of the statement", "preconditions and invariants are kept true in this workload"]

RAISES = ["ValueError", "BodyError", "KeyboardInterrupt", "SystemExit", "GeneratorExit", "CustomBase", "RecursionError",
          "AssertionError", "ViolationErrorLookalike", "StopIteration", "CancelledError"]


def body_scripts(rng, kind: str, is_async: bool, params: List[Dict[str, Any]], n: int) -> List[Dict[str, Any]]:
    scripts = []  # type: List[Dict[str, Any]]
    rets = list(probe.RESULT_POOL)
    rng.shuffle(rets)
    for r in rets[:n]:
        s = {}  # type: Dict[str, Any]
        if kind not in ("init", "new"):
            s["ret"] = r
        names = [p["name"] for p in params if p["name"] not in ("self", "cls")]
        if names and rng.random() < 0.5:
            s["mutate"] = [rng.choice(names)]
        scripts.append(s)
    return scripts


def raise_scripts(rng, is_async: bool, n: int) -> List[Dict[str, Any]]:
    kinds = [k for k in RAISES if (is_async or k != "CancelledError") and not (is_async and k == "StopIteration")]
    rng.shuffle(kinds)
    return [{"raise": k} for k in kinds[:n]]


def classify(d: runner.Discrepancy) -> str:
    if d.kind == "result-identity":
        return "C02/result-not-identical"
    if d.kind == "exception-identity":
        return "C02/body-exception-replaced"
    if d.kind == "arg-identity":
        return "C02/postcondition-saw-other-argument-object"
    if d.kind == "old-identity":
        return "C02/postcondition-saw-other-OLD"
    if d.kind == "events":
        ea, oa = d.info.get("expected_at"), d.info.get("observed_at")
        if oa is not None and oa[0] == "cond" and ea is None:
            return "C02/postcondition-evaluated-unexpectedly"
        if ea is not None and ea[0] == "cond" and (oa is None or oa[0] != "cond"):
            return "C02/postcondition-not-evaluated"
        return "C02/trace-differs"
    if d.kind == "outcome":
        return "C02/outcome-differs"
    if d.kind == "error-identity":
        return "C02/wrong-error"
    return "C02/" + d.kind


def judge(w, loaded, model, contracts, call, meta) -> None:
    exp, obs, discs = runner.run_case(loaded, model, contracts, call, check_identity=True)
    keys = obs.keys()
    body = call.get("body", {})
    raised = any("raise" in v for v in body.values())
    n_post = sum(1 for e in obs.events if e.kind == "cond" and e.id.startswith("e"))
    w.count("post_evaluations", n_post)
    w.count("events", len(keys))
    if exp.outcome[0] == "raise_body":
        w.count("calls_body_raised")
    elif exp.outcome[0] == "violation":
        w.count("calls_post_false")
    else:
        w.count("calls_post_true")
    for ev in obs.events:
        if ev.got and "result" in ev.got:
            w.count("result_identity_checks")
        if ev.got and "OLD" in ev.got:
            w.count("old_identity_checks")
    nontrivial = None
    if n_post or raised:
        nontrivial = (meta, tuple(sorted((k, str(v)) for k, v in call.get("truth", {}).items())), str(sorted(body.items())))
    w.case(nontrivial)
    w.distinct("traces", keys)
    case = {"prog": model.prog, "call": call, "meta": meta}
    for d in discs:
        w.violation(classify(d), d.what, case, {"expected": repr(exp), "observed": obs.describe()})
    if w.counters["evaluations"] % 101 == 1:
        w.sample({"call": call, "meta": meta, "expected": [list(e) for e in exp.events], "outcome": list(exp.outcome),
                  "observed": obs.describe()})


def run_spec(w, spec, meta_base) -> None:
    rng = w.rng
    model = Model(spec)
    contracts = runner.index_contracts(spec)
    loaded = prog.load(spec, w.scratch())
    cap = 64 if w.tier == "thorough" else 32
    nret = 6 if w.tier == "thorough" else 3
    try:
        for d in runner.check_definitions(loaded, model):
            w.violation("C02/definition", d.what, {"prog": spec})
        for m in spec.get("funcs", []):
            ids = [c["id"] for dk, c in m["decos"] if dk == "post"]
            for truth in gen.all_truth(ids, rng, cap):
                for script in body_scripts(rng, "function", m["async"], m["params"], nret if not ids or all(v[0] == "T" for v in truth.values()) else 1):
                    judge(w, loaded, model, contracts, {"target": "func", "name": m["name"], "truth": truth, "body": {"*": script}},
                          meta_base + (m["async"], len(ids)))
            for script in raise_scripts(rng, m["async"], 11 if w.tier == "thorough" else 5):
                judge(w, loaded, model, contracts, {"target": "func", "name": m["name"], "truth": {}, "body": {"*": script}},
                      meta_base + (m["async"], len(ids)))
        kind = spec.get("kind")
        for cls in model.classes:
            if loaded.get(cls) is None:
                continue
            if kind in ("init", "new"):
                key = "__init__" if kind == "init" else "__new__"
                o = model.owner(cls, key)
                if o is None:
                    continue
                m = model.defines(o, key)
                ids = [c["id"] for dk, c in m["decos"] if dk == "post"]
                mid = "{}_{}".format(o, key)
                for truth in gen.all_truth(ids, rng, cap):
                    judge(w, loaded, model, contracts, {"target": "construct", "cls": cls, "truth": truth, "body": {"*": {}}},
                          meta_base + (cls,))
                for script in raise_scripts(rng, False, 3):
                    judge(w, loaded, model, contracts, {"target": "construct", "cls": cls, "truth": {}, "body": {"*": script, mid: script}},
                          meta_base + (cls,))
                continue
            key = spec["key"]
            o = model.owner(cls, key)
            if o is None:
                continue
            m = model.defines(o, key)
            ids = []
            for c in model.eff_post(o, key):
                if c["id"] not in ids:
                    ids.append(c["id"])
            for truth in gen.all_truth(ids, rng, cap):
                alltrue = all(v[0] == "T" for v in truth.values())
                for script in body_scripts(rng, m["kind"], m["async"], m["params"], nret if alltrue else 1):
                    judge(w, loaded, model, contracts, {"target": "member", "cls": cls, "key": key, "truth": truth, "body": {"*": script}},
                          meta_base + (cls,))
            for script in raise_scripts(rng, m["async"], 11 if w.tier == "thorough" else 4):
                judge(w, loaded, model, contracts, {"target": "member", "cls": cls, "key": key, "truth": {}, "body": {"*": script}},
                      meta_base + (cls,))
    finally:
        loaded.unload()


def specs(w):
    rng = w.rng
    # (the plan - which programs exist, in which order - comes from a stream that is the same in every shard, so that the running
    # index means the same program everywhere; only the content of a program comes from the shard's own stream)
    plan = __import__("random").Random("C02-plan/{}/{}".format(w.tier, getattr(w, "seed", 0)))
    thorough = w.tier == "thorough"
    shapes = gen.dag_shapes(1) + gen.dag_shapes(2) + gen.dag_shapes(3)
    shapes4 = gen.dag_shapes(4)
    kinds = ["method", "static", "class", "pget", "pset", "pdel", "init", "new", "call"]
    idx = 0
    for rnd in range(40 if thorough else 4):
        for is_async in (False, True):
            idx += 1
            if idx % w.nshards == w.shard:
                ids = gen.Ids()
                funcs = []
                for n_post in range(0, 4):
                    for n_snap in range(0, 3):
                        for n_pre in (0, 1):
                            funcs.append(gen.make_member(ids, rng, "function", ids.new("f"), is_async, n_pre, n_post, n_snap))
                yield ("funcs",), {"funcs": funcs, "classes": []}
        for shape in shapes + plan.sample(shapes4, 30 if thorough else 8):
            for kind in (kinds if len(shape) <= 2 else plan.sample(kinds, 4)):
                for is_async in ((False, True) if kind in ("method", "static", "class", "call") else (False,)):
                    idx += 1
                    if idx % w.nshards != w.shard:
                        continue
                    ids = gen.Ids()
                    choices = [rng.choice(("absent", "plain", "post", "post", "both")) for _ in shape]
                    choices[0] = rng.choice(("post", "both", "plain"))
                    k = kind
                    spec = gen.hier_program(ids, rng, shape, k, is_async, choices=choices, inv_prob=0.25,
                                            max_conj=3 if thorough else 2, avoid_mixed=True)
                    if kind == "call":
                        continue  # __call__ under DBC is covered in C04 (metaclass attribute lookup)
                    yield (str(shape), kind, is_async), spec
        # long gaps: a chain of five whose classes in the middle (two or three in a row) do not override the member
        for kind in ("method", "static", "pget", "pset"):
            for gap in (2, 3):
                idx += 1
                if idx % w.nshards != w.shard:
                    continue
                ids = gen.Ids()
                shape = [[]] + [[i] for i in range(4)]
                choices = ["both"] + ["absent"] * gap + ["post"] * (4 - gap)
                yield ("long-gap", kind, gap), gen.hier_program(ids, rng, shape, kind, False, choices=choices, inv_prob=0.0, max_conj=2, avoid_mixed=True)


MUTABLE_DEFAULT_SOURCE = '''
import icontract


@icontract.ensure(lambda log: len(log) <= 2)
{a}def record(entry, log=[]):
    log.append(entry)
    return len(log)


@icontract.ensure(lambda result, acc: result is acc)
@icontract.ensure(lambda acc: len(acc) >= 1)
{a}def accumulate(x, acc={{}}):
    acc[x] = True
    return acc


@icontract.ensure(lambda seen, result: result in seen)
{a}def remember(x, *, seen=set()):
    seen.add(x)
    return x
'''


def run_mutable_defaults(w) -> None:
    """A parameter left to a mutable default which the body changes: the postconditions see the object as it is AFTER the body (it is
    the very object the body received)."""
    import icontract  # pylint: disable=import-outside-toplevel

    for is_async in (False, True):
        loaded = prog.load_source(MUTABLE_DEFAULT_SOURCE.format(a="async " if is_async else ""), w.scratch())
        mod = loaded.module
        try:
            for tag, call, want in (("first", lambda: mod.record("a"), "returned"), ("second", lambda: mod.record("b"), "returned"),
                                    ("third-exceeds", lambda: mod.record("c"), "violation"), ("identity", lambda: mod.accumulate(1), "returned"),
                                    ("content", lambda: mod.remember(5), "returned")):
                try:
                    res = call()
                    if is_async:
                        res = probe.drive(res)
                    outcome = "returned"
                except icontract.ViolationError:
                    outcome = "violation"
                except BaseException as err:  # pylint: disable=broad-except
                    outcome = "raised {}: {}".format(type(err).__name__, str(err)[:100])
                w.count("post_evaluations")
                w.count("mutable_default_calls")
                w.case(("mutable-default", tag, is_async))
                if outcome != want:
                    w.violation("C02/postcondition-judged-on-another-object-than-the-body-received", "{}{}: {} (expected {}): the parameter was left to "
                                "its mutable default, which the body changed".format("async " if is_async else "", tag, outcome, want),
                                {"mutable_default": tag, "async": is_async})
        finally:
            loaded.unload()


def run(w) -> None:
    if w.shard == 1 % w.nshards:
        run_mutable_defaults(w)
    w.exhaustive = False
    for meta, spec in specs(w):
        w.count("programs")
        run_spec(w, spec, meta)


def replay(case, w) -> None:
    if "mutable_default" in case:
        run_mutable_defaults(w)
        return
    spec = case["prog"]
    model = Model(spec)
    contracts = runner.index_contracts(spec)
    loaded = prog.load(spec, w.scratch())
    try:
        if "call" in case:
            judge(w, loaded, model, contracts, case["call"], tuple(case.get("meta", ())))
        else:
            for d in runner.check_definitions(loaded, model):
                w.violation("C02/definition", d.what, {"prog": spec})
    finally:
        loaded.unload()
