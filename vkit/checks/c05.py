"""C05 — contracts observe the same argument values the body receives."""
import inspect
import itertools
from typing import Any, Dict, Iterator, List, Optional, Tuple

from vkit import probe, prog
from vkit.probe import Tok
from vkit.prog import P, got_text, sig_text

ID = "C05"
LEVEL = "exploration"
SHARDS = {"quick": 8, "thorough": 16}
TIMEOUT = {"quick": 300, "thorough": 3400}
DECIDING = ["probe_events", "identity_comparisons", "foreign_name_calls"]
RULE = (
    "ALL signatures with <=4 (thorough <=5) named parameters over {positional-only, positional-or-keyword, keyword-only} x "
    "{default, no default} with optional *args/**kwargs, rendered as plain functions (exhaustive) and as methods, class methods "
    "and async functions (sampled); for each ALL call shapes Python's own binder accepts with up to n+2 positionals and every subset "
    "of keywords plus extras captured by */** (incl. an extra keyword equal to a positional-only parameter's name); plus sampled "
    "wide signatures with 5..8 parameters. Every argument and default is a unique object (defaults also from a hostile pool: None, "
    "an object whose __eq__/__ne__ claim equality with everything). On each function a precondition asking for everything "
    "(+_ARGS,_KWARGS), one precondition per single parameter, a snapshot capture, a postcondition (+result, OLD) and an error "
    "factory (keyword-only parameters, some with defaults of their own that must never replace the values of the call) are attached; a "
    "twin function asks for a name that is not a parameter. One def statement executed 2..4 times (factory: function, async function, "
    "method of a class made in the factory, contracts applied afterwards) with default objects of its own each time, called in a random order of the definitions. Oracle: what an undecorated twin of the "
    "function receives for the same call and the object the body itself received (identity). Non-trivial = call with at least one named parameter; "
    "distinct = (signature, call shape, callable kind)."
)
ASSUMPTIONS = ["inspect.signature().bind is Python's binding semantics", "probes asking for the variadic parameter names themselves are a silent zone"]


class AlwaysEq:
    """A default value whose comparisons claim equality with everything (like some array or mock types do)."""

    def __eq__(self, other: Any) -> bool:
        return True

    def __ne__(self, other: Any) -> bool:
        return False

    def __hash__(self) -> int:
        return 7

    def __repr__(self) -> str:
        return "AlwaysEq()"


def signatures(max_named: int) -> Iterator[List[Dict[str, Any]]]:
    names = "abcdefgh"
    for n_po in range(0, max_named + 1):
        for n_pk in range(0, max_named + 1 - n_po):
            for n_ko in range(0, max_named + 1 - n_po - n_pk):
                n_pos = n_po + n_pk
                for n_dflt in range(0, n_pos + 1):
                    for ko_dflts in itertools.product((False, True), repeat=n_ko):
                        for va in (False, True):
                            for vk in (False, True):
                                params = []
                                i = 0
                                for j in range(n_pos):
                                    params.append(P(names[i], "po" if j < n_po else "pk", default=j >= n_pos - n_dflt))
                                    i += 1
                                if va:
                                    params.append(P("rest", "va"))
                                for d in ko_dflts:
                                    params.append(P(names[i], "ko", default=d))
                                    i += 1
                                if vk:
                                    params.append(P("kw", "vk"))
                                yield params


def wide_signature(rng) -> List[Dict[str, Any]]:
    names = "abcdefgh"
    n = rng.randint(5, 8)
    n_po = rng.randint(0, 2)
    n_ko = rng.randint(0, 3)
    n_pk = max(0, n - n_po - n_ko)
    n_pos = n_po + n_pk
    n_dflt = rng.randint(0, n_pos)
    params = []
    i = 0
    for j in range(n_pos):
        params.append(P(names[i], "po" if j < n_po else "pk", default=j >= n_pos - n_dflt))
        i += 1
    if rng.random() < 0.5:
        params.append(P("rest", "va"))
    for _ in range(n_ko):
        params.append(P(names[i], "ko", default=rng.random() < 0.5))
        i += 1
    if rng.random() < 0.5:
        params.append(P("kw", "vk"))
    return params


def call_shapes(params: List[Dict[str, Any]], rng=None, cap: Optional[int] = None) -> List[Tuple[int, Tuple[str, ...]]]:
    pos = [p for p in params if p["kind"] in ("po", "pk")]
    has_va = any(p["kind"] == "va" for p in params)
    has_vk = any(p["kind"] == "vk" for p in params)
    kwable = [p["name"] for p in params if p["kind"] in ("pk", "ko")]
    extras = []
    if has_vk:
        extras.append("zz")
        extras.extend(p["name"] for p in params if p["kind"] == "po")
    shapes = []
    for npos in range(0, len(pos) + (3 if has_va else 1)):
        cand = kwable + extras
        for r in range(0, len(cand) + 1):
            for combo in itertools.combinations(cand, r):
                shapes.append((npos, combo))
    if cap is not None and len(shapes) > cap and rng is not None:
        shapes = rng.sample(shapes, cap)
    return shapes


def named(params: List[Dict[str, Any]]) -> List[str]:
    return [p["name"] for p in params if p["kind"] in ("po", "pk", "ko")]


def render_sig_function(fid: str, params: List[Dict[str, Any]], kind: str, cond_defaults=()) -> str:
    """Render the function under test + its bare twin + a twin with a condition naming a foreign parameter.

    ``cond_defaults``: names for which the single-parameter condition and the error factory declare a default of their own
    (``lambda x, limit=limit``); they must still see the value of the call.
    """
    names = named(params)
    allnames = [p["name"] for p in params]
    out = []
    full = names + ["_ARGS", "_KWARGS"]
    out.append("def c_all_{f}({a}):\n    return HUB.cond('all_{f}', {g})\n".format(f=fid, a=", ".join(full), g=got_text(full)))
    for n in names:
        out.append("def c_{n}_{f}({n}{d}):\n    return HUB.cond('one_{n}_{f}', {g})\n".format(
            f=fid, n=n, g=got_text([n]), d="=CDEFAULT" if n in cond_defaults else ""))
    out.append("def s_{f}({a}):\n    return HUB.capture('snap_{f}', {g})\n".format(f=fid, a=", ".join(names), g=got_text(names)))
    pfull = full + ["result", "OLD"]
    # (the postcondition takes only every second name; its error factory below asks for all of them: what a factory receives must
    # not depend on what the condition happens to take)
    pcond = [n for i, n in enumerate(pfull) if i % 2 == 0]
    out.append("def p_{f}({a}):\n    return HUB.cond('post_{f}', {g})\n".format(f=fid, a=", ".join(pcond), g=got_text(pcond)))
    # (the error factory is called by keyword: keyword-only parameters let any subset of them have a default of its own, which
    # must never be used instead of the value of the call)
    fac_defaults = set(cond_defaults) | ({"result", "_ARGS"} if cond_defaults else set())
    out.append("def e_{f}(*, {a}):\n    return HUB.error('post_{f}', {g})\n".format(
        f=fid, a=", ".join(n + ("=CDEFAULT" if n in fac_defaults else "") for n in pfull), g=got_text(pfull)))
    out.append("def c_foreign_{f}(nope):\n    return HUB.cond('foreign_{f}', {{'nope': nope}})\n".format(f=fid))
    decos = ["@icontract.snapshot(s_{f}, name='snap')".format(f=fid),
             "@icontract.ensure(p_{f}, error=e_{f})".format(f=fid)]
    for n in names:
        decos.append("@icontract.require(c_{n}_{f}, error=HUB.errinst('one_{n}_{f}'))".format(n=n, f=fid))
    decos.append("@icontract.require(c_all_{f}, error=HUB.errinst('all_{f}'))".format(f=fid))
    sig = sig_text(params)
    body_got = got_text(allnames)
    is_async = kind == "async"
    if kind in ("function", "async"):
        out.append("\n".join(decos) + "\n{d}def f_{f}({sig}):\n    return HUB.body('f_{f}', {g})\n".format(
            d="async " if is_async else "", f=fid, sig=sig, g=body_got))
        out.append("def bare_{f}({sig}):\n    return {g}\n".format(f=fid, sig=sig, g=body_got))
        out.append("@icontract.require(c_foreign_{f}, error=HUB.errinst('foreign_{f}'))\ndef g_{f}({sig}):\n    return HUB.body('g_{f}', {g})\n".format(
            f=fid, sig=sig, g=body_got))
    else:
        first = "self" if kind == "method" else "cls"
        msig = first + (", " + sig if sig else "")
        ind = "    "
        cls = ["class K_{f}({base}):".format(f=fid, base="icontract.DBC" if kind == "method" else "")]
        if kind == "class":
            cls.append(ind + "@classmethod")
        cls.extend(ind + d for d in decos)
        cls.append(ind + "def f_{f}({sig}):".format(f=fid, sig=msig))
        cls.append(ind + "    return HUB.body('f_{f}', {g})".format(f=fid, g=body_got))
        if kind == "class":
            cls.append(ind + "@classmethod")
        cls.append(ind + "@icontract.require(c_foreign_{f}, error=HUB.errinst('foreign_{f}'))".format(f=fid))
        cls.append(ind + "def g_{f}({sig}):".format(f=fid, sig=msig))
        cls.append(ind + "    return HUB.body('g_{f}', {g})".format(f=fid, g=body_got))
        out.append("\n".join(cls) + "\n")
        out.append("def bare_{f}({sig}):\n    return {g}\n".format(f=fid, sig=sig, g=body_got))
    return "\n".join(out) + "\n"


def classify(params, args, kwargs, name: Optional[str], exc: Optional[BaseException], dflt_kinds: Dict[str, str]) -> str:
    kinds = {p["name"]: p["kind"] for p in params}
    n_pos = sum(1 for p in params if p["kind"] in ("po", "pk"))
    has_va = "va" in kinds.values()
    if name is not None:
        if kinds.get(name) == "ko" and has_va and len(args) > n_pos + 1:
            return "C05/kwonly-after-varargs-surplus-positional"
        if kinds.get(name) == "po" and name in kwargs:
            return "C05/posonly-name-reused-as-extra-keyword"
        if dflt_kinds.get(name) == "alwayseq":
            return "C05/default-detected-with-ne"
    if exc is not None and isinstance(exc, TypeError) and "have not been set" in str(exc):
        for n, k in dflt_kinds.items():
            if k == "alwayseq" and "'{}'".format(n) in str(exc):
                return "C05/default-detected-with-ne"
    return "C05/contract-saw-other-value-than-body"


def run_batch(w, batch: List[Tuple[str, List[Dict[str, Any]], str]], exhaustive_shapes: bool) -> None:
    """batch: [(fid, params, kind)]"""
    rng = w.rng
    src = ["import icontract\n\nCDEFAULT = object()  # default value of condition parameters (never the value of a call)\n"]
    dflt = prog.Defaults()
    dflt_kinds = {}  # type: Dict[str, Dict[str, str]]
    for fid, params, kind in batch:
        dk = {}
        for p in params:
            if p.get("default"):
                p["dkey"] = "{}_{}".format(fid, p["name"])
                choice = rng.random()
                if choice < 0.12:
                    dflt[p["dkey"]] = None
                    dk[p["name"]] = "none"
                elif choice < 0.3:
                    dflt[p["dkey"]] = AlwaysEq()
                    dk[p["name"]] = "alwayseq"
                else:
                    dk[p["name"]] = "tok"
        dflt_kinds[fid] = dk
        src.append(render_sig_function(fid, params, kind, cond_defaults={n for n in named(params) if rng.random() < 0.3}))
    loaded = prog.load_source("".join(src), w.scratch(), extra_globals={"DFLT": dflt})
    hub = loaded.hub
    mod = loaded.module
    try:
        for fid, params, kind in batch:
            names = named(params)
            bare = getattr(mod, "bare_" + fid)
            sig = inspect.signature(bare)
            if kind in ("function", "async"):
                fn = getattr(mod, "f_" + fid)
                gn = getattr(mod, "g_" + fid)
            else:
                holder = getattr(mod, "K_" + fid)
                inst = holder() if kind == "method" else holder
                fn = getattr(inst, "f_" + fid)
                gn = getattr(inst, "g_" + fid)
            shapes = call_shapes(params, rng, None if exhaustive_shapes else 40)
            did_foreign = False
            for npos, kws in shapes:
                args = tuple(Tok("p{}".format(i)) for i in range(npos))
                kwargs = {k: Tok("k_" + k) for k in kws}
                if (args or kwargs) and rng.random() < 0.2:
                    # None as the value of an argument (no library code may take it for "not supplied")
                    j = rng.randrange(len(args) + len(kwargs))
                    if j < len(args):
                        args = args[:j] + (None,) + args[j + 1:]
                    else:
                        kwargs[list(kwargs)[j - len(args)]] = None
                    w.count("calls_with_none_argument")
                # the function underneath a bound method receives the instance / class as its first positional argument
                args_seen = args if kind in ("function", "async") else (inst,) + args
                # ground truth for "Python can bind the call" and for the binding itself: calling the bare twin, which
                # returns what it received (inspect.Signature.bind wrongly rejects a keyword named like a defaulted
                # positional-only parameter that is captured by **kwargs)
                try:
                    bound_arguments = bare(*args, **kwargs)
                except TypeError:
                    w.count("shapes_rejected_by_python")
                    continue
                hub.reset()
                hub.truth = {"post_" + fid: False}
                exc = None
                try:
                    res = fn(*args, **kwargs)
                    if inspect.iscoroutine(res):
                        res = probe.drive(res)
                except BaseException as err:  # pylint: disable=broad-except
                    exc = err
                case = {"sig": sig_text(params), "params": params, "kind": kind, "npos": npos, "kws": list(kws),
                        "defaults": dflt_kinds[fid]}
                w.case((sig_text(params), npos, kws, kind) if names else None)
                w.distinct("signatures", sig_text(params))
                events = hub.events
                w.count("probe_events", len(events))
                body_ev = [e for e in events if e.kind == "body"]
                made = hub.factory_made.get("post_" + fid, [])
                if not (isinstance(exc, probe.FACTORY_ERRORS) and made and exc is made[-1]) or len(body_ev) != 1:
                    key = classify(params, args, kwargs, None, exc, dflt_kinds[fid])
                    w.violation(key, "call {}({} positionals, keywords {}) that Python binds did not run through all probes: {}: {}".format(
                        sig_text(params), npos, list(kws), type(exc).__name__, str(exc)[:300]), case,
                        {"events": [repr(e) for e in events]})
                    continue
                body_got = body_ev[0].got
                # the body must agree with Python's binder (sanity of the harness and transparency of the wrapper)
                for n in names:
                    if body_got[n] is not bound_arguments[n]:
                        w.violation("C05/body-received-other-object", "body got {}={!r}, binder says {!r}".format(
                            n, body_got[n], bound_arguments[n]), case)
                expected_events = 1 + len(names) + 1 + 1 + 1 + 1
                if len(events) != expected_events:
                    w.violation("C05/probe-count", "expected {} probe events, saw {}".format(expected_events, [repr(e) for e in events]), case)
                for ev in events:
                    if ev.kind == "body":
                        continue
                    for n, val in ev.got.items():
                        w.count("identity_comparisons")
                        ok = True
                        if n == "_ARGS":
                            ok = isinstance(val, tuple) and len(val) == len(args_seen) and all(x is y for x, y in zip(val, args_seen))
                        elif n == "_KWARGS":
                            ok = isinstance(val, dict) and set(val) == set(kwargs) and all(val[k] is kwargs[k] for k in val)
                        elif n == "result":
                            ok = val is hub.last_body_result
                        elif n == "OLD":
                            ok = getattr(val, "snap", None) is hub.captured.get("snap_" + fid)
                        else:
                            ok = val is body_got[n]
                        if not ok:
                            key = classify(params, args, kwargs, n if n in names else None, None, dflt_kinds[fid])
                            w.violation(key, "{} {} received {}={!r} but the body received {!r} in call {}({} positionals, keywords {})".format(
                                ev.kind, ev.id, n, val, body_got.get(n, "<n/a>"), sig_text(params), npos, list(kws)), case)
                if w.counters["evaluations"] % 997 == 1:
                    w.sample({"signature": sig_text(params), "kind": kind, "positionals": npos, "keywords": list(kws),
                              "events": [repr(e) for e in events]})
                # a condition naming a parameter the function does not have
                if not did_foreign:
                    did_foreign = True
                    hub.reset()
                    w.count("foreign_name_calls")
                    exc = None
                    try:
                        res = gn(*args, **kwargs)
                        if inspect.iscoroutine(res):
                            res = probe.drive(res)
                    except BaseException as err:  # pylint: disable=broad-except
                        exc = err
                    evs = [e for e in hub.events if e.kind == "cond"]
                    if evs:
                        w.violation("C05/foreign-name-condition-evaluated", "condition asking for 'nope' was evaluated with {!r}".format(
                            evs[0].got), case)
                    if not isinstance(exc, TypeError) or "nope" not in str(exc):
                        w.violation("C05/foreign-name-not-reported", "expected TypeError naming 'nope', got {}: {}".format(
                            type(exc).__name__, str(exc)[:200]), case)
    finally:
        loaded.unload()


REDEFINED = """import icontract


def c_r(a, b, c, _ARGS, _KWARGS):
    return HUB.cond('c_r', {'a': a, 'b': b, 'c': c})


def s_r(b, c):
    return HUB.capture('s_r', {'b': b, 'c': c})


def p_r(a, b, c, result, OLD):
    return HUB.cond('p_r', {'a': a, 'b': b, 'c': c})


def e_r(*, a, b, c):
    return HUB.error('p_r', {'a': a, 'b': b, 'c': c})


def make_function(db, dc):
    @icontract.snapshot(s_r, name='snap')
    @icontract.ensure(p_r, error=e_r)
    @icontract.require(c_r, error=HUB.errinst('c_r'))
    def f(a, b=db, *, c=dc):
        return HUB.body('f', {'a': a, 'b': b, 'c': c})
    return f


def make_async(db, dc):
    @icontract.snapshot(s_r, name='snap')
    @icontract.ensure(p_r, error=e_r)
    @icontract.require(c_r, error=HUB.errinst('c_r'))
    async def f(a, b=db, *, c=dc):
        return HUB.body('f', {'a': a, 'b': b, 'c': c})
    return f


def make_method(db, dc):
    class K(icontract.DBC):
        @icontract.snapshot(s_r, name='snap')
        @icontract.ensure(p_r, error=e_r)
        @icontract.require(c_r, error=HUB.errinst('c_r'))
        def f(self, a, b=db, *, c=dc):
            return HUB.body('f', {'a': a, 'b': b, 'c': c})
    return K().f


def make_late(db, dc):
    def f(a, b=db, *, c=dc):
        return HUB.body('f', {'a': a, 'b': b, 'c': c})
    return icontract.snapshot(s_r, name='snap')(icontract.ensure(p_r, error=e_r)(icontract.require(c_r, error=HUB.errinst('c_r'))(f)))


MAKERS = {'function': make_function, 'async': make_async, 'method': make_method, 'late': make_late}
"""


def run_redefined(w) -> None:
    """One ``def`` statement executed several times (factory, loop), each time with default values of its own.

    Every function object has its own defaults although all of them share one code object: the contracts of the n-th function
    must see the defaults of the n-th function.
    """
    rng = w.rng
    loaded = prog.load_source(REDEFINED, w.scratch())
    hub = loaded.hub
    try:
        for rnd in range(40 if w.tier == "thorough" else 6):
            for kind in ("function", "async", "method", "late"):
                maker = loaded.module.MAKERS[kind]
                n = rng.randint(2, 4)
                made = []
                for i in range(n):
                    db, dc = Tok("db{}_{}".format(rnd, i)), Tok("dc{}_{}".format(rnd, i))
                    made.append((maker(db, dc), db, dc))
                order = list(range(n))
                rng.shuffle(order)
                for i in order:
                    fn, db, dc = made[i]
                    for shape in ("none", "b", "c", "both"):
                        a = Tok("a")
                        kwargs = {}
                        expect = {"a": a, "b": db, "c": dc}
                        if shape in ("b", "both"):
                            kwargs["b"] = expect["b"] = Tok("kb")
                        if shape in ("c", "both"):
                            kwargs["c"] = expect["c"] = Tok("kc")
                        hub.reset()
                        hub.truth = {"p_r": False}
                        exc = None
                        try:
                            res = fn(a, **kwargs)
                            if inspect.iscoroutine(res):
                                res = probe.drive(res)
                        except BaseException as err:  # pylint: disable=broad-except
                            exc = err
                        case = {"redefined": kind, "definition": i, "of": n, "shape": shape}
                        w.case(("redefined", kind, i, shape))
                        w.count("redefined_def_calls")
                        events = hub.events
                        w.count("probe_events", len(events))
                        fac = hub.factory_made.get("p_r", [])
                        if not (isinstance(exc, probe.FACTORY_ERRORS) and fac and exc is fac[-1]) or len(events) != 5:
                            w.violation("C05/contract-saw-other-value-than-body",
                                        "definition #{} of {} of one def statement ({}), call with {}: did not run through all probes: {}: {}".format(
                                            i, n, kind, shape, type(exc).__name__, str(exc)[:300]), case, {"events": [repr(e) for e in events]})
                            continue
                        for ev in events:
                            for name, val in ev.got.items():
                                w.count("identity_comparisons")
                                if val is not expect[name]:
                                    w.violation("C05/contract-saw-other-value-than-body",
                                                "definition #{} of {} of one def statement ({}), call with {}: {} {} received {}={!r}, the function's own value is {!r}".format(
                                                    i, n, kind, shape, ev.kind, ev.id, name, val, expect[name]), case)
    finally:
        loaded.unload()


PLACEHOLDERS_SOURCE = """import icontract


def c_plain(x):
    return HUB.cond('c_plain', {'x': x})


def e_pre(*, x, _ARGS, _KWARGS):
    return HUB.error('c_plain', {'x': x, '_ARGS': _ARGS, '_KWARGS': _KWARGS})


def p_plain(result):
    return HUB.cond('p_plain', {'result': result})


def e_post(*, _ARGS, _KWARGS, result):
    return HUB.error('p_plain', {'_ARGS': _ARGS, '_KWARGS': _KWARGS, 'result': result})


@icontract.require(c_plain, error=e_pre)
def only_the_pre_factory_asks(x, *rest, **kw):
    return HUB.body('f', {'x': x})


@icontract.ensure(p_plain, error=e_post)
def only_the_post_factory_asks(x, *rest, **kw):
    return HUB.body('f', {'x': x})


@icontract.require(c_plain, error=e_pre)
async def only_the_pre_factory_asks_async(x, *rest, **kw):
    return HUB.body('f', {'x': x})


def c_inherited(_ARGS, _KWARGS):
    return HUB.cond('c_inherited', {'_ARGS': _ARGS, '_KWARGS': _KWARGS})


def p_inherited(_ARGS, _KWARGS, result):
    return HUB.cond('p_inherited', {'_ARGS': _ARGS, '_KWARGS': _KWARGS})


class Base(icontract.DBC):
    @icontract.require(c_inherited, error=HUB.errinst('c_inherited'))
    @icontract.ensure(p_inherited, error=HUB.errinst('p_inherited'))
    def m(self, x, *rest, **kw):
        return HUB.body('m', {'x': x})


class Override(Base):
    def m(self, x, *rest, **kw):
        return HUB.body('m', {'x': x})


class OverrideOfOverride(Override):
    @icontract.ensure(p_plain, error=HUB.errinst('p_plain'))
    def m(self, x, *rest, **kw):
        return HUB.body('m', {'x': x})
"""


def run_placeholders(w) -> None:
    """_ARGS / _KWARGS asked for by an error factory only (no condition or capture of the function names them), and by a condition
    which an override without contracts of its own inherits: they receive the positional tuple and the keyword mapping of the call."""
    loaded = prog.load_source(PLACEHOLDERS_SOURCE, w.scratch())
    hub, mod = loaded.hub, loaded.module
    try:
        targets = [("only_the_pre_factory_asks", mod.only_the_pre_factory_asks, None, {"c_plain": False}),
                   ("only_the_post_factory_asks", mod.only_the_post_factory_asks, None, {"p_plain": False}),
                   ("only_the_pre_factory_asks_async", mod.only_the_pre_factory_asks_async, None, {"c_plain": False})]
        for cname in ("Base", "Override", "OverrideOfOverride"):
            inst = getattr(mod, cname)()
            for falsy in ({}, {"c_inherited": False}, {"p_inherited": False}):
                targets.append(("{}.m".format(cname), inst.m, inst, falsy))
        for tag, fn, inst, truth in targets:
            for args, kwargs in (((Tok("a"),), {}), ((Tok("a"), Tok("b"), Tok("c")), {"k": Tok("k")}), ((), {"x": Tok("x"), "z": Tok("z")})):
                hub.reset()
                hub.truth = dict(truth)
                exc = None
                try:
                    res = fn(*args, **kwargs)
                    if inspect.iscoroutine(res):
                        res = probe.drive(res)
                except BaseException as err:  # pylint: disable=broad-except
                    exc = err
                case = {"placeholders": tag, "npos": len(args), "kws": sorted(kwargs), "truth": {k: v for k, v in truth.items()}}
                w.case(("placeholders", tag, len(args), tuple(sorted(kwargs)), tuple(sorted(truth))))
                w.count("placeholder_calls")
                w.count("probe_events", len(hub.events))
                if isinstance(exc, TypeError) or (exc is not None and not truth):
                    w.violation("C05/contract-saw-other-value-than-body", "{}(*{} positionals, **{}) with {}: {}: {}".format(
                        tag, len(args), sorted(kwargs), truth or "all contracts holding", type(exc).__name__, str(exc)[:300]), case)
                    continue
                args_seen = args if inst is None else (inst,) + args
                seen = 0
                for ev in hub.events:
                    for name, val in ev.got.items():
                        if name == "_ARGS":
                            seen += 1
                            w.count("identity_comparisons")
                            if not (isinstance(val, tuple) and len(val) == len(args_seen) and all(x is y for x, y in zip(val, args_seen))):
                                w.violation("C05/contract-saw-other-value-than-body", "{}: {} {} received _ARGS={!r}, the call passed {!r}".format(
                                    tag, ev.kind, ev.id, val, args_seen), case)
                        if name == "_KWARGS":
                            seen += 1
                            w.count("identity_comparisons")
                            if not (isinstance(val, dict) and set(val) == set(kwargs) and all(val[k] is kwargs[k] for k in val)):
                                w.violation("C05/contract-saw-other-value-than-body", "{}: {} {} received _KWARGS={!r}, the call passed {!r}".format(
                                    tag, ev.kind, ev.id, val, kwargs), case)
                if seen == 0:
                    w.violation("C05/probe-count", "{}: no probe received _ARGS / _KWARGS; events {}".format(tag, [repr(e) for e in hub.events]), case)
    finally:
        loaded.unload()


ADAPTED_SOURCE = """import functools
import inspect
import icontract


def injecting(func):
    \"\"\"A third-party decorator which adapts the interface (it supplies the first argument itself) and says so in __signature__.\"\"\"
    @functools.wraps(func)
    def wrapper(table, limit=DFLT_LIMIT, *, strict=DFLT_STRICT):
        HUB.body('wrapper', {'table': table, 'limit': limit, 'strict': strict})
        return func('connection', table, limit, strict)
    wrapper.__signature__ = inspect.Signature([
        inspect.Parameter('table', inspect.Parameter.POSITIONAL_OR_KEYWORD),
        inspect.Parameter('limit', inspect.Parameter.POSITIONAL_OR_KEYWORD, default=DFLT_LIMIT),
        inspect.Parameter('strict', inspect.Parameter.KEYWORD_ONLY, default=DFLT_STRICT)])
    return wrapper


def c_a(table, limit, strict):
    return HUB.cond('c_a', {'table': table, 'limit': limit, 'strict': strict})


def s_a(table, limit):
    return HUB.capture('s_a', {'table': table, 'limit': limit})


def p_a(table, limit, strict, result, OLD):
    return HUB.cond('p_a', {'table': table, 'limit': limit, 'strict': strict})


def e_a(*, table, limit, strict):
    return HUB.error('p_a', {'table': table, 'limit': limit, 'strict': strict})


@icontract.snapshot(s_a, name='snap')
@icontract.ensure(p_a, error=e_a)
@icontract.require(c_a, error=HUB.errinst('c_a'))
@injecting
def fetch(connection, table, limit, strict):
    return (connection, table, limit, strict)


def logged(func):
    @functools.wraps(func)
    def wrapper(*args, **kwargs):
        return func(*args, **kwargs)
    return wrapper


class Store:
    @logged
    def lookup(self, table, limit=DFLT_LIMIT, *, strict=DFLT_STRICT):
        HUB.body('wrapper', {'table': table, 'limit': limit, 'strict': strict})
        return (table, limit, strict)


STORE = Store()
# contracts applied to a BOUND method (the instance is bound already: the parameters start at ``table``)
bound_lookup = icontract.snapshot(s_a, name='snap')(icontract.ensure(p_a, error=e_a)(icontract.require(c_a, error=HUB.errinst('c_a'))(STORE.lookup)))
"""


def run_adapted_signature(w) -> None:
    """The parameters of the decorated callable are those IT reports (``inspect.signature`` honours ``__signature__`` and bound
    methods), not those of the function at the bottom of its ``__wrapped__`` chain."""
    dl, ds = Tok("default:limit"), Tok("default:strict")
    loaded = prog.load_source(ADAPTED_SOURCE, w.scratch(), extra_globals={"DFLT_LIMIT": dl, "DFLT_STRICT": ds})
    hub, mod = loaded.hub, loaded.module
    try:
        for tag, fn in (("adapter-with-__signature__", mod.fetch), ("bound-method-under-a-wraps-decorator", mod.bound_lookup)):
            for args, kwargs in (((Tok("t"),), {}), ((Tok("t"), Tok("l")), {}), ((Tok("t"),), {"strict": Tok("s")}), ((), {"table": Tok("t"), "limit": Tok("l")}),
                                 ((Tok("t"), Tok("l")), {"strict": Tok("s")})):
                hub.reset()
                hub.truth = {"p_a": False}
                exc = None
                try:
                    fn(*args, **kwargs)
                except BaseException as err:  # pylint: disable=broad-except
                    exc = err
                case = {"adapted": tag, "npos": len(args), "kws": sorted(kwargs)}
                w.case(("adapted-signature", tag, len(args), tuple(sorted(kwargs))))
                w.count("adapted_signature_calls")
                w.count("probe_events", len(hub.events))
                body = [e for e in hub.events if e.kind == "body"]
                made = hub.factory_made.get("p_a", [])
                if len(body) != 1 or not (made and exc is made[-1]):
                    w.violation("C05/contract-saw-other-value-than-body", "{}: call with {} positionals and keywords {} did not run through all probes: "
                                "{}: {}".format(tag, len(args), sorted(kwargs), type(exc).__name__, str(exc)[:300]), case,
                                {"events": [repr(e) for e in hub.events]})
                    continue
                got_body = body[0].got
                for ev in hub.events:
                    if ev.kind == "body":
                        continue
                    for name, val in ev.got.items():
                        w.count("identity_comparisons")
                        if val is not got_body[name]:
                            w.violation("C05/contract-saw-other-value-than-body", "{}: {} {} received {}={!r} but the decorated callable received "
                                        "{!r} (call with {} positionals, keywords {})".format(tag, ev.kind, ev.id, name, val, got_body[name], len(args),
                                                                                             sorted(kwargs)), case)
    finally:
        loaded.unload()


def run(w) -> None:
    rng = w.rng
    if w.shard == 2 % w.nshards:
        run_adapted_signature(w)
    if w.shard == 0:
        run_redefined(w)
    if w.shard == 1 % w.nshards:
        run_placeholders(w)
    thorough = w.tier == "thorough"
    max_named = 5 if thorough else 4
    sigs = list(signatures(max_named))
    w.notes["signatures_total"] = len(sigs)
    batch = []
    n = 0
    for i, params in enumerate(sigs):
        if i % w.nshards != w.shard:
            continue
        n += 1
        batch.append(("s{}".format(i), params, "function"))
        # sampled renderings as other callable kinds
        r = rng.random()
        if r < (0.3 if thorough else 0.12):
            k = rng.choice(("method", "class", "async"))
            batch.append(("s{}{}".format(i, k[0]), [dict(p) for p in params], k))
        if len(batch) >= 40:
            run_batch(w, batch, True)
            batch = []
    if batch:
        run_batch(w, batch, True)
    # wide signatures: sampled shapes
    n_wide = (60000 if thorough else 3000) // w.nshards
    batch = []
    for j in range(n_wide):
        batch.append(("w{}_{}".format(w.shard, j), wide_signature(rng), rng.choice(("function", "function", "method", "async", "class"))))
        if len(batch) >= 40:
            run_batch(w, batch, False)
            batch = []
    if batch:
        run_batch(w, batch, False)
    w.exhaustive = True  # the bounded core (signatures <= max_named x all accepted call shapes) is enumerated completely
    w.notes["exhaustive_core"] = "all signatures with <= {} named parameters x all call shapes accepted by Python's binder".format(max_named)


def replay(case, w) -> None:
    if "redefined" in case:
        run_redefined(w)
        return
    if "placeholders" in case:
        run_placeholders(w)
        return
    if "adapted" in case:
        run_adapted_signature(w)
        return
    params = case["params"]
    kind = case.get("kind", "function")
    # (which conditions carry defaults and which argument is None are drawn at random: repeat to cover the combinations)
    for i in range(6):
        run_batch(w, [("r{}".format(i), [dict(p) for p in params], kind)], True)
