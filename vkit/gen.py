"""Generators of program specs shared by the fn/cls checks."""
import itertools
from typing import Any, Dict, Iterable, Iterator, List, Optional, Tuple

from vkit.prog import P

ERR_FORMS = ("default", "class", "instance", "factory", "method")
CALLABLE_KINDS = ("function", "method", "static", "class", "pget", "pset", "pdel", "init", "new", "call")


class Ids:
    def __init__(self) -> None:
        self.n = 0

    def new(self, prefix: str) -> str:
        self.n += 1
        return "{}{}".format(prefix, self.n)


def params_for(kind: str, rng, extra: Optional[List[Dict[str, Any]]] = None) -> List[Dict[str, Any]]:
    """A small signature appropriate for the member kind (first parameter self/cls where Python passes one)."""
    if kind in ("pget", "pdel"):
        return [P("self")]
    if kind == "pset":
        return [P("self"), P("value")]
    user = extra if extra is not None else [P("x"), P("y", default=rng.random() < 0.5)]
    if kind in ("method", "init", "call"):
        return [P("self")] + user
    if kind in ("class", "new"):
        return [P("cls")] + user
    return list(user)


def askable(params: List[Dict[str, Any]], kind: str) -> List[str]:
    """Names a contract of this member may ask for."""
    names = [p["name"] for p in params if p["kind"] in ("po", "pk", "ko")]
    return names


def pick_args(rng, names: List[str], extra: Iterable[str] = ()) -> List[str]:
    pool = list(names) + list(extra)
    k = rng.randint(0, min(3, len(pool)))
    return sorted(rng.sample(pool, k), key=pool.index)


def make_cond(ids: Ids, rng, names: List[str], role: str, is_async: bool, forms=None, errs=None,
              extra: Iterable[str] = ()) -> Dict[str, Any]:
    cid = ids.new({"pre": "r", "post": "e"}[role])
    if forms is None:
        forms = ["def", "def", "lambda"] + (["adef", "aw"] if is_async else [])
    form = rng.choice(forms)
    err = rng.choice(errs or ERR_FORMS)
    if form in ("adef", "aw") and err in ("default", "class"):
        # coroutine conditions cannot be recomputed: the documentation demands an explicit error
        err = rng.choice(("instance", "factory", "method"))
    c = {"id": cid, "args": pick_args(rng, names, extra), "err": err, "form": form}
    if err in ("factory", "method"):
        c["eargs"] = pick_args(rng, names, extra)
        c["edefaults"] = [n for n in c["eargs"] if rng.random() < 0.3]
        c["eextra"] = rng.random() < 0.2
    return c


def make_snap(ids: Ids, rng, names: List[str], is_async: bool, forms=None) -> Dict[str, Any]:
    sid = ids.new("s")
    if forms is None:
        forms = ["def", "lambda"] + (["adef", "aw"] if is_async else [])
    args = pick_args(rng, names)
    return {"id": sid, "name": "o_" + sid, "args": args, "form": rng.choice(forms)}


def make_inv(ids: Ids, rng, check_on: str = "CALL", errs=None, forms=("def", "lambda")) -> Dict[str, Any]:
    iid = ids.new("i")
    err = rng.choice(errs or ERR_FORMS)
    inv = {"id": iid, "check_on": check_on, "err": err, "self": rng.random() < 0.85, "form": rng.choice(forms)}
    if err in ("factory", "method"):
        inv["eargs"] = ["self"] if rng.random() < 0.5 else []
    return inv


def member_name(kind: str, base: str) -> str:
    if kind == "init":
        return "__init__"
    if kind == "new":
        return "__new__"
    if kind == "call":
        return "__call__"
    return base


def make_member(ids: Ids, rng, kind: str, base: str, is_async: bool, n_pre: int, n_post: int, n_snap: int,
                forms=None, errs=None, params=None, shuffle=True, via_helper=None) -> Dict[str, Any]:
    if via_helper is None:
        via_helper = rng.random() < 0.12
    if via_helper:
        # contracts created through a helper function share one source location; lambdas cannot be re-parsed from there
        forms = [f for f in (forms or ["def", "adef", "aw"]) if f != "lambda"] or ["def"]
        if not is_async:
            forms = [f for f in forms if f == "def"] or ["def"]
    real_kind = "method" if kind == "call" else kind
    if real_kind in ("init", "new", "pget", "pset", "pdel"):
        is_async = False
    ps = params if params is not None else params_for(kind, rng)
    names = askable(ps, kind)
    decos = []  # type: List[List[Any]]
    pres = [["pre", make_cond(ids, rng, names, "pre", is_async, forms, errs)] for _ in range(n_pre)]
    posts = [["post", make_cond(ids, rng, names, "post", is_async, forms, errs, extra=("result", "OLD") if n_snap else ("result",))]
             for _ in range(n_post)]
    snaps = [["snap", make_snap(ids, rng, names, is_async, None if forms is None else [f for f in forms if f != "x"])]
             for _ in range(n_snap if n_post else 0)]
    for _dk, c in posts:
        if "OLD" in c["args"] and not snaps:
            c["args"].remove("OLD")
        if "OLD" in c.get("eargs", []) and not snaps:
            c["eargs"].remove("OLD")
    if via_helper:
        for _dk, c in pres + posts:
            c["via_helper"] = True
    if shuffle:
        # any interleaving in which every snapshot sits above (outside) at least one postcondition
        rest = pres + posts[1:] + snaps
        rng.shuffle(rest)
        if posts:
            # put the first postcondition somewhere below every snapshot
            first_snap = min([i for i, d in enumerate(rest) if d[0] == "snap"], default=len(rest))
            rest.insert(rng.randint(0, first_snap), posts[0])
        decos = rest
    else:
        decos = pres + posts + snaps
    return {"name": member_name(kind, base), "kind": real_kind, "async": is_async, "params": ps, "decos": decos}


def all_truth(ids: List[str], rng, cap: int = 64) -> Iterator[Dict[str, Any]]:
    """All truth assignments (or ``cap`` sampled ones) over the given ids, drawn from the truthy/falsy object pools."""
    n = len(ids)
    total = 2 ** n
    if total <= cap:
        combos = itertools.product((True, False), repeat=n)  # type: Iterable[Tuple[bool, ...]]
    else:
        seen = set()
        lst = []
        # always include all-true, all-false and the single-false assignments
        base = [tuple([True] * n), tuple([False] * n)] + [tuple(j != i for j in range(n)) for i in range(n)]
        for b in base:
            if b not in seen:
                seen.add(b)
                lst.append(b)
        while len(lst) < cap:
            b = tuple(rng.random() < 0.6 for _ in range(n))
            if b not in seen:
                seen.add(b)
                lst.append(b)
        combos = lst
    for combo in combos:
        yield {cid: ["T" if val else "F", rng.randrange(11)] for cid, val in zip(ids, combo)}


def chain_class(name: str, bases: List[str], members: List[Dict[str, Any]], invs=None, dbc=True) -> Dict[str, Any]:
    return {"name": name, "bases": bases, "dbc": dbc, "invs": invs or [], "members": members}


# ---------------------------------------------------------------------------------------------------------------------
# inheritance DAGs
# ---------------------------------------------------------------------------------------------------------------------

def dag_shapes(n: int, max_bases: int = 2) -> List[List[List[int]]]:
    """All base-assignments for classes 0..n-1 (class i derives from earlier classes; [] = directly from DBC)
    for which Python can compute an MRO. Each shape is a list of base-index lists."""
    shapes = []  # type: List[List[List[int]]]

    def options(i: int) -> List[List[int]]:
        opts = [[]]  # type: List[List[int]]
        for k in range(1, max_bases + 1):
            for combo in itertools.permutations(range(i), k):
                opts.append(list(combo))
        return opts

    def rec(i: int, acc: List[List[int]], pys: List[type]) -> None:
        if i == n:
            shapes.append([list(b) for b in acc])
            return
        for bases in options(i):
            try:
                py = type("S{}".format(i), tuple(pys[b] for b in bases), {})
            except TypeError:
                continue
            rec(i + 1, acc + [bases], pys + [py])

    rec(0, [], [])
    return shapes


MEMBER_CHOICES = ("absent", "plain", "pre", "post", "both")


def hier_program(ids: Ids, rng, shape: List[List[int]], kind: str, is_async: bool, choices: Optional[List[str]] = None,
                 allow_reject: bool = False, inv_prob: float = 0.3, max_conj: int = 2, forms=None, errs=None,
                 with_snaps: bool = True, avoid_mixed: bool = False, dbc_root: bool = True, avoid_copy_shadow: bool = False,
                 inv_check_ons=("CALL", "CALL", "DEFAULT", "ALL", "SETATTR"), foreign_prob: float = 0.2,
                 shared_prob: float = 0.15) -> Dict[str, Any]:
    """One hierarchy (classes K<n>) with one member of the given kind declared/overridden per ``choices``."""
    from vkit.model import Model  # pylint: disable=import-outside-toplevel

    # (now and then a short public name that happens to be part of the names of the special methods)
    base = rng.choice(("init", "new", "n", "it", "e", "w", "i", "t")) if rng.random() < 0.08 else ids.new("m")
    if rng.random() < 0.08:
        # a protected member (template-method hook): overridden - and its contracts inherited - like any other; only the invariants
        # are not evaluated around it
        base = "_" + ids.new("m")
    classes = []  # type: List[Dict[str, Any]]
    names = []  # type: List[str]
    root_style = rng.choice(("dbc", "dbc", "metaclass", "mixin-metaclass"))
    key = member_name(kind, base)
    mkind = "method" if kind == "call" else kind
    for i, bases in enumerate(shape):
        cname = ids.new("K")
        choice = choices[i] if choices else rng.choice(MEMBER_CHOICES)
        if i == 0 and choice == "absent" and not choices:
            choice = rng.choice(MEMBER_CHOICES[1:])
        for attempt in range(4):
            members = []
            if choice != "absent":
                n_pre = rng.randint(1, max_conj) if choice in ("pre", "both") else 0
                n_post = rng.randint(1, max_conj) if choice in ("post", "both") else 0
                n_snap = rng.randint(0, 1) if (n_post and with_snaps) else 0
                m = make_member(ids, rng, kind, base, is_async, n_pre, n_post, n_snap, forms, errs)
                if kind in ("pset", "pdel"):
                    # (the getter next to the accessor under test may carry a postcondition and a snapshot of its own: the contracts
                    # of one accessor are none of the business of the others)
                    with_post = with_snaps and rng.random() < 0.3
                    members.append(make_member(ids, rng, "pget", base, False, 0, 1 if with_post else 0, rng.randint(0, 1) if with_post else 0, forms, errs))
                if kind not in ("init", "new") and bases and rng.random() < shared_prob:
                    # the override re-uses a decorator OBJECT of a base's member (one contract listed in two classes)
                    role = rng.choice(("pre", "post"))
                    own = [d for d in m["decos"] if d[0] == role]
                    pool = []
                    for b in bases:
                        for bm in classes[b]["members"]:
                            if bm["name"] == m["name"] and bm["kind"] == m["kind"]:
                                pool.extend(d for d in bm.get("decos", []) if d[0] == role and d[1].get("form") in ("def", "lambda")
                                            and not d[1].get("via_helper"))
                    if own and pool:
                        picked = rng.choice(pool)
                        picked[1]["shared"] = True
                        picked[1]["form"] = "def"
                        m["decos"].insert(rng.randint(0, len(m["decos"])), picked)
                if kind in ("pset", "pdel") and choice == "plain" and i > 0 and rng.random() < 0.4:
                    # the class re-defines the property read-only: the accessor under test does not exist on its property (a join
                    # below it inherits the accessor's contracts from the other bases only)
                    pass
                else:
                    members.append(m)
            invs = [make_inv(ids, rng, check_on=rng.choice(inv_check_ons), errs=errs) for _ in range(rng.randint(1, 2))] if rng.random() < inv_prob else []
            cls = chain_class(cname, [names[b] for b in bases], members, invs)
            if not bases and dbc_root:
                cls["root"] = root_style
            trial = {"funcs": [], "classes": classes + [cls]}
            model = Model(trial)
            if kind in ("init", "new") and invs and model.owner(cname, key) is None:
                # a class with invariants but no Python-level constructor gets its __new__ wrapped; subclasses adding
                # a constructor with arguments are C03/C14's business
                cls["invs"] = []
            rej = model.class_rejection(cname)
            mixed = False
            if avoid_mixed and choice != "absent":
                k2 = key if mkind not in ("pget", "pset", "pdel") else "{}.{}".format(base, mkind)
                flags = []
                for b in model.bases(cname):
                    bo = model.owner(b, k2)
                    if bo is not None:
                        flags.append(bool(model.eff_pre(bo, k2)))
                mixed = bool(flags) and any(flags) and not all(flags)
            if avoid_copy_shadow and rej is None:
                # stay out of the corner where a class that only adds invariants holds a copy of an inherited member which
                # hides a sibling's override in a join (known finding of C04): drop the invariants of the shadowing class
                k2 = key if mkind not in ("pget", "pset", "pdel") else "{}.{}".format(base, mkind)
                for _ in range(4):
                    sh = model.copy_shadow(cname, k2)
                    if sh is None:
                        break
                    for c in classes + [cls]:
                        if c["name"] == sh:
                            c["invs"] = []
                    model = Model({"funcs": [], "classes": classes + [cls]})
            if (rej is None and not mixed) or (allow_reject and rej in ("TypeError", "ValueError") and not mixed):
                break
            # downgrade the choice until the class is acceptable
            choice = {"both": "post", "pre": "plain", "post": "plain", "plain": "absent"}.get(choice, "absent")
        classes.append(cls)
        names.append(cname)
        if allow_reject and rej is not None:
            break
    # now and then a foreign functools.wraps decorator above the contracts of a member (the checker is then not the outermost
    # object of the decorator stack; the foreign wrapper carries copies of the checker's attributes)
    if kind not in ("init", "new") and rng.random() < foreign_prob:
        for c in classes:
            for m in c["members"]:
                if m.get("decos") and rng.random() < 0.6:
                    tag = "F" + m["name"] + c["name"] + ("~" if rng.random() < 0.4 else "")
                    # above all the contracts, or in between them (never below a snapshot whose postcondition is further down:
                    # the position among pre- and postconditions does not matter, they all join the one checker)
                    contract_kinds = [d[0] for d in m["decos"]]
                    if len(contract_kinds) >= 2 and "snap" not in contract_kinds and rng.random() < 0.5:
                        m["decos"].insert(rng.randint(1, len(m["decos"]) - 1), ["foreign", tag])
                    else:
                        m["decos"].append(["foreign", tag])
    return {"funcs": [], "classes": classes, "member": base, "kind": kind, "key": key if mkind not in ("pget", "pset", "pdel")
            else "{}.{}".format(base, mkind)}


def effective_ids(model, cls: str, key: str) -> List[str]:
    """Ids of every contract that can be evaluated by an operation ``key`` on an instance of ``cls``."""
    o = model.owner(cls, key)
    out = []  # type: List[str]
    if o is None:
        return out
    m = model.defines(o, key)
    for g in model.eff_pre(o, key):
        for c in g:
            out.append(c["id"])
    for c in model.eff_post(o, key):
        out.append(c["id"])
    for i in model.invs_around(cls, m):
        out.append(i["id"])
    seen = set()
    return [x for x in out if not (x in seen or seen.add(x))]
