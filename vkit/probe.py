"""Instrumented user callables: the hub that every rendered condition / capture / body / error factory reports to."""
import threading
from typing import Any, Dict, List, Optional


REPR_HOOK = None  # type: Any  # set by the fault-injection check: called on every repr() of a Tok
DRIVE_HOOK = None  # type: Any  # set by the fault-injection check: replaces the trampoline


class Tok:
    """A unique argument object; identity is what the monitors compare."""

    __slots__ = ("n", "items", "__weakref__")

    def __init__(self, n: Any) -> None:
        self.n = n
        self.items = []  # type: List[Any]

    def __repr__(self) -> str:
        if REPR_HOOK is not None:
            REPR_HOOK(self)
        return "Tok({!r})".format(self.n)


class Tick:
    """Awaitable that suspends the coroutine exactly once (a real suspension point for the trampoline)."""

    def __init__(self, label: str = "") -> None:
        self.label = label

    def __await__(self):
        yield self


class AwaitableObject:
    """An awaitable that is not a coroutine object (the way asyncio.Future / Task or a user class with __await__ is)."""

    def __init__(self, coro: Any) -> None:
        self.coro = coro

    def __await__(self):
        return self.coro.__await__()


class Truthy:
    def __init__(self, tag: str, value: bool) -> None:
        self.tag = tag
        self.value = value

    def __bool__(self) -> bool:
        return self.value

    def __repr__(self) -> str:
        return "Truthy({!r},{})".format(self.tag, self.value)


class Lenny:
    def __init__(self, n: int) -> None:
        self.n = n

    def __len__(self) -> int:
        return self.n

    def __repr__(self) -> str:
        return "Lenny({})".format(self.n)


# pools of objects the library must judge by truthiness only
TRUTHY_POOL = [True, 1, "x", [0], (None,), {"k": 0}, 0.5, -1, Truthy("t", True), Lenny(2), object]
FALSY_POOL = [False, 0, "", [], (), {}, 0.0, None, Truthy("f", False), Lenny(0), set()]


def truth_value(spec: Any) -> Any:
    """Map a JSON truth spec to the object a probe returns: True/False or ["T", i] / ["F", i] (pool index)."""
    if isinstance(spec, (list, tuple)) and len(spec) == 2 and spec[0] in ("T", "F"):
        pool = TRUTHY_POOL if spec[0] == "T" else FALSY_POOL
        return pool[spec[1] % len(pool)]
    return spec


def truth_bool(spec: Any) -> bool:
    if isinstance(spec, (list, tuple)) and len(spec) == 2 and spec[0] in ("T", "F"):
        return spec[0] == "T"
    return bool(spec)


class FactoryError(Exception):
    """Exception produced by an instrumented error factory."""


class FalsyFactoryError(FactoryError):
    """An exception object that is falsy (e.g. an exception type that also is a sized container)."""

    def __len__(self) -> int:
        return 0


class BaseFactoryError(BaseException):
    """An exception produced by an instrumented error factory that derives from BaseException only (like SystemExit)."""


FACTORY_ERRORS = (FactoryError, BaseFactoryError)


class BodyError(Exception):
    """Exception raised by an instrumented body."""


class CustomBase(BaseException):
    """A BaseException subclass that is not an Exception."""


class CaptureUndefined(LookupError):
    """Raised by a capture which is evaluated for arguments it is not defined for."""


EXC_KINDS = {
    "ValueError": ValueError,
    "BodyError": BodyError,
    "KeyboardInterrupt": KeyboardInterrupt,
    "SystemExit": SystemExit,
    "GeneratorExit": GeneratorExit,
    "CustomBase": CustomBase,
    "RecursionError": RecursionError,
    "StopIteration": StopIteration,
    "AssertionError": AssertionError,
    "CancelledError": __import__("asyncio").CancelledError,
    "ViolationErrorLookalike": type("ViolationError", (AssertionError,), {}),
}


class Event:
    __slots__ = ("kind", "id", "got", "extra")

    def __init__(self, kind: str, id_: str, got: Optional[Dict[str, Any]] = None, extra: Any = None) -> None:
        self.kind = kind
        self.id = id_
        self.got = got
        self.extra = extra

    def key(self):
        return (self.kind, self.id)

    def __repr__(self) -> str:
        return "{}:{}".format(self.kind, self.id)


class Hub:
    """Receives every call the library makes into user code and answers as scripted."""

    def __init__(self) -> None:
        self.events = []  # type: List[Event]
        self.truth = {}  # type: Dict[str, Any]
        self.evals = {}  # type: Dict[str, int]
        self.body_script = {}  # type: Dict[str, Any]
        self.errclasses = {}  # type: Dict[str, type]
        self.errinsts = {}  # type: Dict[str, BaseException]
        self.factory_made = {}  # type: Dict[str, List[BaseException]]
        self.created = {}  # type: Dict[str, Any]
        self.creation_errors = {}  # type: Dict[str, BaseException]
        self.results = {}  # type: Dict[str, Any]
        self.hooks = {}  # type: Dict[str, Any]
        self.lock = threading.Lock()
        self.last_body_result = None  # type: Any
        self.last_body_exc = None  # type: Optional[BaseException]
        self.captured = {}  # type: Dict[str, Any]

    # -- per-case reset -------------------------------------------------------------------
    def reset(self) -> None:
        self.events = []
        self.truth = {}
        self.evals = {}
        self.body_script = {}
        self.factory_made = {}
        self.last_body_result = None
        self.last_body_exc = None
        self.captured = {}

    def log(self, kind: str, id_: str, got: Optional[Dict[str, Any]] = None, extra: Any = None) -> Event:
        ev = Event(kind, id_, got, extra)
        self.events.append(ev)
        return ev

    def _answer(self, id_: str) -> Any:
        n = self.evals.get(id_, 0)
        self.evals[id_] = n + 1
        spec = self.truth.get(id_, True)
        if isinstance(spec, dict) and "seq" in spec:
            seq = spec["seq"]
            spec = seq[min(n, len(seq) - 1)]
        return truth_value(spec)

    # -- probes ---------------------------------------------------------------------------
    def cond(self, id_: str, got: Dict[str, Any]) -> Any:
        self.log("cond", id_, got)
        hook = self.hooks.get(id_)
        if hook is not None:
            hook(id_, got)
        return self._answer(id_)

    def inv(self, id_: str, instance: Any) -> Any:
        self.log("inv", id_, {"self": instance})
        hook = self.hooks.get(id_)
        if hook is not None:
            hook(id_, {"self": instance})
        return self._answer(id_)

    def capture(self, id_: str, got: Dict[str, Any]) -> Any:
        self.log("snap", id_, got)
        hook = self.hooks.get(id_)
        if hook is not None:
            hook(id_, got)
        if self.truth.get("snap:" + id_, self.truth.get("snap:*")) == "raise":
            # a capture which is only defined for the arguments the preconditions admit (`lst[0]` behind `len(lst) > 0`)
            raise CaptureUndefined("capture {} is not defined for these arguments".format(id_))
        val = Tok("old:" + id_)  # type: Any
        if self.truth.get("snap:" + id_) == "alias" and got:
            val = next(iter(got.values()))
        self.captured[id_] = val
        return val

    def error(self, id_: str, got: Dict[str, Any]) -> Any:
        self.log("error", id_, got)
        spec = self.truth.get("error:" + id_)
        if spec == "nonexc":
            return "not an exception"
        if spec == "nonexc-none":
            return None  # (a factory which builds the exception and forgets to return it)
        if spec == "nonexc-class":
            return ValueError  # (the class instead of an instance)
        if spec == "nonexc-zero":
            return 0
        code = sum(map(ord, id_))
        err = (BaseFactoryError if code % 5 == 2 else FalsyFactoryError if code % 3 == 0 else FactoryError)(id_)
        self.factory_made.setdefault(id_, []).append(err)
        return err

    def body(self, id_: str, got: Dict[str, Any]) -> Any:
        self.log("body", id_, got)
        hook = self.hooks.get(id_)
        if hook is not None:
            hook(id_, got)
        script = self.body_script.get(id_) or self.body_script.get("*") or {}
        for name in script.get("mutate", ()):
            target = got.get(name)
            if isinstance(target, Tok):
                target.items.append("mutated-by-" + id_)
        if "raise" in script:
            exc = EXC_KINDS[script["raise"]]("from body " + id_)
            self.last_body_exc = exc
            raise exc
        if "ret" in script:
            res = make_result(script["ret"], got)
        else:
            res = Tok("result:" + id_)
        self.last_body_result = res
        return res

    async def abody(self, id_: str, got: Dict[str, Any]) -> Any:
        await Tick("body:" + id_)
        return self.body(id_, got)

    async def acond(self, id_: str, got: Dict[str, Any]) -> Any:
        await Tick("cond:" + id_)
        return self.cond(id_, got)

    def awaitable_cond(self, id_: str, got: Dict[str, Any]) -> Any:
        """The verdict of the condition wrapped into an awaitable object which is not a coroutine."""
        return AwaitableObject(self.acond(id_, got))

    async def acapture(self, id_: str, got: Dict[str, Any]) -> Any:
        await Tick("snap:" + id_)
        return self.capture(id_, got)

    # -- error artefacts ------------------------------------------------------------------
    def errcls(self, id_: str) -> type:
        cls = self.errclasses.get(id_)
        if cls is None:
            attrs = {}  # type: Dict[str, Any]
            if sum(map(ord, id_)) % 3 == 1:
                # an exception type whose instances are falsy: the library must not judge errors by truthiness
                attrs = {"__bool__": lambda self: False}
            cls = type("E_" + id_, (Exception,), attrs)
            self.errclasses[id_] = cls
        return cls

    def errinst(self, id_: str) -> BaseException:
        inst = self.errinsts.get(id_)
        if inst is None:
            inst = self.errcls("inst_" + id_)("instance error of " + id_)
            self.errinsts[id_] = inst
        return inst

    # -- definition-time records ----------------------------------------------------------
    def defined(self, name: str, obj: Any) -> None:
        self.created[name] = obj

    def definition_failed(self, name: str, err: BaseException) -> None:
        self.creation_errors[name] = err


RESULT_POOL = ["tok", "none", "zero", "empty_str", "empty_list", "empty_dict", "false", "exc_instance", "gen", "arg0", "nan"]


def make_result(kind: str, got: Dict[str, Any]) -> Any:
    if kind == "tok":
        return Tok("r")
    if kind == "none":
        return None
    if kind == "zero":
        return 0
    if kind == "empty_str":
        return ""
    if kind == "empty_list":
        return []
    if kind == "empty_dict":
        return {}
    if kind == "false":
        return False
    if kind == "exc_instance":
        return ValueError("returned, not raised")
    if kind == "gen":
        return (i for i in range(3))
    if kind == "nan":
        return float("nan")
    if kind == "arg0":
        for v in got.values():
            return v
        return None
    raise ValueError(kind)


def drive(coro: Any) -> Any:
    """Deterministic trampoline: run a coroutine to completion, resuming at every Tick."""
    if DRIVE_HOOK is not None:
        return DRIVE_HOOK(coro)
    try:
        while True:
            coro.send(None)
    except StopIteration as stop:
        return stop.value
