"""Execute calls of a loaded program under the probes and compare what happened with the model's prediction."""
import inspect
import warnings
from typing import Any, Dict, List, Optional, Tuple

from vkit import probe
from vkit.model import ACCESSORS, Expected, Model, decos_of, mkey
from vkit.probe import Tok


class Obs:
    """What one call did."""

    def __init__(self) -> None:
        self.events = []  # type: List[probe.Event]
        self.returned = False
        self.value = None  # type: Any
        self.exc = None  # type: Optional[BaseException]
        self.bound = {}  # type: Dict[str, Any]
        self.args = ()  # type: Tuple[Any, ...]
        self.kwargs = {}  # type: Dict[str, Any]
        self.instance = None  # type: Any
        self.setup_error = None  # type: Optional[str]
        # what the function underneath receives as first positional argument in addition to ``args``:
        # None (plain function / static), ("is", obj) for bound methods / class methods, ("isinstance", cls) for ctors
        self.first = None  # type: Any

    def keys(self) -> List[Tuple[str, str]]:
        return [e.key() for e in self.events if e.kind != "foreign"]

    def describe(self) -> Dict[str, Any]:
        return {
            "events": ["{}:{}".format(*k) for k in self.keys()],
            "outcome": "return {!r}".format(self.value)[:120] if self.returned else "raise {}: {}".format(
                type(self.exc).__name__, str(self.exc)[:300]),
        }


def index_contracts(prog: Dict[str, Any]) -> Dict[str, Dict[str, Any]]:
    idx = {}
    for m in prog.get("funcs", []):
        for dk, c in m.get("decos", []):
            if dk != "foreign":
                idx[c["id"]] = c
    for cls in prog.get("classes", []):
        for inv in cls.get("invs", []):
            idx[inv["id"]] = inv
        for m in cls.get("members", []):
            for dk, c in m.get("decos", []):
                if dk != "foreign":
                    idx[c["id"]] = c
    return idx


def build_args(params: List[Dict[str, Any]], call: Dict[str, Any], skip_first: bool, defaults: Any) -> Tuple[list, dict, dict]:
    """Create fresh argument tokens according to the call shape. Return (args, kwargs, bound-by-name)."""
    ps = params[1:] if skip_first else params
    pos_names = call.get("pos")
    kw_names = call.get("kw")
    if pos_names is None and kw_names is None:
        pos_names = [p["name"] for p in ps if p["kind"] in ("po", "pk") and not p.get("default")]
        kw_names = [p["name"] for p in ps if p["kind"] == "ko" and not p.get("default")]
    pos_names = pos_names or []
    kw_names = kw_names or []
    args = []
    kwargs = {}
    bound = {}
    for n in pos_names:
        t = Tok("a:" + n)
        args.append(t)
        bound[n] = t
    for i in range(call.get("extra_pos", 0)):
        args.append(Tok("xa:{}".format(i)))
    for n in kw_names:
        t = Tok("k:" + n)
        kwargs[n] = t
        bound[n] = t
    for n in call.get("extra_kw", []):
        kwargs[n] = Tok("xk:" + n)
    for p in ps:
        if p["kind"] in ("po", "pk", "ko") and p["name"] not in bound and p.get("default"):
            bound[p["name"]] = defaults[p.get("dkey", p["name"])]
    return args, kwargs, bound


def _finish(res: Any) -> Any:
    if inspect.iscoroutine(res):
        return probe.drive(res)
    return res


def construct(loaded, model: Model, cls: str, truth: Optional[Dict[str, Any]] = None,
              body: Optional[Dict[str, Any]] = None, call: Optional[Dict[str, Any]] = None) -> Obs:
    hub = loaded.hub
    obs = Obs()
    cls_obj = loaded.get(cls)
    if cls_obj is None:
        obs.setup_error = "class {} was not created: {!r}".format(cls, hub.creation_errors.get(cls))
        return obs
    hub.reset()
    hub.truth = dict(truth or {})
    hub.body_script = dict(body or {})
    args, kwargs, bound = [], {}, {}
    for key in ("__new__", "__init__"):
        o = model.owner(cls, key)
        if o is not None:
            m = model.defines(o, key)
            a, k, b = build_args(m["params"], call or {}, True, loaded.module.DFLT)
            if key == "__init__" or model.owner(cls, "__init__") is None:
                args, kwargs = a, k
            bound.update(b)
    obs.args, obs.kwargs, obs.bound = tuple(args), kwargs, bound
    obs.first = ("ctor", cls_obj)
    try:
        obs.value = cls_obj(*args, **kwargs)
        obs.returned = True
        obs.instance = obs.value
        obs.bound["self"] = obs.value
    except BaseException as err:  # pylint: disable=broad-except
        obs.exc = err
    obs.events = hub.events
    return obs


def perform(loaded, model: Model, call: Dict[str, Any], instance: Any = None) -> Obs:
    """Run one call. For member calls a fresh, fully constructed instance is made first unless one is given."""
    hub = loaded.hub
    target = call["target"]
    if target == "construct":
        return construct(loaded, model, call["cls"], call.get("truth"), call.get("body"), call)
    obs = Obs()
    with warnings.catch_warnings():
        warnings.simplefilter("ignore", RuntimeWarning)
        if target == "func":
            m = model.funcs[call["name"]]
            fn = loaded.get(call["name"])
            if fn is None:
                obs.setup_error = "function {} was not defined: {!r}".format(call["name"], hub.creation_errors.get(call["name"]))
                return obs
            args, kwargs, bound = build_args(m["params"], call, False, loaded.module.DFLT)
            hub.reset()
            hub.truth = dict(call.get("truth", {}))
            hub.body_script = dict(call.get("body", {}))
            obs.args, obs.kwargs, obs.bound = tuple(args), kwargs, bound
            try:
                obs.value = _finish(fn(*args, **kwargs))
                obs.returned = True
            except BaseException as err:  # pylint: disable=broad-except
                obs.exc = err
            obs.events = hub.events
            return obs

        cls = call["cls"]
        cls_obj = loaded.get(cls)
        if cls_obj is None:
            obs.setup_error = "class {} was not created: {!r}".format(cls, hub.creation_errors.get(cls))
            return obs
        if target == "setattr":
            key = None
            m = None
        else:
            key = call["key"]
            o = model.owner(cls, key)
            m = model.defines(o, key)
        via_class = call.get("via") == "class" and m is not None and m["kind"] in ("static", "class")
        if instance is None and not via_class:
            c_obs = construct(loaded, model, cls)
            if not c_obs.returned:
                obs.setup_error = "constructing {} failed: {!r}".format(cls, c_obs.exc)
                return obs
            instance = c_obs.instance
        obs.instance = instance
        hub.reset()
        hub.truth = dict(call.get("truth", {}))
        hub.body_script = dict(call.get("body", {}))
        try:
            if target == "setattr":
                val = Tok("attr")
                obs.bound = {"self": instance}
                setattr(instance, call.get("attr", "some_attr"), val)
                obs.returned = True
            else:
                kind = m["kind"]
                holder = cls_obj if via_class else instance
                if kind in ACCESSORS:
                    obs.first = ("is", instance)
                    obs.bound = {"self": instance}
                    if kind == "pget":
                        obs.value = getattr(instance, m["name"])
                    elif kind == "pset":
                        val = Tok("a:value")
                        obs.bound[m["params"][1]["name"]] = val
                        obs.args = (val,)
                        setattr(instance, m["name"], val)
                    else:
                        delattr(instance, m["name"])
                    obs.returned = True
                else:
                    skip = kind in ("method", "class")
                    args, kwargs, bound = build_args(m["params"], call, skip, loaded.module.DFLT)
                    if kind == "method":
                        bound[m["params"][0]["name"]] = instance
                        if not call.get("self_kw"):
                            obs.first = ("is", instance)
                    elif kind == "class":
                        bound[m["params"][0]["name"]] = cls_obj
                        obs.first = ("is", cls_obj)
                    obs.args, obs.kwargs, obs.bound = tuple(args), kwargs, bound
                    if call.get("unbound") and kind == "method":
                        fn = getattr(cls_obj, m["name"])
                        if call.get("self_kw"):
                            kwargs = dict(kwargs)
                            kwargs[m["params"][0]["name"]] = instance
                            obs.value = _finish(fn(*args, **kwargs))
                        else:
                            obs.value = _finish(fn(instance, *args, **kwargs))
                    elif m["name"].startswith("__") and m["name"].endswith("__") and m["name"] in DUNDER_OPS:
                        obs.value = _finish(DUNDER_OPS[m["name"]](holder, *args, **kwargs))
                    else:
                        obs.value = _finish(getattr(holder, m["name"])(*args, **kwargs))
                    obs.returned = True
        except BaseException as err:  # pylint: disable=broad-except
            obs.exc = err
        obs.events = hub.events
    return obs


DUNDER_OPS = {
    "__call__": lambda o, *a, **k: o(*a, **k),
    "__len__": lambda o: o.__len__(),
    "__getitem__": lambda o, i: o[i],
    "__contains__": lambda o, i: o.__contains__(i),
    "__enter__": lambda o: o.__enter__(),
    "__lt__": lambda o, other: o.__lt__(other),
    "__add__": lambda o, other: o + other,
    "__iter__": lambda o: o.__iter__(),
    "__abs__": lambda o: abs(o),
    "__neg__": lambda o: -o,
}


def expected_for(model: Model, call: Dict[str, Any]) -> Expected:
    truth = call.get("truth", {})
    body = call.get("body", {})
    if call["target"] == "func":
        return model.expect_function_call(call["name"], truth, body.get(call["name"], body.get("*", {})))
    if call["target"] == "construct":
        return model.expect_construction(call["cls"], truth, body)
    if call["target"] == "setattr":
        return model.expect_setattr(call["cls"], truth)
    o = model.owner(call["cls"], call["key"])
    m = model.defines(o, call["key"])
    mid = "{}_{}".format(o, m["name"] if m["kind"] not in ACCESSORS else "{}_{}".format(m["name"], m["kind"][1:]))
    return model.expect_member_call(call["cls"], call["key"], truth, body.get(mid, body.get("*", {})))


def dedup(keys: List[Tuple[str, str]]) -> List[Tuple[str, str]]:
    seen = set()
    out = []
    for k in keys:
        if k[0] in ("cond", "inv", "snap", "error") and k in seen:
            continue
        seen.add(k)
        out.append(k)
    return out


def align(okeys: List[Tuple[str, str]], exp: Expected) -> Tuple[List[Tuple[str, str]], List[Tuple[str, str]]]:
    """Reduce observed and expected event lists to comparable form: optional expected events that did not happen are
    dropped; for diamonds (one evaluation per inheritance path allowed) both sides are compared modulo repetition."""
    required = [e[:2] for e in exp.events if len(e) == 2]
    if exp.has_dups:
        # error-factory calls are judged through the identity of the raised error in this mode
        return dedup([k for k in okeys if k[0] != "error"]), dedup([k for k in required if k[0] != "error"])
    out_e = []  # type: List[Tuple[str, str]]
    j = 0
    for e in exp.events:
        if len(e) == 3:
            if j < len(okeys) and okeys[j] == e[:2]:
                out_e.append(e[:2])
                j += 1
            continue
        out_e.append(e[:2])
        if j < len(okeys) and okeys[j] == e[:2]:
            j += 1
        else:
            # mismatch: keep the remaining required events and stop aligning
            j = len(okeys) + 1
    return list(okeys), out_e


class Discrepancy:
    def __init__(self, kind: str, what: str, **info: Any) -> None:
        self.kind = kind
        self.what = what
        self.info = info

    def __repr__(self) -> str:
        return "{}: {}".format(self.kind, self.what)


def compare(loaded, model: Model, contracts: Dict[str, Dict[str, Any]], call: Dict[str, Any], exp: Expected, obs: Obs,
            check_identity: bool = True) -> List[Discrepancy]:
    """The general monitor: events, outcome, error identity, argument/result/OLD identity."""
    import icontract  # pylint: disable=import-outside-toplevel

    hub = loaded.hub
    out = []  # type: List[Discrepancy]
    if obs.setup_error:
        return [Discrepancy("setup", obs.setup_error)]

    okeys = obs.keys()
    cmp_o, cmp_e = align(okeys, exp)
    if exp.outcome[0] == "raise_body" and cmp_o[: len(cmp_e)] == cmp_e and all(k[0] == "inv" for k in cmp_o[len(cmp_e):]):
        # invariants evaluated after a body that raised are a silent zone
        cmp_o = cmp_o[: len(cmp_e)]
    if cmp_o != cmp_e:
        # find first divergence
        i = 0
        while i < len(cmp_o) and i < len(cmp_e) and cmp_o[i] == cmp_e[i]:
            i += 1
        body_exp = any(k[0] == "body" for k in cmp_e)
        body_obs = any(k[0] == "body" for k in cmp_o)
        out.append(Discrepancy(
            "events",
            "event trace diverges at #{}: expected {} observed {}".format(
                i, cmp_e[i] if i < len(cmp_e) else "<end>", cmp_o[i] if i < len(cmp_o) else "<end>"),
            index=i, body_expected=body_exp, body_observed=body_obs,
            expected_at=cmp_e[i] if i < len(cmp_e) else None, observed_at=cmp_o[i] if i < len(cmp_o) else None))

    kind, ref = exp.outcome
    if kind == "return":
        if not obs.returned:
            out.append(Discrepancy("outcome", "expected a normal return, got {}: {}".format(
                type(obs.exc).__name__, str(obs.exc)[:300]), exc_type=type(obs.exc).__name__))
        elif check_identity and call["target"] in ("func", "member") and call.get("key", "").split(".")[-1] not in ("pset", "pdel"):
            if hub.last_body_result is not obs.value and any(k[0] == "body" for k in okeys):
                out.append(Discrepancy("result-identity", "caller received {!r}, body returned {!r}".format(
                    obs.value, hub.last_body_result)))
    elif kind == "raise_body":
        if obs.returned:
            out.append(Discrepancy("outcome", "body raised {} but the call returned {!r}".format(ref, obs.value)))
        elif obs.exc is not hub.last_body_exc:
            out.append(Discrepancy("exception-identity", "body raised {!r} but the caller got {}: {}".format(
                hub.last_body_exc, type(obs.exc).__name__, str(obs.exc)[:300]), exc_type=type(obs.exc).__name__))
    elif kind == "violation":
        c = contracts[ref]
        if obs.returned:
            out.append(Discrepancy("outcome", "expected the error of contract {} but the call returned {!r}".format(
                ref, obs.value), contract=ref))
        else:
            err = c.get("err", "default")
            exc = obs.exc
            ok = False
            if err == "default":
                ok = type(exc) is icontract.ViolationError and ("D:" + ref + ":") in str(exc)
            elif err == "class":
                ok = type(exc) is hub.errclasses.get(ref) and ("D:" + ref + ":") in str(exc)
            elif err == "instance":
                ok = exc is hub.errinsts.get(ref)
            elif err in ("factory", "method"):
                made = hub.factory_made.get(ref, [])
                ok = (len(made) == 1 or (exp.has_dups and len(made) >= 1)) and exc is made[-1]
            if not ok:
                out.append(Discrepancy("error-identity", "expected the {} error of contract {}, got {}: {}".format(
                    err, ref, type(exc).__name__, str(exc)[:400]), contract=ref, exc_type=type(exc).__name__))
    elif kind == "async_on_sync":
        if obs.returned or type(obs.exc) is not ValueError:
            out.append(Discrepancy("outcome", "coroutine condition/capture {} on a sync callable must raise ValueError, got {}".format(
                ref, "return {!r}".format(obs.value) if obs.returned else "{}: {}".format(type(obs.exc).__name__, obs.exc)),
                contract=ref))

    if check_identity:
        out.extend(identity_checks(loaded, contracts, obs))
    return out


def identity_checks(loaded, contracts: Dict[str, Dict[str, Any]], obs: Obs) -> List[Discrepancy]:
    """Every probe must have received, for each named parameter, the very object the call was made with."""
    import icontract._checkers  # pylint: disable=import-outside-toplevel

    hub = loaded.hub
    out = []  # type: List[Discrepancy]
    body_seen = False
    for ev in obs.events:
        if ev.kind == "body":
            body_seen = True
        if ev.kind not in ("cond", "snap", "error", "body") or ev.got is None:
            continue
        for name, val in ev.got.items():
            if name == "_ARGS":
                rest = val
                first_ok = True
                if obs.first is not None and isinstance(val, tuple):
                    first_ok = len(val) >= 1 and (val[0] is obs.first[1] if obs.first[0] == "is" else (
                        val[0] is obs.first[1] or isinstance(val[0], obs.first[1])))
                    rest = val[1:]
                if not (first_ok and isinstance(rest, tuple) and len(rest) == len(obs.args) and all(a is b for a, b in zip(rest, obs.args))):
                    out.append(Discrepancy("arg-identity", "{} {} got _ARGS={!r}, call had {!r}".format(ev.kind, ev.id, val, obs.args)))
            elif name == "_KWARGS":
                if not (isinstance(val, dict) and set(val) == set(obs.kwargs) and all(val[k] is obs.kwargs[k] for k in val)):
                    out.append(Discrepancy("arg-identity", "{} {} got _KWARGS={!r}, call had {!r}".format(ev.kind, ev.id, val, obs.kwargs)))
            elif name == "result":
                if val is not hub.last_body_result:
                    out.append(Discrepancy("result-identity", "{} {} got result={!r}, body returned {!r}".format(
                        ev.kind, ev.id, val, hub.last_body_result)))
            elif name == "OLD":
                if not isinstance(val, icontract._checkers.Old):
                    out.append(Discrepancy("old-identity", "{} {} got OLD={!r}".format(ev.kind, ev.id, val)))
                else:
                    have = dict(vars(val))
                    want = {}
                    for sid, tok in hub.captured.items():
                        s = contracts.get(sid, {})
                        nm = s.get("name") or (s.get("args") or [sid])[0]
                        want[nm] = tok
                    if set(have) != set(want) or any(have[k] is not want[k] for k in have):
                        out.append(Discrepancy("old-identity", "{} {} saw OLD {!r}, captures returned {!r}".format(
                            ev.kind, ev.id, have, want)))
            elif name in obs.bound:
                if val is not obs.bound[name]:
                    out.append(Discrepancy("arg-identity", "{} {} got {}={!r}, the call bound {!r}".format(
                        ev.kind, ev.id, name, val, obs.bound[name]), name=name, probe=ev.kind))
    return out


def run_case(loaded, model: Model, contracts: Dict[str, Dict[str, Any]], call: Dict[str, Any],
             check_identity: bool = True) -> Tuple[Expected, Obs, List[Discrepancy]]:
    exp = expected_for(model, call)
    obs = perform(loaded, model, call)
    return exp, obs, compare(loaded, model, contracts, call, exp, obs, check_identity)


def check_definitions(loaded, model: Model) -> List[Discrepancy]:
    """Class-creation verdicts: rejected iff the model says so, with the documented exception type."""
    out = []
    hub = loaded.hub
    for cls in model.classes:
        want = model.class_rejection(cls)
        err = hub.creation_errors.get(cls)
        if want == "ambiguous":
            continue
        if want is None and err is not None:
            out.append(Discrepancy("definition", "class {} must be creatable but raised {}: {}".format(
                cls, type(err).__name__, str(err)[:300]), cls=cls, exc_type=type(err).__name__))
        elif want is not None and err is None:
            out.append(Discrepancy("definition", "class {} must be rejected with {} but was created".format(cls, want), cls=cls))
        elif want is not None and type(err).__name__ != want:
            out.append(Discrepancy("definition", "class {} must be rejected with {} but raised {}: {}".format(
                cls, want, type(err).__name__, str(err)[:300]), cls=cls, exc_type=type(err).__name__))
    return out
