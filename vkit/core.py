"""Shared runner: repo import, workers, sharding, verdicts, known findings, evidence."""
import hashlib
import importlib
import json
import os
import random
import shutil
import subprocess
import sys
import tempfile
import time
import traceback
from typing import Any, Dict, List, Optional

VERIF_DIR = os.path.dirname(os.path.dirname(os.path.abspath(__file__)))
REPO = os.path.abspath(os.environ.get("VERIF_REPO", "/repo"))
PYTHON = os.environ.get("VERIF_PYTHON", "/venv/bin/python")
if not os.path.exists(PYTHON):
    PYTHON = sys.executable

LEVELS = (
    "exploration",
    "fault_enumeration",
    "model_checking",
    "proof",
    "translation_validation",
    "other",
)


def import_icontract():
    """Import icontract from the working tree of the repository (never from site-packages)."""
    if sys.path[0] != REPO:
        sys.path.insert(0, REPO)
    import icontract  # pylint: disable=import-outside-toplevel

    where = os.path.abspath(icontract.__file__)
    if not where.startswith(REPO + os.sep):
        raise RuntimeError(
            "icontract imported from {} instead of {}".format(where, REPO)
        )
    return icontract


def digest(obj: Any) -> str:
    return hashlib.sha1(
        json.dumps(obj, sort_keys=True, default=repr).encode()
    ).hexdigest()[:16]


def jsonable(obj: Any, depth: int = 0) -> Any:
    """Best-effort conversion to something json.dump accepts."""
    if depth > 12:
        return repr(obj)[:200]
    if obj is None or isinstance(obj, (bool, int, float, str)):
        return obj
    if isinstance(obj, dict):
        return {str(k): jsonable(v, depth + 1) for k, v in obj.items()}
    if isinstance(obj, (list, tuple)):
        return [jsonable(v, depth + 1) for v in obj]
    if isinstance(obj, (set, frozenset)):
        return sorted((jsonable(v, depth + 1) for v in obj), key=repr)
    return repr(obj)[:300]


class Worker:
    """State of one worker process (one shard of one check)."""

    MAX_VIOL_PER_KEY = 3
    MAX_SAMPLES = 4

    def __init__(self, prop: str, tier: str, seed: int, shard: int, nshards: int):
        self.prop = prop
        self.tier = tier
        self.seed = seed
        self.shard = shard
        self.nshards = nshards
        self.rng = random.Random("{}/{}/{}/{}".format(prop, tier, seed, shard))
        self.counters = {}  # type: Dict[str, int]
        self.sets = {}  # type: Dict[str, set]
        self.samples = []  # type: List[Any]
        self._nsample_offers = 0
        self.violations = []  # type: List[Dict[str, Any]]
        self.viol_counts = {}  # type: Dict[str, int]
        self.inconclusive = []  # type: List[str]
        self.notes = {}  # type: Dict[str, Any]
        self.exhaustive = None  # type: Optional[bool]
        self._scratch = None  # type: Optional[str]
        self.t0 = time.time()

    # -- bookkeeping ----------------------------------------------------------------------
    def count(self, name: str, n: int = 1) -> None:
        self.counters[name] = self.counters.get(name, 0) + n

    def distinct(self, name: str, key: Any) -> None:
        s = self.sets.get(name)
        if s is None:
            s = self.sets[name] = set()
        if not isinstance(key, str):
            key = json.dumps(jsonable(key), sort_keys=True)
        if len(key) > 24:
            key = hashlib.sha1(key.encode()).hexdigest()[:16]
        s.add(key)

    def case(self, nontrivial_key: Any = None) -> None:
        """Count one executed case; if ``nontrivial_key`` is given it counts as distinct non-trivial."""
        self.count("evaluations")
        if nontrivial_key is not None:
            self.distinct("nontrivial", nontrivial_key)

    def sample(self, obj: Any) -> None:
        """Keep a few written-out cases (first two, then reservoir)."""
        self._nsample_offers += 1
        if len(self.samples) < self.MAX_SAMPLES:
            self.samples.append(jsonable(obj))
        else:
            j = self.rng.randrange(self._nsample_offers)
            if 2 <= j < self.MAX_SAMPLES:
                self.samples[j] = jsonable(obj)

    def violation(self, key: str, what: str, case: Any, detail: Any = None) -> None:
        """Record a violation; ``key`` is the mechanism key computed by the check's classifier."""
        self.viol_counts[key] = self.viol_counts.get(key, 0) + 1
        if self.viol_counts[key] <= self.MAX_VIOL_PER_KEY:
            self.violations.append(
                {
                    "property": self.prop,
                    "key": key,
                    "what": what,
                    "case": jsonable(case),
                    "detail": jsonable(detail),
                }
            )
            # (a shard that is killed by the wall-clock watchdog later on - a broken tree may make everything slow - still hands
            # over what it has found so far)
            self.dump_partial()

    def dump_partial(self) -> None:
        out = getattr(self, "out_path", None)
        if not out:
            return
        try:
            res = self.dump()
            res["exhaustive"] = False
            tmp = out + ".partial"
            with open(tmp, "w") as fid:
                json.dump(res, fid)
            os.replace(tmp, out)
        except Exception:  # pylint: disable=broad-except
            pass

    def mark_inconclusive(self, reason: str) -> None:
        if reason not in self.inconclusive:
            self.inconclusive.append(reason)

    def scratch(self) -> str:
        if self._scratch is None:
            self._scratch = tempfile.mkdtemp(prefix="vkit_{}_".format(self.prop))
        return self._scratch

    def cleanup(self) -> None:
        if self._scratch is not None:
            shutil.rmtree(self._scratch, ignore_errors=True)
            self._scratch = None

    def take(self, items, exhaustive_core=None):
        """Shard an iterable deterministically (round robin)."""
        for i, item in enumerate(items):
            if i % self.nshards == self.shard:
                yield item

    def dump(self) -> Dict[str, Any]:
        return {
            "counters": self.counters,
            "sets": {k: sorted(v) for k, v in self.sets.items()},
            "samples": self.samples,
            "violations": self.violations,
            "viol_counts": self.viol_counts,
            "inconclusive": self.inconclusive,
            "notes": jsonable(self.notes),
            "exhaustive": self.exhaustive,
            "wall_s": time.time() - self.t0,
        }


def load_check(prop: str):
    return importlib.import_module("vkit.checks.{}".format(prop.lower()))


def worker_main(prop: str, tier: str, seed: int, shard: int, nshards: int, out: str) -> int:
    mod = load_check(prop)
    w = Worker(prop, tier, seed, shard, nshards)
    w.out_path = out
    cov = None
    try:
        import_icontract()
        if os.environ.get("VERIF_NO_ANCHORS") != "1":
            from vkit import anchors  # pylint: disable=import-outside-toplevel

            cov = anchors.start(prop)
        mod.run(w)
    except BaseException as err:  # pylint: disable=broad-except
        w.mark_inconclusive(
            "worker crashed: {}: {}\n{}".format(
                type(err).__name__, err, traceback.format_exc()[-2000:]
            )
        )
    finally:
        w.cleanup()
    res = w.dump()
    if cov is not None:
        res["anchors"] = cov.report()
    with open(out, "w") as fid:
        json.dump(res, fid)
    return 0


def load_known_findings() -> List[Dict[str, Any]]:
    path = os.path.join(VERIF_DIR, "known_findings.json")
    if not os.path.exists(path):
        return []
    with open(path) as fid:
        return json.load(fid)["findings"]


def check_main(prop: str, tier: str, seed: int, nshards: Optional[int] = None) -> int:
    """Run one check: spawn the shards, merge, judge, write evidence. Return the exit code."""
    t0 = time.time()
    mod = load_check(prop)
    if nshards is None:
        nshards = mod.SHARDS.get(tier, 1)
    timeout = mod.TIMEOUT.get(tier, 600) if hasattr(mod, "TIMEOUT") else (
        300 if tier == "quick" else 3600
    )
    tmpdir = tempfile.mkdtemp(prefix="vkit_main_{}_".format(prop))
    procs = []
    env = dict(os.environ)
    env["PYTHONHASHSEED"] = env.get("PYTHONHASHSEED", "0")
    env["VERIF_REPO"] = REPO
    env["PYTHONPATH"] = VERIF_DIR
    env["PYTHONDONTWRITEBYTECODE"] = "1"
    for shard in range(nshards):
        out = os.path.join(tmpdir, "shard{}.json".format(shard))
        cmd = [
            PYTHON, "-m", "vkit", "worker", prop, "--tier", tier, "--seed", str(seed),
            "--shard", str(shard), "--nshards", str(nshards), "--out", out,
        ]
        log = open(os.path.join(tmpdir, "shard{}.log".format(shard)), "w")
        procs.append(
            (shard, out, log, subprocess.Popen(cmd, cwd=VERIF_DIR, env=env, stdout=log, stderr=subprocess.STDOUT))
        )

    merged = Worker(prop, tier, seed, 0, nshards)
    anchors_merged = {}  # type: Dict[str, Dict[str, int]]
    deadline = t0 + timeout
    exhaustive_flags = []
    for shard, out, log, proc in procs:
        try:
            proc.wait(timeout=max(1.0, deadline - time.time()))
        except subprocess.TimeoutExpired:
            proc.kill()
            proc.wait()
            merged.mark_inconclusive("shard {} hit the wall-clock watchdog ({} s)".format(shard, timeout))
        log.close()
        if not os.path.exists(out):
            tail = ""
            try:
                with open(log.name) as fid:
                    tail = fid.read()[-1500:]
            except OSError:
                pass
            merged.mark_inconclusive("shard {} produced no result (exit {}): {}".format(shard, proc.returncode, tail))
            continue
        with open(out) as fid:
            res = json.load(fid)
        for k, v in res["counters"].items():
            merged.count(k, v)
        for k, v in res["sets"].items():
            merged.sets.setdefault(k, set()).update(v)
        for s in res["samples"]:
            if len(merged.samples) < 5:
                merged.samples.append(s)
        for v in res["violations"]:
            merged.violations.append(v)
        for k, v in res["viol_counts"].items():
            merged.viol_counts[k] = merged.viol_counts.get(k, 0) + v
        for r in res["inconclusive"]:
            merged.mark_inconclusive(r)
        for k, v in res["notes"].items():
            merged.notes.setdefault(k, v)
        exhaustive_flags.append(res["exhaustive"])
        for k, v in res.get("anchors", {}).items():
            cur = anchors_merged.setdefault(k, {"lines": 0, "hit": []})
            cur["lines"] = v["lines"]
            cur["hit"] = sorted(set(cur["hit"]) | set(v["hit"]))
    shutil.rmtree(tmpdir, ignore_errors=True)

    # deciding counters must be non-zero
    for name in getattr(mod, "DECIDING", []):
        if merged.counters.get(name, 0) == 0:
            merged.mark_inconclusive("deciding monitor never reached: counter {!r} is zero".format(name))

    # judge violations against the known findings
    known = [k for k in load_known_findings() if k["property"] == prop]
    open_keys = {k["key"]: k for k in known if k["status"] == "open"}
    exit_code = 0
    reported = set()
    known_hits = {}
    new_violation_keys = {}
    replay_dir = os.path.join(VERIF_DIR, "replays", prop)
    for v in merged.violations:
        key = v["key"]
        if key in open_keys:
            known_hits[key] = known_hits.get(key, 0) + 1
            if key not in reported:
                reported.add(key)
                print("KNOWN-FINDING: property={} {} [{}] (x{})".format(
                    prop, open_keys[key]["what"], key, merged.viol_counts.get(key, 1)))
            continue
        os.makedirs(replay_dir, exist_ok=True)
        path = os.path.join(replay_dir, "{}.json".format(digest(v)))
        with open(path, "w") as fid:
            json.dump({"property": prop, "tier": tier, "seed": seed, **v}, fid, indent=1)
        new_violation_keys[key] = new_violation_keys.get(key, 0) + 1
        if new_violation_keys[key] <= 2:
            print("VIOLATION property={} replay={}".format(prop, path))
            print("  key={} what={}".format(key, v["what"][:400]))
        exit_code = 1

    if exit_code == 0 and merged.inconclusive:
        for r in merged.inconclusive:
            print("INCONCLUSIVE property={} reason={}".format(prop, r[:1500]))
        exit_code = 2

    evaluations = merged.counters.get("evaluations", 0)
    nontrivial = len(merged.sets.get("nontrivial", ()))
    coverage = {
        "evaluations": evaluations,
        "distinct_nontrivial": nontrivial,
        "rule": getattr(mod, "RULE", ""),
        "samples": merged.samples,
        "exhaustive": bool(exhaustive_flags) and all(bool(x) for x in exhaustive_flags),
        "counters": dict(sorted(merged.counters.items())),
        "distinct": {k: len(v) for k, v in sorted(merged.sets.items())},
        "violations_by_key": merged.viol_counts,
        "known_findings_observed": known_hits,
        "inconclusive": merged.inconclusive,
        "shards": nshards,
        "anchors": {
            k: "{}/{} lines executed".format(len(v["hit"]), v["lines"]) for k, v in sorted(anchors_merged.items())
        },
        "notes": merged.notes,
    }
    if hasattr(mod, "EXPLANATION"):
        coverage["explanation"] = mod.EXPLANATION
    evidence = {
        "property_id": prop,
        "tier": tier,
        "seed": seed,
        "level": mod.LEVEL,
        "coverage": coverage,
        "assumptions": getattr(mod, "ASSUMPTIONS", []),
        "wall_s": round(time.time() - t0, 2),
        "violations": sum(new_violation_keys.values()),
    }
    if os.environ.get("VERIF_NO_EVIDENCE") != "1":
        os.makedirs(os.path.join(VERIF_DIR, "evidence"), exist_ok=True)
        with open(os.path.join(VERIF_DIR, "evidence", "{}.json".format(prop)), "w") as fid:
            json.dump(evidence, fid, indent=1, sort_keys=True)
            fid.write("\n")

    verdict = {0: "held on what was observed", 1: "VIOLATED", 2: "INCONCLUSIVE"}[exit_code]
    print("{} {} tier={} seed={}: {} cases, {} distinct non-trivial, {} s -> {}".format(
        prop, mod.LEVEL, tier, seed, evaluations, nontrivial, evidence["wall_s"], verdict))
    interesting = {k: v for k, v in sorted(merged.counters.items()) if k != "evaluations"}
    if interesting:
        print("  observed: " + ", ".join("{}={}".format(k, v) for k, v in list(interesting.items())[:24]))
    return exit_code


def replay_main(path: str) -> int:
    with open(path) as fid:
        rec = json.load(fid)
    prop = rec["property"]
    mod = load_check(prop)
    import_icontract()
    w = Worker(prop, rec.get("tier", "quick"), rec.get("seed", 0), 0, 1)
    try:
        mod.replay(rec["case"], w)
    finally:
        w.cleanup()
    if w.violations:
        for v in w.violations:
            print("REPRODUCED property={} key={} what={}".format(prop, v["key"], v["what"][:600]))
        return 1
    print("NOT REPRODUCED property={} (case ran clean)".format(prop))
    return 0
