"""Executable reference semantics of the properties (written from the statements; does not import icontract).

Given a program spec (see vkit.prog) it answers:
  * which class definitions must be rejected (and with which exception type);
  * the effective precondition groups / postconditions / snapshots / invariants of every member on every class;
  * for a call with a truth assignment and a body script: the exact expected event sequence and outcome.
"""
from typing import Any, Dict, List, Optional, Tuple

from vkit.probe import truth_bool

ACCESSORS = ("pget", "pset", "pdel")
CTOR_KINDS = ("init", "new")


def mkey(m: Dict[str, Any]) -> str:
    if m["kind"] in ACCESSORS:
        return "{}.{}".format(m["name"], m["kind"])
    return m["name"]


def decos_of(m: Dict[str, Any], kind: str) -> List[Dict[str, Any]]:
    return [c for dk, c in m.get("decos", []) if dk == kind]


def is_public(name: str) -> bool:
    return not name.startswith("_") or (name.startswith("__") and name.endswith("__"))


class Expected:
    def __init__(self) -> None:
        self.events = []  # type: List[Tuple[str, str]]
        self.outcome = ("return", None)  # type: Tuple[str, Optional[str]]
        self.has_dups = False
        self.constructing_invs = False

    def __repr__(self) -> str:
        return "Expected({}, {})".format(self.events, self.outcome)


def unique_by_id(items: List[Dict[str, Any]]) -> List[Dict[str, Any]]:
    """First occurrences, in order (a contract inherited along two paths is one contract)."""
    seen = set()
    out = []
    for it in items:
        if it["id"] not in seen:
            seen.add(it["id"])
            out.append(it)
    return out


class Model:
    def __init__(self, prog: Dict[str, Any]) -> None:
        self.prog = prog
        self.classes = {c["name"]: c for c in prog.get("classes", [])}
        self.funcs = {m["name"]: m for m in prog.get("funcs", [])}
        self._py = {}  # type: Dict[str, type]
        self._rejected = {}  # type: Dict[str, Optional[str]]
        for c in prog.get("classes", []):
            bases = tuple(self._py[b] for b in c.get("bases", []) if b in self._py)
            ns = {}  # type: Dict[str, Any]
            for m in c.get("members", []):
                ns[m["name"]] = (c["name"], m["name"])
            self._py[c["name"]] = type(c["name"], bases, ns)

    # -- structure ------------------------------------------------------------------------
    def mro(self, cls: str) -> List[str]:
        return [k.__name__ for k in self._py[cls].__mro__ if k.__name__ in self.classes]

    def bases(self, cls: str) -> List[str]:
        return list(self.classes[cls].get("bases", []))

    def defines(self, cls: str, key: str) -> Optional[Dict[str, Any]]:
        for m in self.classes[cls].get("members", []):
            if mkey(m) == key:
                return m
        return None

    def defines_name(self, cls: str, name: str) -> bool:
        return any(m["name"] == name for m in self.classes[cls].get("members", []))

    def owner(self, cls: str, key: str) -> Optional[str]:
        """The class whose function Python's attribute lookup finds for ``key`` on ``cls``."""
        name = key.split(".")[0]
        for k in self.mro(cls):
            if self.defines_name(k, name):
                # the attribute found is k's; for properties the accessor must exist on that property
                if self.defines(k, key) is not None:
                    return k
                if any(m["name"] == name and m.get("ext_of") for m in self.classes[k].get("members", [])):
                    # k derived its property from a base's property object (@Base.name.setter): the accessors it does
                    # not define itself are the base's
                    continue
                return None
        return None

    def copy_shadow(self, cls: str, key: str) -> Optional[str]:
        """Name of a class on the MRO of ``cls`` whose *copy* of an inherited member would be found before the class that
        really provides ``key`` for ``cls`` - or None.

        (icontract installs wrappers of inherited members on a class that has invariants when the member it inherits is not
        wrapped yet, i.e. comes from classes without invariants. Python's attribute lookup then finds that copy first.)
        """
        name = key.split(".")[0]
        real = self.owner(cls, key)
        for k in self.mro(cls):
            if self.defines_name(k, name):
                return None
            if k == cls:
                continue
            ok = self.owner(k, key)
            if self.eff_invs(k) and ok is not None and not self.eff_invs(ok):
                return k if ok != real else None
        return None

    def is_dbc(self, cls: str) -> bool:
        return any(self.classes[k].get("dbc", True) for k in self.mro(cls))

    # -- effective contracts --------------------------------------------------------------
    def eff_pre(self, cls: str, key: str) -> List[List[Dict[str, Any]]]:
        """Precondition groups of the function that class ``cls`` itself defines. [] = accepts every call."""
        m = self.defines(cls, key)
        assert m is not None
        own = decos_of(m, "pre")
        own_groups = [own] if own else []
        if m["kind"] in CTOR_KINDS or not self.is_dbc(cls):
            return own_groups
        groups = []  # type: List[List[Dict[str, Any]]]
        provided = False
        accept_all = False
        for b in self.bases(cls):
            o = self.owner(b, key)
            if o is None:
                continue
            provided = True
            g = self.eff_pre(o, key)
            if not g:
                accept_all = True
            groups.extend(g)
        if not provided:
            return own_groups
        if accept_all:
            return []
        # the same group reached along two inheritance paths (a diamond) is one group: every condition function is
        # called at most once per check
        out = []  # type: List[List[Dict[str, Any]]]
        seen = set()
        for g in groups + own_groups:
            sig = tuple(c["id"] for c in g)
            if sig not in seen:
                seen.add(sig)
                out.append(g)
        return out

    def eff_post(self, cls: str, key: str) -> List[Dict[str, Any]]:
        m = self.defines(cls, key)
        assert m is not None
        own = decos_of(m, "post")
        if m["kind"] in CTOR_KINDS or not self.is_dbc(cls):
            return own
        res = []  # type: List[Dict[str, Any]]
        for b in self.bases(cls):
            o = self.owner(b, key)
            if o is not None:
                res.extend(self.eff_post(o, key))
        return unique_by_id(res + own)

    def eff_snaps(self, cls: str, key: str) -> List[Dict[str, Any]]:
        m = self.defines(cls, key)
        assert m is not None
        own = decos_of(m, "snap")
        if m["kind"] in CTOR_KINDS or not self.is_dbc(cls):
            return own
        res = []  # type: List[Dict[str, Any]]
        for b in self.bases(cls):
            o = self.owner(b, key)
            if o is not None:
                res.extend(self.eff_snaps(o, key))
        return unique_by_id(res + own)

    def eff_invs(self, cls: str) -> List[Dict[str, Any]]:
        res = []  # type: List[Dict[str, Any]]
        for b in self.bases(cls):
            res.extend(self.eff_invs(b))
        return unique_by_id(res + list(self.classes[cls].get("invs", [])))

    def invs_on(self, cls: str, event: str) -> List[Dict[str, Any]]:
        accepted = ("CALL", "ALL", "DEFAULT") if event == "CALL" else ("SETATTR", "ALL")
        return [i for i in self.eff_invs(cls) if i.get("check_on", "CALL") in accepted]

    def invs_around(self, cls: str, m: Dict[str, Any]) -> List[Dict[str, Any]]:
        """The invariants evaluated before and after the operation ``m`` performed from outside on an instance of ``cls``."""
        if m["kind"] == "pset" and self.invs_on(cls, "SETATTR"):
            # ``instance.p = value`` is an attribute assignment: with attribute-set checking requested it runs inside the
            # wrapped __setattr__ (a special method of the same object), whose invariants surround it; the setter is a
            # nested operation on the object (C10: unchecked), cf. the same rule in the C03 oracle
            return self.invs_on(cls, "SETATTR")
        if m["kind"] == "pdel" and not is_public(m["name"]):
            # ``del instance._p`` runs inside ``__delattr__`` - a special method like any other (the copy of object's default which
            # the class holds is wrapped), whatever the name of the attribute; the protected deleter itself is not wrapped
            return self.invs_on(cls, "CALL")
        return self.invs_on(cls, "CALL") if self.wrapped_for_invariants(m) else []

    # -- definition-time verdicts ---------------------------------------------------------
    def class_rejection(self, cls: str) -> Optional[str]:
        """None if the class must be created; else "TypeError" / "ValueError" / "ambiguous"."""
        if cls in self._rejected:
            return self._rejected[cls]
        res = None  # type: Optional[str]
        c = self.classes[cls]
        if self.is_dbc(cls):
            for m in c.get("members", []):
                if m["kind"] in CTOR_KINDS:
                    continue
                key = mkey(m)
                own = decos_of(m, "pre")
                provided = False
                any_group = False
                for b in self.bases(cls):
                    o = self.owner(b, key)
                    if o is None:
                        continue
                    provided = True
                    if self.eff_pre(o, key):
                        any_group = True
                if own and provided and not any_group:
                    res = "TypeError"
                    break
                names = [s.get("name") or (s["args"][0] if len(s["args"]) == 1 else None) for s in self.eff_snaps(cls, key)]
                if len(set(names)) != len(names):
                    # two DIFFERENT declarations with one name (the same declaration reached along two diamond paths
                    # is one snapshot, see eff_snaps)
                    res = "ValueError"
                    break
        self._rejected[cls] = res
        return res

    # -- run-time verdicts ----------------------------------------------------------------
    def _truth(self, truth: Dict[str, Any], evals: Dict[str, int], cid: str) -> bool:
        n = evals.get(cid, 0)
        evals[cid] = n + 1
        spec = truth.get(cid, True)
        if isinstance(spec, dict) and "seq" in spec:
            seq = spec["seq"]
            spec = seq[min(n, len(seq) - 1)]
        return truth_bool(spec)

    @staticmethod
    def _reeval(c: Dict[str, Any]) -> bool:
        """A violated lambda condition is evaluated once more to build its message (default and class errors)."""
        return c.get("form") == "lambda" and c.get("err", "default") in ("default", "class")

    def _violate(self, exp: Expected, c: Dict[str, Any], kind: str, discarded: bool = False) -> None:
        """Events of building the error of a falsy contract.

        The re-evaluation of a lambda is allowed, not required ("at most once more"). When the failing precondition
        group is followed by a group that holds, the error is built for nothing: the statement neither requires nor
        forbids that, so those events are optional as well.
        """
        if self._reeval(c):
            exp.events.append((kind, c["id"], "opt"))
        if c.get("err") in ("factory", "method"):
            if discarded:
                exp.events.append(("error", c["id"], "opt"))
            else:
                exp.events.append(("error", c["id"]))
        if not discarded:
            exp.outcome = ("violation", c["id"])

    def expect_contracts(
        self,
        exp: Expected,
        member: Dict[str, Any],
        mid: str,
        pre: List[List[Dict[str, Any]]],
        snaps: List[Dict[str, Any]],
        post: List[Dict[str, Any]],
        truth: Dict[str, Any],
        evals: Dict[str, int],
        body: Dict[str, Any],
    ) -> bool:
        """Append the events of pre -> snapshots -> body -> post. Return True iff the call returned normally."""
        is_async = member.get("async", False)
        last_fail = None  # type: Optional[Dict[str, Any]]
        for group in pre:
            if last_fail is not None:
                self._violate(exp, last_fail, "cond", discarded=True)
            last_fail = None
            for c in group:
                if not is_async and c.get("form") in ("adef", "aw"):
                    exp.outcome = ("async_on_sync", c["id"])
                    return False
                exp.events.append(("cond", c["id"]))
                if not self._truth(truth, evals, c["id"]):
                    last_fail = c
                    break
            if last_fail is None:
                break
        if last_fail is not None:
            self._violate(exp, last_fail, "cond")
            return False
        if post:
            for s in snaps:
                if not is_async and s.get("form") in ("adef", "aw"):
                    exp.outcome = ("async_on_sync", s["id"])
                    return False
                exp.events.append(("snap", s["id"]))
        exp.events.append(("body", mid))
        if "raise" in body:
            exp.outcome = ("raise_body", body["raise"])
            return False
        for c in post:
            if not is_async and c.get("form") in ("adef", "aw"):
                exp.outcome = ("async_on_sync", c["id"])
                return False
            exp.events.append(("cond", c["id"]))
            if not self._truth(truth, evals, c["id"]):
                self._violate(exp, c, "cond")
                return False
        return True

    def _inv_phase(self, exp: Expected, invs: List[Dict[str, Any]], truth: Dict[str, Any], evals: Dict[str, int]) -> bool:
        for inv in invs:
            exp.events.append(("inv", inv["id"]))
            if not self._truth(truth, evals, inv["id"]):
                self._violate(exp, inv, "inv")
                return False
        return True

    def wrapped_for_invariants(self, m: Dict[str, Any]) -> bool:
        if m["kind"] in ("static", "class", "new", "init", "function"):
            return False
        if m["name"] in ("__repr__", "__getattribute__", "__new__"):
            return False
        return is_public(m["name"])

    def expect_function_call(self, name: str, truth: Dict[str, Any], body: Dict[str, Any]) -> Expected:
        m = self.funcs[name]
        exp = Expected()
        pre = [decos_of(m, "pre")] if decos_of(m, "pre") else []
        self.expect_contracts(exp, m, name, pre, decos_of(m, "snap"), decos_of(m, "post"), truth, {}, body)
        return exp

    def expect_member_call(self, cls: str, key: str, truth: Dict[str, Any], body: Dict[str, Any]) -> Expected:
        """Expected trace of an operation ``key`` on a fully constructed instance of ``cls`` (or on the class)."""
        exp = Expected()
        evals = {}  # type: Dict[str, int]
        o = self.owner(cls, key)
        assert o is not None, (cls, key)
        m = self.defines(o, key)
        assert m is not None
        mid = "{}_{}".format(o, m["name"] if m["kind"] not in ACCESSORS else "{}_{}".format(m["name"], m["kind"][1:]))
        pre, snaps, post = self.eff_pre(o, key), self.eff_snaps(o, key), self.eff_post(o, key)
        ids = [c["id"] for g in pre for c in g] + [c["id"] for c in post] + [i["id"] for i in self.eff_invs(cls)]
        exp.has_dups = len(set(ids)) != len(ids)
        invs = self.invs_around(cls, m)
        if not self._inv_phase(exp, invs, truth, evals):
            return exp
        if not self.expect_contracts(exp, m, mid, pre, snaps, post, truth, evals, body):
            return exp
        self._inv_phase(exp, invs, truth, evals)
        return exp

    def expect_construction(self, cls: str, truth: Dict[str, Any], body: Dict[str, Any]) -> Expected:
        """Expected trace of ``cls(...)``: constructor contracts of the __new__/__init__ Python finds, then all invariants."""
        exp = Expected()
        evals = {}  # type: Dict[str, int]
        ids = [i["id"] for i in self.eff_invs(cls)]
        exp.has_dups = len(set(ids)) != len(ids)
        for key in ("__new__", "__init__"):
            o = self.owner(cls, key)
            if o is None:
                continue
            m = self.defines(o, key)
            assert m is not None
            mid = "{}_{}".format(o, key)
            b = body.get(mid, body.get("*", {})) if isinstance(body, dict) and ("*" in body or mid in body) else {}
            pre = [decos_of(m, "pre")] if decos_of(m, "pre") else []
            if not self.expect_contracts(exp, m, mid, pre, decos_of(m, "snap"), decos_of(m, "post"), truth, evals, b):
                return exp
        self._inv_phase(exp, self.eff_invs(cls), truth, evals)
        return exp

    def expect_setattr(self, cls: str, truth: Dict[str, Any]) -> Expected:
        """Expected trace of ``instance.attr = value`` from outside for a class without a Python-level __setattr__."""
        exp = Expected()
        evals = {}  # type: Dict[str, int]
        invs = self.invs_on(cls, "SETATTR")
        if not self._inv_phase(exp, invs, truth, evals):
            return exp
        self._inv_phase(exp, invs, truth, evals)
        return exp
