"""pytest plugin used by the C11 check: after every test of the repository's own suite no checked call is in flight any more, so the
library's in-progress variable must hold no live mark in the context of the test runner. Writes a JSON report at session end."""
import json
import os

import pytest

TESTS = [0]
LEFTOVERS = []


def _live_marks():
    import icontract._checkers as chk  # pylint: disable=import-outside-toplevel

    var = getattr(chk, "_IN_PROGRESS", None)
    if var is None:
        return None
    val = var.get()
    if not val:
        return []
    return [m for m in val if getattr(m, "active", True)]


@pytest.hookimpl(trylast=True)
def pytest_runtest_teardown(item, nextitem):  # pylint: disable=unused-argument
    live = _live_marks()
    if live is None:
        return
    TESTS[0] += 1
    if live:
        LEFTOVERS.append([item.nodeid, [[list(getattr(m, "flow", ())), getattr(m, "target", None)] for m in live]])
        for mark in live:  # so that the following tests are judged on their own
            if hasattr(mark, "active"):
                mark.active = False


def pytest_sessionfinish(session, exitstatus):  # pylint: disable=unused-argument
    path = os.environ.get("VKIT_MARKS_REPORT")
    if path:
        with open(path, "w") as fid:
            json.dump({"tests": TESTS[0], "leftovers": LEFTOVERS}, fid)
