#!/usr/bin/env python3
"""Regenerate the generated tables of DESIGN.md (between <!-- BEGIN:x --> / <!-- END:x --> markers) from
known_findings.json, mutants/RESULTS.json and seeded/*/meta.json."""
import glob
import json
import os
import re

VERIF = os.path.dirname(os.path.dirname(os.path.abspath(__file__)))


def esc(s: str) -> str:
    return " ".join(str(s).replace("|", "\\|").split())


def findings() -> str:
    kf = json.load(open(os.path.join(VERIF, "known_findings.json")))
    rows = ["| Prop | Mechanism key | What failed | Disposition |", "|---|---|---|---|"]
    for f in kf["findings"]:
        disp = "fixed `{}`".format(f["commit"]) if f["status"] == "fixed" else "**open** (KNOWN-FINDING line, see below)"
        rows.append("| {} | `{}` | {} | {} |".format(f["property"], f["key"].split("/", 1)[1], esc(f["what"]), disp))
    n_fixed = sum(1 for f in kf["findings"] if f["status"] == "fixed")
    n_open = sum(1 for f in kf["findings"] if f["status"] == "open")
    rows.append("")
    rows.append("{} entries: {} fixed, {} open.".format(len(kf["findings"]), n_fixed, n_open))
    return "\n".join(rows)


def keys_of(res: dict) -> str:
    out = []
    for chk, r in sorted(res.items()):
        ks = sorted({k.split("/", 1)[1] if "/" in k else k for k in r.get("keys", [])})
        out.append("{} exit {} ({})".format(chk, r.get("exit"), ", ".join(ks[:2])))
    return "; ".join(out)


def seeded() -> str:
    rows = ["| Seeded change | Round | Needs to manifest | Caught by | History |", "|---|---|---|---|---|"]
    n = missed = 0
    for d in sorted(glob.glob(os.path.join(VERIF, "seeded", "*"))):
        m = json.load(open(os.path.join(d, "meta.json")))
        n += 1
        hist = m.get("history", "")
        if "missed" in hist:
            missed += 1
        rows.append("| `{}` | {} | {} | {} | {} |".format(os.path.basename(d), m.get("round", 1), esc(m.get("needs_to_manifest", "")),
                                                       keys_of(m.get("detected_by", {})), esc(hist)))
    rows.append("")
    rows.append("{} seeded changes, all caught by the registered quick tiers now; {} were missed by the check as it stood when the "
                "change arrived.".format(n, missed))
    return "\n".join(rows)


def own() -> str:
    res = json.load(open(os.path.join(VERIF, "mutants", "RESULTS.json")))
    rows = ["| Mutant | Result | Violation key(s) |", "|---|---|---|"]
    bad = []
    for name in sorted(res):
        if name.startswith("seeded/"):
            continue
        if not os.path.exists(os.path.join(VERIF, "mutants", name + ".patch")):
            continue
        r = res[name]
        if "error" in r:
            bad.append(name)
            continue
        for chk, v in sorted(r.items()):
            ks = sorted({k.split("/", 1)[1] if "/" in k else k for k in v.get("keys", [])})
            rows.append("| `{}` | {} exit {} | {} |".format(name, chk, v["exit"], ", ".join(ks[:2])))
            if v["exit"] != 1:
                bad.append(name)
    rows.append("")
    rows.append("{} own mutants; not caught or stale: {}.".format(len(rows) - 3, ", ".join(bad) if bad else "none"))
    return "\n".join(rows)


def main() -> None:
    path = os.path.join(VERIF, "DESIGN.md")
    text = open(path).read()
    for name, fn in (("findings", findings), ("seeded", seeded), ("own-mutants", own)):
        pat = re.compile(r"(<!-- BEGIN:{} -->\n).*?(\n<!-- END:{} -->)".format(name, name), re.S)
        if not pat.search(text):
            raise SystemExit("marker missing: " + name)
        body = fn()
        text = pat.sub(lambda m: m.group(1) + body + m.group(2), text)  # pylint: disable=cell-var-from-loop
    open(path, "w").write(text)
    print("DESIGN.md tables regenerated")


if __name__ == "__main__":
    main()
