#!/usr/bin/env python3
"""Run every mutant (mutants/*.patch, seeded/*/patch.diff) against its target check(s) and write mutants/RESULTS.json + a table.

usage: mutmatrix.py [--tier quick] [--all-checks] [name-substring ...]
"""
import json
import os
import re
import subprocess
import sys
from concurrent.futures import ThreadPoolExecutor

VERIF = os.path.dirname(os.path.dirname(os.path.abspath(__file__)))
sys.path.insert(0, os.path.join(VERIF, "tools"))
import mut  # noqa: E402  pylint: disable=wrong-import-position

ALL = ["C{:02d}".format(i) for i in range(1, 21)]


def targets_of(name: str, meta: dict) -> list:
    if meta.get("property"):
        return [meta["property"]]
    m = re.match(r"c(\d\d)_", name)
    return ["C" + m.group(1)] if m else []


def run_one(job):
    name, patch, checks, tier = job
    try:
        dst = mut.scratch_copy()
        res = subprocess.run(["patch", "-p1", "-s", "-i", patch], cwd=dst, capture_output=True, text=True)
        if res.returncode != 0:
            return name, {"error": "patch does not apply: " + (res.stdout + res.stderr)[-300:]}
        out = {}
        env = dict(os.environ, VERIF_REPO=dst, VERIF_NO_EVIDENCE="1")
        for chk in checks:
            r = subprocess.run([mut.PY, "-m", "vkit", "check", chk, "--tier", tier], cwd=VERIF, env=env, capture_output=True, text=True)
            keys = sorted({ln.split("key=")[1].split(" what=")[0] for ln in r.stdout.splitlines() if "key=" in ln})
            out[chk] = {"exit": r.returncode, "keys": keys[:4]}
        return name, out
    finally:
        import shutil
        shutil.rmtree(os.path.dirname(dst), ignore_errors=True)


def main():
    args = sys.argv[1:]
    tier = "quick"
    if "--tier" in args:
        i = args.index("--tier")
        tier = args[i + 1]
        args = args[:i] + args[i + 2:]
    all_checks = "--all-checks" in args
    args = [a for a in args if not a.startswith("--")]
    jobs = []
    for fn in sorted(os.listdir(os.path.join(VERIF, "mutants"))):
        if fn.endswith(".patch"):
            name = fn[:-6]
            if args and not any(a in name for a in args):
                continue
            checks = ALL if all_checks else targets_of(name, {})
            jobs.append((name, os.path.join(VERIF, "mutants", fn), checks, tier))
    seeded = os.path.join(VERIF, "seeded")
    if os.path.isdir(seeded):
        for d in sorted(os.listdir(seeded)):
            p = os.path.join(seeded, d, "patch.diff")
            if os.path.exists(p):
                if args and not any(a in 'seeded/' + d for a in args):
                    continue
                meta = {}
                mp = os.path.join(seeded, d, "meta.json")
                if os.path.exists(mp):
                    meta = json.load(open(mp))
                checks = ALL if all_checks else targets_of(d, meta)
                jobs.append(("seeded/" + d, p, checks, tier))
    results = {}
    with ThreadPoolExecutor(max_workers=4) as ex:
        for name, out in ex.map(run_one, jobs):
            results[name] = out
            line = name + ": " + ", ".join("{}={}".format(c, v.get("exit")) for c, v in out.items() if isinstance(v, dict))
            print(line, flush=True)
    path = os.path.join(VERIF, "mutants", "RESULTS.json" if not all_checks else "RESULTS_all_checks.json")
    old = {}
    if os.path.exists(path) and args:
        old = json.load(open(path))
    old.update(results)
    json.dump(old, open(path, "w"), indent=1, sort_keys=True)


if __name__ == "__main__":
    main()
