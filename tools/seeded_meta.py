#!/usr/bin/env python3
"""Bring seeded/*/meta.json up to date from mutants/RESULTS.json (detected_by) and fill in round / how_to_run / history.

`history` is only written when missing; the texts for the changes that were missed at first are kept in HISTORY below.
"""
import json
import os
import re

VERIF = os.path.dirname(os.path.dirname(os.path.abspath(__file__)))

HISTORY = {
    "C06_r4_unary_plus_taken_for_identity": "missed at first (no unary + in the grammar); caught after the expression grammar gained "
    "unary + on bools/comparisons inside displayed calls",
    "C09_r4_error_instance_copied_on_second_raise": "missed at first (every instance was violated once); caught after the same error "
    "instance is violated a second and a third time and its identity compared",
    "C10_r4_flow_cached_in_context": "missed at first (all calls in one flow); caught after bodies start a thread with a copied context, "
    "a task and to_thread and the live marks are compared per flow",
    "C11_r4_sync_method_mark_left_active_after_fault": "missed at first (follow-up calls ran in the parent context only); caught after "
    "the live-mark monitor records (flow, target) after each faulted run and the follow-ups also run through a context copied during the call",
    "C12_r4_method_mark_not_deactivated_when_call_raises": "missed at first (histories only after successful calls); caught after the "
    "recycled-ident histories also start from a call which failed",
    "C13_r4_async_wrapper_drops_positional_only_filter": "missed at first (no positional-only parameter next to **kwargs); caught after "
    "the sync/async signature pairs were added",
    "C15_r4_coroutine_invariant_guard_is_an_assert": "missed at first (rejections not compared across modes); caught after the child "
    "compares eight rejection scenarios between normal, -O and -OO",
    "C16_r4_new_wrapper_ignores_inherited_init": "missed at first (no class inheriting __init__ from a grand-parent below an invariant "
    "added later); caught after the constructor chain Root/Mid/Leaf/LeafWithInit was added",
    "C17_r4_setattr_list_not_copied_for_late_decorated_subclass": "missed at first (invariants only added at class creation); caught "
    "after the histories gained the step 'decorate a finished subclass with an invariant'",
    "C18_r4_empty_filtered_invariant_lists_not_written": "missed at first (only __invariants__ compared); caught after the event-specific "
    "lists are compared with the documented list filtered by check_on",
    "C20_r4_invariant_ignores_its_a_repr": "missed at first (a_repr only on require/ensure); caught after the invariant scenarios with a "
    "default and a custom a_repr were added",
    "C01_r5_async_kwargs_from_call_positional_style": "missed at first (no positional-only parameter next to **kwargs in C01's own programs); "
    "caught after the family of special signatures (sync and async) with colliding keywords was added to C01",
    "C04_r5_property_base_loop_breaks_at_missing_accessor": "missed at first (every generated property had the accessor under test); caught "
    "after hierarchies re-define properties read-only in some classes",
    "C05_r5_defaulted_factory_parameters_not_supplied": "missed at first (the error factory had mandatory parameters only); caught after the "
    "factory got keyword-only parameters with defaults of their own",
    "C06_r5_all_counterexample_bypasses_a_repr": "missed at first (counter-examples were ints, whose repr is their configured repr); caught "
    "after all() runs over records with unsorted keys and rows longer than the repr limit",
    "C07_r5_speculative_guard_narrowed_to_builtin_errors": "missed at first (never-evaluated parts only raised built-in arithmetic/lookup errors); "
    "caught after helpers raising a user exception, RuntimeError and OSError were added to never-evaluated comprehension parts",
    "C08_r5_async_sync_capture_awaits_any_awaitable": "missed at first (captured values were never awaitable objects); caught after the scenario "
    "with captured __await__ objects and finished futures (identity of OLD.<name>, no await by the checker)",
    "C10_r5_first_phase_mark_reused_for_postconditions": "missed at first (bodies called other functions only once or twice, so the recursion "
    "stopped by itself); caught after the directed graphs in which the body calls another checked function every time",
    "C11_r5_new_wrapper_mark_left_active_when_new_raises": "missed at first (no class constructed by __new__ alone with a raising __new__); caught "
    "after the faulted-__new__ scenario (hand-written __new__, NamedTuple, unbindable calls)",
    "C12_r5_asyncio_module_looked_up_at_import": "missed at first (the harness always had asyncio imported before icontract); caught after the "
    "child processes with the three import orders",
    "C13_r5_async_method_unmarked_during_body": "missed at first (generated bodies never called members of the same object); caught after the "
    "nested pairs (a method calling public members of the same object while the invariant is temporarily broken)",
    "C15_r5_description_from_docstring": "missed at first (the child's condition functions had no docstrings, so -OO stripped nothing); caught "
    "after docstrings were added to them",
    "C16_r5_own_postconditions_not_deduplicated": "missed at first (no class created anew from its namespace, no decorator object used twice); "
    "caught after the re-created class scenario (type(cls)(...), dataclass(slots=True), shared decorator object)",
    "C18_r5_announcement_memoised_by_qualified_name": "missed at first (all generated classes had distinct qualified names); caught after the "
    "same-name program (class factory called three times, a name bound again, dataclass(slots=True), hand-made copy)",
    "C19_r5_reserved_kwarg_check_only_with_var_keyword": "missed at first (reserved keywords were only passed to callables with **kwargs and "
    "no condition read the placeholders); caught after calls on signatures without ** and conditions reading _ARGS/_KWARGS",
    "C20_r5_builtin_constants_shown": "missed at first (only arguments were checked for being left out); caught after the grammar names "
    "NotImplemented, Ellipsis and __debug__ and no entry may be keyed by a name of the builtins module",
    "C01_r6_contracts_deduplicated_across_precondition_groups": "missed at first (every generated contract was a decorator of its own); caught "
    "after overrides apply a precondition decorator object of an ancestor again (one contract in two groups)",
    "C06_r6_invariant_drops_its_a_repr": "missed at first (the oracle took the representer from what the library itself passed along); caught "
    "after a quarter of the contracts got a tight a_repr and the check demands the configured one",
    "C07_r6_placeholder_membership_test_in_displays": "missed at first (all values compared quietly); caught after list / tuple displays hold "
    "values whose __eq__ raises or gives a result without a truth value",
    "C10_r6_marks_keyed_by_code_object": "missed at first (every contracted function had a def of its own); caught after functions and "
    "classes made by one factory call each other from their conditions",
    "C11_r6_stale_set_written_back_after_pre_phase": "missed at first (the out-of-order scenario only suspended a call in a method body); "
    "caught after it also suspends calls in an awaited precondition and in an awaited capture - which then fired on the unchanged tree too "
    "(a residual defect of the same mechanism, repaired)",
    "C14_r6_invariant_wrapper_drops_dict_of_member": "missed at first (abstract members only in hierarchies without invariants); caught "
    "after the class twin with an abstract method and an abstract property under invariants",
    "C15_r6_result_argument_guard_only_in_debug": "missed at first (no argument named result / OLD in the cross-mode scenarios); caught after "
    "four such scenarios were added to the child",
    "C19_r6_variadic_condition_parameters_not_mandatory": "missed at first (invariant conditions only had plain surplus parameters); caught "
    "after conditions with *args, **kwargs and keyword-only parameters were added",
    "C20_r6_set_truncated_before_ordering": "missed at first (sets never exceeded the limit of 50 items); caught after sets of 49..120 "
    "strings were added to the arguments",
    "C02_r7_constructor_exemption_became_substring_test": "missed at first (member names were m1, m2, ...); caught after hierarchies "
    "use short names that are part of '__init____new__'",
    "C03_r7_mark_kept_when_constructor_body_raises": "missed at first (no constructor body raising followed by work on the same id); caught "
    "after the failed-construction scenario (the same object initialised again, fresh objects afterwards)",
    "C04_r7_reuse_recognised_by_nearest_definition_only": "missed at first (members were only re-used from the direct base); caught after the "
    "scenario in which a sub-class re-binds the grand-parent's function although its parent overrides it",
    "C05_r7_async_post_error_gets_condition_subset": "missed at first (postcondition and error factory took the same names); caught after the "
    "postcondition takes every second name only",
    "C06_r7_comprehension_parts_recomputed_in_enclosing_scope": "missed at first - by an oracle mistake: the fallback for comprehension parts "
    "evaluated their text in the outer scope and agreed with the wrong value; caught after the twin records the values of every iteration and "
    "the grammar displays calls of loop variables named like arguments / globals",
    "C07_r7_walrus_does_not_rebind_existing_name": "missed at first (walrus targets were fresh names); caught after the grammar re-binds a module "
    "global with :=",
    "C08_r7_property_base_snapshots_leak_between_accessors": "missed at first (the getter next to the accessor under test had no contracts); "
    "caught after it may carry a postcondition and a snapshot of its own",
    "C10_r7_new_wrapper_nested_test_ignores_owner": "missed at first by C10 (C03 caught the same change as an own mutant); caught after C10 "
    "constructs another object of the class inside __new__",
    "C12_r7_method_wrappers_write_stale_set_back": "missed at first (every task had a context of its own); caught after the scenario with two "
    "tasks sharing one context",
    "C14_r7_find_self_prefers_keyword_named_self": "missed at first (no keyword named self); caught after the class twin whose methods collect "
    "self=... in **kwargs",
    "C15_r7_documentation_asserts_in_slice_recomputation": "missed at first (slices had int bounds); caught after the cross-mode scenario with "
    "__index__ objects as slice bounds",
    "C17_r7_accept_all_list_shared_by_all_overrides": "missed at first (the needed history is rare at random); caught after the fixed histories "
    "that add a precondition afterwards to one of several overrides of accept-all members",
    "C01_r8_body_runs_marked_when_no_postconditions": "missed at first by C01 (no call of a function from its own body); caught after the "
    "recursion-from-body scenario (recursion, mutual recursion, the same method of another object; sync and async)",
    "C02_r8_mutable_defaults_copied_for_contracts": "missed at first (defaults were immutable tokens); caught after the scenario with list / dict / "
    "set defaults which the body changes",
    "C03_r8_shared_invariant_decorator_skips_wrapping": "missed at first (no decorator object applied to a class and its sub-class in C03); caught "
    "after the shared-decorator scenario",
    "C11_r8_speculative_guard_swallows_base_exceptions": "missed at first (conditions of the fault programs were plain probes without comprehensions); "
    "caught after user code is interrupted while the library re-computes a never-evaluated comprehension part",
    "C12_r8_setattr_fast_path_ignores_flow": "missed at first (other flows only called methods); caught after a task and a thread started in a method "
    "assign an attribute of the object",
    "C14_r8_init_unshadowing_lost": "missed at first by C14 (C04's constructor family covers the mechanism); caught after the diamond class twin",
    "C16_r8_find_checker_fast_path_misses_checker": "missed at first (the foreign decorator copied __dict__ and sat above all contracts); caught "
    "after its second guise (updated=()) and the position between the contract decorators",
    "C17_r8_metaclass_root_not_recognised_for_late_invariants": "missed at first (the late-invariant histories were rooted in DBC); caught after they "
    "also run with metaclass=DBCMeta roots",
    "C19_r8_reserved_parameter_check_moved_into_decorators": "missed at first (reserved names only on directly decorated callables); caught after "
    "overrides without contracts of their own in DBC hierarchies",
    "C05_r9_signature_cached_per_code_object": "missed at first (every function came from a def statement executed once); caught after the factory "
    "scenario: one def executed 2..4 times with default objects of its own each time (function, async, method, contracts applied afterwards)",
    "C06_r9_chained_comparison_stops_only_at_false_object": "missed at first (every comparison of the grammar answered with a bool); caught after "
    "the value class whose comparisons answer 1 / 0 / None / '' / [] was added to the grammar (also caught by C07)",
    "C08_r9_same_snapshot_object_applied_twice_accepted": "missed at first (duplicate names came from two decorator objects); caught after the misuse "
    "matrix applies one shared snapshot object twice to one function",
    "C09_r9_keyword_only_error_parameters_dropped": "missed at first (factories of C09 had positional-or-keyword parameters only); caught after a "
    "keyword-only marker is placed at a random position of the factory's parameter list",
    "C10_r9_sync_wrappers_ignore_the_task": "missed at first (asynchronous graphs were driven by hand outside an event loop, and re-entrant calls were "
    "only required to terminate); caught after every other asynchronous graph runs inside a task and the judge demands that a re-entrant call on "
    "an object in flight IS skipped (also caught by C13 after its nested pairs run inside a task)",
    "C11_r9_dead_marks_count_while_any_mark_is_active": "missed at first (faulted calls and their follow-ups ran at top level only); caught after a "
    "fifth of the faulted runs is repeated while another check of the flow is in progress (inside a condition, a capture, a method body)",
    "C12_r9_post_phase_writes_back_stale_mark_set": "missed at first (the first call of the shared-context scenario was a method without contracts "
    "of its own); caught after six kinds of first call (functions with pre / post / suspended in a capture or a condition) x two judged calls",
    "C13_r9_async_post_phase_reactivates_pruned_mark": "missed at first (no contract used the function it describes after the body had made other "
    "checked calls); caught after the re-entrant function pairs (fixed point, factorial, mutual recursion, method) were added",
    "C15_r9_disabled_invariant_wraps_members_for_inherited_invariants": "missed at first (disabled invariants only on classes without inherited "
    "invariants); caught after the plain sub-class of a class with an explicitly enabled invariant was added to the child program",
    "C17_r9_property_accept_all_reset_written_to_base_checker": "missed at first (random histories rarely join an accept-all base with a stating one "
    "and override a property); caught after 24 fixed join histories (6 member kinds x 2 base orders x 2 overrides)",
    "C18_r9_members_wrapped_by_last_invariant_events_only": "missed at first (invariants were judged by hand against the construction only); caught "
    "after the listed invariants of the event are evaluated by hand against an operation on an object that is already broken",
    "C19_r9_async_invariant_condition_behind_partial": "missed at first (no asynchronous condition behind functools.partial); caught after six more "
    "forms (partial of coroutine function / async generator / callable objects, bound async methods); re-created after the fix 2e69079",
    "C20_r9_representable_by_concrete_type_list": "missed at first (routines passed as arguments were a plain function, a bound method and a "
    "builtin); caught after a memoized function and raw staticmethod / classmethod objects were added to the arguments",
    "C01_r10_precondition_groups_of_the_last_base_only": "missed at first by C01 (its hierarchies were chains; C04 caught it); caught after two-base "
    "joins whose bases both state preconditions were added to C01's programs",
    "C03_r10_builtin_constructor_takes_the_new_wrapper": "missed at first (no class derived from a built-in with a constructor slot of its own); "
    "caught after list / dict / set / deque / bytearray / Exception sub-classes with invariants were added",
    "C05_r10_placeholders_resolved_only_when_flagged": "missed at first (a condition always asked for _ARGS / _KWARGS next to the factory); caught "
    "after functions whose error factory is the only one to ask, and overrides that inherit the asking condition",
    "C06_r10_builtin_named_variables_left_out": "missed at first (only parameters were named like built-ins); caught after module globals named "
    "like built-ins (input, license) joined the leaves of the grammar",
    "C07_r10_keyword_only_condition_defaults_forgotten": "missed at first (defaults of conditions were positional-or-keyword); caught after the "
    "corner conditions with keyword-only defaults named like built-ins / a global (C06 catches it too since half of its condition defaults "
    "are keyword-only)",
    "C09_r10_none_from_error_function_trips_assert": "missed at first (the non-exception a factory returned was always a string); caught after "
    "None, an exception class and 0 were added",
    "C10_r10_constructor_wrapper_of_the_own_class_always_checks": "missed at first (no explicit self.__init__() from a member); caught after the "
    "re-initialisation scenario (reset method, property) on a class and on a DBC sub-class inheriting the constructor",
    "C11_r10_stop_iteration_from_precondition_swallowed": "missed at first (StopIteration was not among the injected kinds); caught after "
    "StopIteration and AssertionError were added to them",
    "C12_r10_task_marks_honoured_outside_tasks": "missed at first (callbacks were only scheduled from sync methods after their return); caught after "
    "call_soon / call_later / add_done_callback callbacks registered from within a suspended async method",
    "C14_r10_find_checker_stops_at_first_bare_function": "missed at first by C14 (its foreign decorator copied __dict__); caught after its second "
    "guise (functools.wraps(func, updated=())) on concrete callables",
    "C15_r10_descriptor_rewrapped_before_enabled_test": "missed at first (decorators were applied to functions only); caught after require / ensure "
    "applied to a staticmethod object",
    "C17_r10_locals_anywhere_in_scope_excludes_reuse": "missed at first (all classes of the histories were made at module level); caught after "
    "fixed re-use histories whose classes are created inside function bodies",
    "C18_r10_captures_before_preconditions": "missed at first (captures never failed); caught after refused calls are repeated with captures that "
    "are not defined for refused arguments",
    "C19_r10_reserved_name_check_memoised_after_first_call": "missed at first (every misuse was the first call of its callable); caught after "
    "misuse calls that follow valid calls of the same callable",
    "C20_r10_condition_parameters_cached_per_code_object": "missed at first (every contract had a source text of its own); caught after three "
    "contracts made by one factory are violated in all six orders",
    "C01_r11_protected_members_skipped_by_the_metaclass": "missed at first (every generated member had a public name); caught after 8-10% of the "
    "members of the hierarchies got protected names (_m...)",
    "C02_r11_protected_members_skipped_by_the_metaclass": "missed at first (public member names only); caught after protected member names in the "
    "hierarchies (the model learnt that a protected deleter runs inside the wrapped __delattr__)",
    "C04_r11_object_defaults_never_count_as_inherited": "missed at first (no contracts on special methods that object provides defaults for); caught "
    "after the scenario with postconditions on __str__ / __hash__ / __format__ / __eq__ inherited by overrides",
    "C06_r11_string_literal_rows_off_by_one": "missed at first (multi-line literals only in C07's layouts, where the text is compared, not the values); "
    "caught after 30 indented decorators whose lambda measures a multi-line literal / f-string",
    "C07_r11_margin_as_spaces_only": "missed at first (all layouts were indented by blanks); caught after two layouts indented by tabs",
    "C08_r11_captures_outside_the_suspension": "missed at first (no capture called the function it belongs to); caught after the self-referring "
    "captures (a query asked for its own value, the same function on another argument; sync and async)",
    "C09_r11_invariant_error_function_with_defaulted_parameters_refused": "missed at first (invariant factories took self or nothing); caught after "
    "they got defaulted extra parameters like the factories of the other contracts",
    "C11_r11_exceptions_of_overruled_groups_swallowed": "missed at first (the fault programs had one precondition group); caught after a sub-class "
    "which adds a group of its own to the faulted method",
    "C12_r11_flow_keyed_by_task_name": "missed at first (tasks had their default names); caught after the tasks of the import-order children carry "
    "the name of the task that spawns them",
    "C13_r11_wrapper_kind_chosen_by_the_unwrapped_function": "missed at first (no adapter between contracts and function that changes the kind of "
    "the callable); caught after the async-adapter pairs",
    "C15_r11_disabled_snapshot_refused_above_enabled_require": "missed at first (a disabled pair was never stacked on an explicitly enabled "
    "precondition); caught after the mixed-enablement item of the child program",
    "C16_r11_groups_deduplicated_by_condition_function": "missed at first (every contract had a condition function of its own); caught after the "
    "hierarchy whose groups state the same predicate function with different errors",
    "C17_r11_find_checker_steps_behind_partial": "missed at first (only functions and members were decorated afterwards); caught after steps that "
    "decorate functools.partial objects binding existing functions and methods",
    "C18_r11_getattr_treated_like_setattr": "missed at first by C18 (C03 caught the same change; no generated class defined __getattr__); caught after "
    "look-ups through a state-changing __getattr__ are judged by hand",
    "C19_r11_async_reserved_name_error_raised_outside_the_try": "missed at first (a refused call was never repeated); caught after the misuse call is "
    "made again after its TypeError was swallowed",
    "C05_r12_signature_of_the_innermost_function": "missed at first (no decorator between contracts and function that declares __signature__, no "
    "contracts on bound methods); caught after the adapted-signature scenario",
    "C09_r12_async_error_of_overruled_group_created": "missed at first (the programs of C09 had one precondition group; C04 covers the sync twin); "
    "caught after the two-group scenario with a counting and a sloppy factory on the overruled group, sync and async",
    "C13_r12_async_wrapper_forgets_variadic_reserved_names": "missed at first by C13 (C19 has the misuse, unpaired); caught after the pairs with "
    "*result / **OLD / **result which the call leaves empty or fills",
    "C15_r12_disabled_invariant_validates_its_arguments": "missed at first (disabled invariants only had arguments an enabled one accepts too); caught "
    "after disabled invariants with an asynchronous condition and with an invalid error",
    "C18_r12_decorator_announces_dbc_class_again": "missed at first (the recording hook wrapped the default one, which keeps the library's own memory "
    "fed); caught after a scenario that REPLACES the hook",
    "C19_r12_falsy_error_argument_taken_for_none": "missed at first (invalid error arguments were all truthy); caught after 0, '', False, () and {}",
    "C01_r13_dead_marks_honoured_while_another_check_runs": "missed at first by C01 (C10 and C11 caught its twins); caught after several calls of one "
    "function are made inside a method body of a class with invariants and inside a condition of another function",
    "C02_r13_has_member_looks_two_levels_up_only": "missed at first (gaps were one class long); caught after chains of five with two or three "
    "classes in a row that do not override the member",
    "C04_r13_module_level_function_taken_for_a_member_of_another_class": "missed at first (every override was written in its class body); caught after "
    "overrides assigned in the class body (module-level function, factory-made function, lambda, property(getter))",
    "C10_r13_post_phase_writes_the_set_read_at_the_start": "missed at first by C10 (C12 caught its twin in round 9); caught after suspended calls "
    "finish, driven by hand, while a condition that re-enters its function is evaluated",
    "C14_r13_deferring_new_looks_for_own_init_only": "missed at first (the classes below a class without constructor defined their constructors "
    "themselves); caught after a class which only inherits the constructor a sub-class added",
}


def main() -> None:
    results = json.load(open(os.path.join(VERIF, "mutants", "RESULTS.json")))
    seeded = os.path.join(VERIF, "seeded")
    for d in sorted(os.listdir(seeded)):
        mp = os.path.join(seeded, d, "meta.json")
        if not os.path.exists(mp):
            continue
        meta = json.load(open(mp))
        res = results.get("seeded/" + d)
        if isinstance(res, dict) and "error" not in res:
            meta["detected_by"] = {c: v for c, v in res.items() if v.get("exit") == 1}
        m = re.match(r"C\d\d_r(\d)_", d)
        meta.setdefault("round", int(m.group(1)) if m else 1)
        meta.setdefault(
            "how_to_run",
            "git -C /repo apply /verif/seeded/{}/patch.diff && /venv/bin/python -m vkit check {}; git -C /repo checkout -- .".format(
                d, meta["property"]
            ),
        )
        if "history" not in meta:
            meta["history"] = HISTORY.get(d, "caught by the registered quick check at first run")
        json.dump(meta, open(mp, "w"), indent=1)
        if not meta.get("detected_by"):
            print("NOT DETECTED:", d)


if __name__ == "__main__":
    main()
