#!/usr/bin/env python3
"""Re-validate every seeded change against the current /repo: patch applies with `git apply --check`, the demo passes on the
unchanged tree and fails on the changed one. (The repository's suite is run by import_seeded.py at import time.)"""
import glob
import os
import shutil
import subprocess
import sys

sys.path.insert(0, os.path.dirname(os.path.abspath(__file__)))
import mut  # noqa: E402  pylint: disable=wrong-import-position

VERIF = mut.VERIF
bad = 0
for d in sorted(glob.glob(os.path.join(VERIF, "seeded", "*"))):
    patch = os.path.join(d, "patch.diff")
    demos = [f for f in ("demo.py", "demo.sh") if os.path.exists(os.path.join(d, f))]
    name = os.path.basename(d)
    chk = subprocess.run(["git", "-C", "/repo", "apply", "--check", patch], capture_output=True, text=True)
    if chk.returncode != 0:
        print(name, "PATCH DOES NOT APPLY", chk.stderr[:200])
        bad += 1
        continue
    demo = os.path.join(d, demos[0])
    meta_path = os.path.join(d, "meta.json")
    if os.path.exists(meta_path):
        import json  # pylint: disable=import-outside-toplevel

        demo = os.path.join(d, json.load(open(meta_path)).get("demo", demos[0]))
    cmd = ["bash", demo] if demo.endswith(".sh") else [mut.PY, demo]
    base = subprocess.run(cmd, env=dict(os.environ, PYTHONPATH="/repo"), cwd=d, capture_output=True, text=True, timeout=300)
    dst = mut.patched_copy(patch)
    try:
        changed = subprocess.run(cmd, env=dict(os.environ, PYTHONPATH=dst), cwd=d, capture_output=True, text=True, timeout=300)
    finally:
        shutil.rmtree(os.path.dirname(dst), ignore_errors=True)
    ok = base.returncode == 0 and changed.returncode != 0
    print(name, "ok" if ok else "BAD base={} changed={}".format(base.returncode, changed.returncode))
    bad += 0 if ok else 1
sys.exit(1 if bad else 0)
