#!/usr/bin/env python3
"""Regenerate /verif/MANIFEST.json from the table below (a property is claimed only when vkit/checks/<id>.py exists)."""
import json
import os

VERIF = os.path.dirname(os.path.dirname(os.path.abspath(__file__)))

ENGINES = [
    {"name": "fn", "path": "vkit/gen.py, vkit/prog.py, vkit/probe.py, vkit/model.py, vkit/runner.py",
     "serves_properties": ["C01", "C02", "C08", "C09", "C13", "C16", "C18", "C19"],
     "kind_free_text": "generated contracted callables of every kind rendered to real source files, executed under instrumented "
                       "conditions/captures/bodies/error factories; event trace judged against an executable reference model"},
    {"name": "cls", "path": "vkit/gen.py (dag_shapes, hier_program), vkit/model.py",
     "serves_properties": ["C03", "C04", "C16", "C17", "C18"],
     "kind_free_text": "generated classes and DBC inheritance DAGs, definition histories, invariants; same probes and model"},
    {"name": "sig", "path": "vkit/checks/c05.py, vkit/checks/c14.py", "serves_properties": ["C05", "C14"],
     "kind_free_text": "bounded-exhaustive signatures x call shapes; oracle inspect.signature().bind and the body's own view"},
    {"name": "expr", "path": "vkit/exprs.py", "serves_properties": ["C06", "C07", "C20"],
     "kind_free_text": "generated condition expressions, CPython ground truth via an instrumented twin, message parser"},
    {"name": "script", "path": "vkit/checks/c10.py, c11.py, c12.py, vkit/sched.py", "serves_properties": ["C10", "C11", "C12"],
     "kind_free_text": "scripted probes: re-entry call graphs, fault injection at every hand-over, gate scheduler for tasks/threads"},
    {"name": "proc", "path": "vkit/checks/c15.py, c20.py", "serves_properties": ["C15", "C20"],
     "kind_free_text": "subprocess matrix over interpreter mode, environment and hash seed"},
]

# id -> (category, technique, level text, level note, design ref)
CHECKS = {
    "C01": ("exploration", "runtime monitoring: instrumented conditions/bodies, DNF reference model, all truth assignments",
            "Every generated call (all callable kinds x sync/async x stacks x inherited groups x surroundings x all truth assignments "
            "with truthy/falsy objects) is executed on the real library; the monitor observes body/condition/capture events and the "
            "error identity and compares with the model's DNF verdict. Bounded-exhaustive over the small products, sampled beyond.",
            "Holds only for the executions produced; trusted: vkit/model.py DNF semantics, probes see all evaluations.", "3/C01"),
    "C02": ("exploration", "runtime monitoring: identity-tracking probes for result/arguments/OLD, CNF reference model",
            "Real calls with hostile results and raised exception kinds; the monitor checks by object identity what postconditions, "
            "error factories and the caller received, and the exact postcondition trace against the model.",
            "Executions produced only; trusted: model CNF semantics, harness tokens are unique objects.", "3/C02"),
    "C03": ("exploration", "runtime monitoring: invariant-probe log with constructor enter/exit markers judged against the statement's clauses",
            "Generated class chains (flavours, constructor styles incl. super().__init__ at any position, invariants with every "
            "check_on in every order, split over base and subclasses) driven through construction and every operation kind with truth "
            "sequences that flip between before and after; the monitor sees which invariants ran, on which object, in which construction "
            "phase, and whether the member body ran.",
            "Executions produced only; silent zones (slot wrappers of object, evaluation after a raising body, non-DBC subclasses) not generated.", "3/C03"),
    "C04": ("exploration", "runtime monitoring: verdicts of calls on instances of every class of generated inheritance DAGs vs. a DNF/CNF reference over the declaration",
            "All DAG shapes up to 3 classes (thorough: all 4-class shapes) x member kinds x per-class contract placement x invariants, "
            "foreign decorators, metaclass-attribute names, constructor programs and rejection programs; every call is judged by whether "
            "the body ran and whose error surfaced, class creation by its exception.",
            "Executions produced only; evaluation order is C16's business; snapshots along two diamond paths are a silent zone.", "3/C04"),
    "C05": ("exploration", "runtime monitoring: identity of objects received by probes vs. the body and vs. inspect.signature().bind",
            "Bounded-exhaustive: all signatures up to 4 (thorough 5) named parameters x all call shapes Python accepts, plus sampled wide "
            "signatures; every probe (precondition, snapshot, postcondition, error factory) logs the objects it received, compared by "
            "identity with what the body received and what Python's binder computes; foreign names must give TypeError.",
            "Executions produced only; exhaustive inside the stated bound; variadic parameter names themselves are a silent zone.", "3/C05"),
    "C06": ("exploration", "runtime monitoring: hooked repr_values / violation messages judged against values recorded by an instrumented twin of the same condition executed by CPython",
            "Generated condition expressions (typed grammar, depth <=4, shadowed builtins, None-bound arguments, function parameters "
            "shadowing condition variables, closures) rendered into real files; every `X was V` entry of every generated message is "
            "compared with the value CPython computed for that sub-expression text; completeness of names/attributes/calls/subscripts/"
            "comprehensions and of call arguments; first falsifying assignment of all().",
            "Executions produced only; f-string fields, class/function-valued results and comprehension-local values are silent zones.", "3/C06"),
    "C07": ("exploration", "runtime monitoring: exception class at the caller, condition text recovered by the library (hooked) vs. generated expression, counting probes inside conditions vs. CPython's own evaluation",
            "Guarded conditions with falsifying inputs and counting probes x four error forms, and a 30-layout matrix of decorator "
            "source layouts (plus invariant layouts): the violation must surface as the configured error with location/description/"
            "condition text that parses to the generated expression, and message building must not run probes CPython skipped.",
            "Executions produced only; silent zones: lambdas outside decorators, inline lambdas, string literals resembling def/class.", "3/C07"),
    "C08": ("exploration", "runtime monitoring: capture events positioned in the probe log, OLD identity, definition-time misuse matrix",
            "Capture multiplicity/position judged on the observed event log for generated callables and hierarchies; OLD objects "
            "compared by identity with what captures returned; misuse programs must raise at definition.",
            "Executions produced only; trusted: model's snapshot rules.", "3/C08"),
    "C09": ("exploration", "runtime monitoring: exception type/identity/args at the caller, counting and identity-tracking error factories",
            "Full product error form x role x callable kind x sync/async x condition form, factories over every subset of nameable "
            "values incl. non-exception returns; invalid error arguments on every decorator. The monitor inspects the exception "
            "object the caller catches and the factory's received objects.",
            "Executions produced only; exhaustive over the listed finite product (factory subsets sampled beyond 24/64).", "3/C09"),
    "C10": ("exploration", "runtime monitoring: online monitor over the dynamic stack of probes and invocations, recursion-limit sanitizer",
            "Random finite call graphs among contracted functions/methods/objects where every probe runs a script of further calls "
            "(contract probes also with unlimited budgets); each invocation is judged from its own observed context by the statement's "
            "exemption rule; termination under a lowered recursion limit and an event budget.",
            "Executions produced only; breadth blow-ups beyond the event budget are abandoned (counted), watchdog = inconclusive.", "3/C10"),
    "C11": ("fault_enumeration", "runtime monitoring with fault injection at every hand-over from the library to user code (counting probes), state hook on the in-progress set, follow-up probe calls judged by the model",
            "A clean run enumerates every control-transfer point of a call (conditions, invariants, captures, error factories, body, "
            "truth tests, argument reprs, awaits); every point x exception kind (incl. BaseException kinds, CancelledError thrown in "
            "and coroutine.close() at awaits) is injected; the monitor checks the in-progress set is restored, follow-up calls match "
            "the fresh-state model exactly, and the injected exception surfaces (or is chained).",
            "Exhaustive over the points of the generated programs; the set of programs is sampled. Hook: icontract._checkers._IN_PROGRESS "
            "(read only; if absent the behavioural monitor still decides).", "3/C11"),
    "C12": ("exploration", "runtime monitoring under controlled schedules: gate director enumerating release orders for asyncio tasks and threads, plus free-running stress with switch interval 1e-6 and sys.monitoring LINE yield injection",
            "Configurations of 2..3 concurrent calls x context-inheritance modes; probes park at gates inside conditions and bodies and a "
            "director releases one at a time along depth-first enumerated choice sequences (exhaustive for the quick configurations); "
            "the stress tier samples statement-level preemption inside the checker module. Every call's verdict is compared with its "
            "sequential verdict.",
            "Gate-level interleavings are enumerated, statement-level ones sampled; watchdog firing = inconclusive.", "3/C12"),
    "C13": ("exploration", "runtime monitoring: differential event traces of paired def / async def renderings of the same program under identical probes",
            "Each generated program is rendered twice and driven with identical truth assignments and body scripts; the monitor compares "
            "the probe logs and outcomes of the two renderings and both against the model; async-only condition forms are mixed into "
            "the async twin; coroutine contracts on sync callables must raise ValueError.",
            "Executions produced only; deterministic trampoline instead of an event loop.", "3/C13"),
    "C14": ("exploration", "runtime monitoring: differential run of contracted callables/classes against their undecorated twins, identity and metadata probes",
            "Callables over sampled C05 signatures x kinds x decorator stacks with interleaved foreign decorators and abstractmethod: "
            "identity of arguments/result/exception, metadata, __wrapped__ chain, contract list ownership, foreign decorators run once; "
            "19 class programs x DBC/no DBC x 4 invariant settings compared operation-by-operation with the undecorated twin.",
            "Executions produced only; message wording of exceptions is not compared; members added around object's slot wrappers are a silent zone.", "3/C14"),
    "C15": ("exploration", "runtime monitoring in subprocesses: interpreter mode x ICONTRACT_SLOW matrix, object identity and event counters",
            "The same instrumented program is executed under python, -O and -OO with ICONTRACT_SLOW unset/empty/non-empty; the child "
            "reports identity of decorated vs. original objects, attribute sets, probe events, verdicts and messages; the parent "
            "judges each (item, configuration) and compares enabled=True items across modes.",
            "Exhaustive over the 9 (thorough 15) configurations x 60 items; trusted: subprocess isolation.", "3/C15"),
    "C17": ("exploration", "runtime monitoring: conservation of introspection lists and probe-call traces of earlier entities over definition histories",
            "Random histories of class/function definitions (siblings, chains, joins, diamonds; invariants of every check_on in any order; "
            "overriding members); after every step every earlier entity's lists and the traces of a fixed probe battery are re-observed "
            "and must equal what was recorded when it was defined.",
            "Histories produced only; contents and behaviour are judged, list identity is not.", "3/C17"),
    "C18": ("exploration", "runtime monitoring: introspected lists vs. reference model, hand evaluation vs. real call verdicts, recording registration hook",
            "For generated hierarchies and functions: the innermost list carrier on the __wrapped__ chain vs. find_checker and vs. the model's "
            "effective contracts; an integrator-style manual evaluator vs. the real call over all truth assignments; a recording wrapper "
            "on the registration hook; contracts added through add_*_to_checker after first use.",
            "Executions produced only; keyword-style calls as in the documented recipe.", "3/C18"),
    "C19": ("exploration", "runtime monitoring: exception class and moment (definition vs call) of generated misuse programs, body-event counters",
            "Finite misuse matrix (reserved names, result/OLD, invariant signatures, coroutine invariants, snapshot placement, invalid "
            "errors) x decorator x callable kind, each with positive controls; exhaustive.",
            "Exhaustive over the stated matrix; silent zones listed in DESIGN.md.", "3/C19"),
    "C16": ("exploration", "runtime monitoring: full event trace vs. the reference model's exact sequence",
            "Exact order of every probe event and identity of the surfaced error compared with the model over DAG shapes x kinds x "
            "truth assignments with several falsy contracts.",
            "Executions produced only; diamonds compared modulo per-path repetition; optional events where the statement is silent.", "3/C16"),
    "C20": ("exploration", "runtime monitoring in subprocesses across PYTHONHASHSEED values: byte comparison of repeated / permuted / re-run violation messages, instrumented a_repr logging every request",
            "Generated violations are raised 3x interleaved with unrelated ones, with up to 24 keyword-argument permutations, and re-run in "
            "4 subprocesses with different hash seeds; the monitor compares all messages byte for byte, checks sortedness of entries, that "
            "every rendered value was produced by the contract's own (logging) a_repr, and that classes/functions/methods/modules/builtins "
            "and unnamed _ARGS/_KWARGS never key an entry.",
            "Executions produced only; memory addresses inside a displayed _KWARGS are masked when comparing across processes.", "3/C20"),
}


def main() -> None:
    props = [json.loads(line) for line in open(os.path.join(VERIF, "properties.jsonl")) if line.strip()]
    checks = []
    not_applicable = []
    from_table = dict(CHECKS)
    extra_path = os.path.join(VERIF, "tools", "checks_table.json")
    if os.path.exists(extra_path):
        from_table.update({k: tuple(v) for k, v in json.load(open(extra_path)).items()})
    for p in props:
        pid = p["id"]
        have = os.path.exists(os.path.join(VERIF, "vkit", "checks", pid.lower() + ".py"))
        if have and pid in from_table:
            cat, tech, text, note, ref = from_table[pid]
            checks.append({
                "property_id": pid,
                "quick_cmd": "/venv/bin/python -m vkit check {} --tier quick".format(pid),
                "thorough_cmd": "/venv/bin/python -m vkit check {} --tier thorough".format(pid),
                "evidence_file": "/verif/evidence/{}.json".format(pid),
                "replay_cmd_template": "/venv/bin/python -m vkit replay {path}",
                "engine": next((e["name"] for e in ENGINES if pid in e["serves_properties"]), "fn"),
                "level_claimed": {"category": cat, "text": text, "design_ref": "DESIGN.md section " + ref},
                "level_note": note,
                "technique": tech,
            })
        else:
            not_applicable.append({"property_id": pid, "reason": "no check registered for this property"})
    manifest = {
        "version": 1,
        "setup_cmd": "/venv/bin/python -m compileall -q vkit",
        "hooks": {
            "guard": "ICONTRACT_VERIF",
            "enable": "no hooks in /repo are needed: all monitors are harness-side probes and import-time wrapping in the harness process; "
                      "checks import icontract from /repo's working tree (VERIF_REPO overrides the path for mutant validation)",
            "baseline_off_cmd": "cd /repo && /venv/bin/python -m pytest -ra -q -p no:cacheprovider --timeout=900 --continue-on-collection-errors",
            "source_commits": [],
            "add_only": True,
        },
        "engines": ENGINES,
        "checks": checks,
        "notes": "Runtime monitoring only (see DESIGN.md). Exit codes: 0 held on what was observed, 1 violation (VIOLATION line + replay), "
                 "2 inconclusive (deciding monitor not reached / watchdog). known_findings.json lists genuine defects (open / fixed).",
        "not_applicable": not_applicable,
    }
    with open(os.path.join(VERIF, "MANIFEST.json"), "w") as fid:
        json.dump(manifest, fid, indent=1)
        fid.write("\n")
    print("claimed:", [c["property_id"] for c in checks])
    print("not claimed:", [n["property_id"] for n in not_applicable])


if __name__ == "__main__":
    main()
