#!/usr/bin/env python3
"""Rebase a patch on the current /repo tree: apply it with patch(1) (fuzz allowed) in a scratch copy and write `git diff` back.

usage: rebase_patch.py <patchfile>...   (seeded/*/patch.diff keeps the first original as patch.original.diff)
"""
import os
import shutil
import subprocess
import sys

sys.path.insert(0, os.path.dirname(os.path.abspath(__file__)))
import mut  # noqa: E402  pylint: disable=wrong-import-position


def main() -> None:
    for path in sys.argv[1:]:
        path = os.path.abspath(path)
        dst = mut.scratch_copy()
        try:
            subprocess.run(["git", "init", "-q"], cwd=dst, check=True)
            subprocess.run(["git", "add", "-A"], cwd=dst, check=True)
            subprocess.run(["git", "-c", "user.email=a@b", "-c", "user.name=a", "commit", "-qm", "base"], cwd=dst, check=True)
            res = subprocess.run(["patch", "-p1", "-s", "--no-backup-if-mismatch", "-i", path], cwd=dst, capture_output=True, text=True)
            if res.returncode != 0:
                print("FAILED", path, res.stdout[-300:], res.stderr[-300:])
                continue
            diff = subprocess.run(["git", "diff"], cwd=dst, check=True, capture_output=True, text=True).stdout
            if os.path.basename(path) == "patch.diff":
                orig = os.path.join(os.path.dirname(path), "patch.original.diff")
                if not os.path.exists(orig):
                    shutil.copy(path, orig)
            open(path, "w").write(diff)
            print("rebased", path)
        finally:
            shutil.rmtree(os.path.dirname(dst), ignore_errors=True)


if __name__ == "__main__":
    main()
