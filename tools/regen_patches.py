#!/usr/bin/env python3
"""Re-create patches (mutants and seeded changes) whose context went stale after a `fix:` commit in /repo.

Each entry describes the change *semantically* as a list of (relative file, old text, new text[, occurrence]) replacements on the
CURRENT source of /repo. Running the script rewrites the patch file as a unified diff against the current tree (seeded patches keep
their first original as patch.original.diff). An entry whose old text is not found is reported - the definition has to be updated.

usage: regen_patches.py [name-substring ...]
"""
import os
import shutil
import subprocess
import sys
import tempfile

VERIF = os.path.dirname(os.path.dirname(os.path.abspath(__file__)))
REPO = "/repo"

CHK = "icontract/_checkers.py"
META = "icontract/_metaclass.py"
REPR = "icontract/_represent.py"

NEW_CALL = '''            if (
                new_func is object.__new__
                and len(args) > 0
                and getattr(args[0], "__init__", object.__init__)
                is not object.__init__
            ):
'''

ASYNC_BLOCK = '''                mark = _Mark(flow, id(instance))

                # ExitStack is not used here due to performance.
                #
                # The mark is registered inside the try-block: an interrupt (*e.g.*, KeyboardInterrupt) which arrives
                # right after the registration must not leave the mark active for good.
                try:
                    _IN_PROGRESS.set(in_progress | {mark})

                    for invariant in invariants:
                        _assert_invariant(contract=invariant, instance=instance)

                    result = await func(*args, **kwargs)
'''

DEFS = {
    # ---------------------------------------------------------------------------------------------- meta-class
    "seeded/C02_r2_postconditions_deduplicated_by_location": [
        (META, "    return _unique_by_identity(base_postconditions + postconditions)\n",
         '''    # A postcondition reaches the function once per inheritance path (*e.g.*, twice in a diamond hierarchy).
    # Keep only the first occurrence so that it is not evaluated over and over again.
    collapsed = []  # type: List[Contract]
    seen_locations = set()  # type: Set[str]

    for contract in base_postconditions + postconditions:
        if contract.location is not None:
            if contract.location in seen_locations:
                continue

            seen_locations.add(contract.location)

        collapsed.append(contract)

    return collapsed
'''),
    ],
    "seeded/C08_r3_same_named_snapshots_from_two_bases_deduplicated": [
        (META, '''    collapsed = _unique_by_identity(base_snapshots + snapshots)

    for snap in collapsed:
        if snap.name in seen_names:''',
         '''    collapsed = []  # type: List[Snapshot]

    # A snapshot can reach the class over more than one base (*e.g.*, in a diamond), keep it only once.
    for snap in base_snapshots:
        if snap.name not in seen_names:
            seen_names.add(snap.name)
            collapsed.append(snap)

    for snap in snapshots:
        if snap.name in seen_names:'''),
        (META, '''        seen_names.add(snap.name)

    return collapsed
''', '''        seen_names.add(snap.name)
        collapsed.append(snap)

    return collapsed
'''),
    ],
    "mutants/c16_own_post_before_inherited": [
        (META, "    return _unique_by_identity(base_postconditions + postconditions)\n",
         "    return _unique_by_identity(postconditions + base_postconditions)\n"),
    ],
    "mutants/c17_post_alias_and_inplace": [
        (META, "    return _unique_by_identity(base_postconditions + postconditions)\n",
         "    base_postconditions += postconditions\n    return base_postconditions\n"),
        (META, "                    base_postconditions.extend(base_contract_checker.__postconditions__)\n",
         '''                    if not base_postconditions:
                        base_postconditions = base_contract_checker.__postconditions__
                    else:
                        base_postconditions = base_postconditions + base_contract_checker.__postconditions__
'''),
    ],
    "mutants/c17_pre_groups_alias": [
        (META, '''    collapsed = []  # type: List[List[Contract]]
    seen_groups = set()  # type: Set[Tuple[int, ...]]
    for group in [list(group) for group in base_preconditions] + preconditions:
        # The same group which is inherited along several paths is still a single group.
        group_signature = tuple(id(contract) for contract in group)
        if group_signature not in seen_groups:
            seen_groups.add(group_signature)
            collapsed.append(group)

    return collapsed
''', "    base_preconditions.extend(preconditions)\n    return base_preconditions\n"),
        (META, "                    base_preconditions.extend(base_contract_checker.__preconditions__)\n",
         "                    base_preconditions = base_preconditions or base_contract_checker.__preconditions__\n"),
    ],
    "mutants/c17_fix_precondition_groups_copied_reverted": [
        (META, "    for group in [list(group) for group in base_preconditions] + preconditions:\n",
         "    for group in base_preconditions + preconditions:\n"),
    ],
    # ---------------------------------------------------------------------------------------------- __new__ wrapper
    "seeded/C03_r3_new_wrapper_tests_requested_class": [
        (CHK, "        mark = None  # type: Optional[_Mark]\n        if len(args) > 0 and not nested:\n",
         '''        # Determine only once whether the class which is being instantiated defines a constructor.
        has_init = (
            len(args) > 0
            and getattr(args[0], "__init__", object.__init__) is not object.__init__
        )

        mark = None  # type: Optional[_Mark]
        if len(args) > 0 and not nested:
'''),
        (CHK, NEW_CALL, "            if new_func is object.__new__ and has_init:\n"),
        (CHK, '''        if instance.__class__.__init__ is not object.__init__:
            # The object is complete only once __init__ has run; the wrapper around __init__ checks the invariants.
''', '''        if has_init:
            # The object is complete only once __init__ has run; the wrapper around __init__ checks the invariants.
'''),
    ],
    "mutants/c03_fix_new_wrapper_reverted": [
        (CHK, NEW_CALL + '''                # A derived class defines __init__: the remaining arguments are meant for it. ``object.__new__``
                # accepts them only as long as __new__ is not overridden, which this very wrapper does.
                instance = new_func(args[0])
            else:
                instance = new_func(*args, **kwargs)
''', "            instance = new_func(*args, **kwargs)\n"),
        (CHK, '''        if instance.__class__.__init__ is not object.__init__:
            # The object is complete only once __init__ has run; the wrapper around __init__ checks the invariants.
            return instance

''', ""),
    ],
    "mutants/c03_fix_nested_new_reverted": [
        (CHK, "                    nested = True\n                    break\n", "                    break\n"),
    ],
    "mutants/c03_fix_sibling_new_reverted": [
        (CHK, "                    and other.owner is not wrapper\n", ""),
    ],
    # ---------------------------------------------------------------------------------------------- checker wrappers
    "seeded/C10_r2_sync_capture_outside_suspension": [
        (CHK, '''                if violation_error is not None:
                    raise violation_error

                # Capture the snapshots
                if postconditions and snapshots:
                    resolved_kwargs["OLD"] = _capture_old(
                        snapshots=snapshots, resolved_kwargs=resolved_kwargs, func=func
                    )
            finally:
                mark.active = False

''', '''                if violation_error is not None:
                    raise violation_error
            finally:
                mark.active = False

            # Capture the snapshots
            if postconditions and snapshots:
                resolved_kwargs["OLD"] = _capture_old(
                    snapshots=snapshots, resolved_kwargs=resolved_kwargs, func=func
                )

'''),
    ],
    "seeded/C10_reentry_strips_outer_mark": [
        (CHK, '''            if _is_in_progress(in_progress, flow, id_of_func):
                return func(*args, **kwargs)

            mark = _Mark(flow, id_of_func)

            # Use try-finally instead of ExitStack for performance.
            try:
                _IN_PROGRESS.set(in_progress | {mark})
''', '''            mark = _Mark(flow, id_of_func)

            # Use try-finally instead of ExitStack for performance.
            try:
                # If the wrapper is already checking the contracts for the wrapped function, avoid a recursive loop
                # by skipping any subsequent contract checks for the same function.
                if _is_in_progress(in_progress, flow, id_of_func):
                    return func(*args, **kwargs)

                _IN_PROGRESS.set(in_progress | {mark})
'''),
        (CHK, '''                    resolved_kwargs["OLD"] = _capture_old(
                        snapshots=snapshots, resolved_kwargs=resolved_kwargs, func=func
                    )
            finally:
                mark.active = False
''', '''                    resolved_kwargs["OLD"] = _capture_old(
                        snapshots=snapshots, resolved_kwargs=resolved_kwargs, func=func
                    )
            finally:
                # The function itself must run unmarked (see below), whatever the conditions left behind.
                for other in in_progress:
                    if other.flow == flow and other.target == id_of_func:
                        other.active = False

                mark.active = False
'''),
    ],
    "mutants/c10_fix_body_suspension_reverted": [
        (CHK, '''                    resolved_kwargs["OLD"] = _capture_old(
                        snapshots=snapshots, resolved_kwargs=resolved_kwargs, func=func
                    )
            finally:
                mark.active = False
''', '''                    resolved_kwargs["OLD"] = _capture_old(
                        snapshots=snapshots, resolved_kwargs=resolved_kwargs, func=func
                    )
            except BaseException:
                mark.active = False
                raise
'''),
        (CHK, '''            result = func(*args, **kwargs)

            if not postconditions:
                return result
''', '''            try:
                result = func(*args, **kwargs)
            finally:
                mark.active = False

            if not postconditions:
                return result
'''),
    ],
    "mutants/c10_restore_empty_instead_of_previous": [
        # the marks of the enclosing checks are lost when a check finishes
        (CHK, '''                return result
            finally:
                mark.active = False

    # Copy __doc__ and other properties so that doctests can run''', '''                return result
            finally:
                mark.active = False
                _IN_PROGRESS.set(frozenset())

    # Copy __doc__ and other properties so that doctests can run'''),
    ],
    "mutants/c11_async_checker_except_exception": [
        (CHK, '''                    resolved_kwargs["OLD"] = await _capture_old_async(
                        snapshots=snapshots, resolved_kwargs=resolved_kwargs
                    )
            finally:
                mark.active = False
''', '''                    resolved_kwargs["OLD"] = await _capture_old_async(
                        snapshots=snapshots, resolved_kwargs=resolved_kwargs
                    )
                mark.active = False
            except Exception:
                mark.active = False
                raise
'''),
    ],
    "mutants/c11_sync_inv_wrapper_except_exception": [
        (CHK, '''                    return result
                finally:
                    mark.active = False
''', '''                    mark.active = False
                    return result
                except Exception:
                    mark.active = False
                    raise
''', 2),
    ],
    "mutants/c11_fix_no_write_back_reverted": [
        # every finished check writes the set it found at its start back to the context variable again
        (CHK, "                mark.active = False\n\n            # The contract checking is suspended only while",
         "                mark.active = False\n                _IN_PROGRESS.set(in_progress)\n\n            # The contract checking is suspended only while", "all"),
        (CHK, "                    return result\n                finally:\n                    mark.active = False\n",
         "                    return result\n                finally:\n                    mark.active = False\n                    _IN_PROGRESS.set(in_progress)\n", "all"),
        (CHK, "                return result\n            finally:\n                mark.active = False\n",
         "                return result\n            finally:\n                mark.active = False\n                _IN_PROGRESS.set(in_progress)\n", "all"),
    ],
    "mutants/c11_fix_prune_dead_marks_reverted": [
        # the marks of the calls which are over are kept for ever (they are never honoured, but they pile up)
        (CHK, """    if all(mark.active for mark in in_progress):
        return in_progress

    return frozenset(mark for mark in in_progress if mark.active)
""", """    return in_progress
"""),
    ],
    "mutants/c18_announced_twice": [
        (META, """            if hasattr(cls, "__invariants__"):
                icontract._checkers.add_invariant_checks(cls=cls)
""", """            if hasattr(cls, "__invariants__"):
                icontract._checkers.add_invariant_checks(cls=cls)
                if cls.__module__ != __name__:
                    _register_for_hypothesis(cls)
""", 2),
    ],
    "mutants/c11_fix_mark_registered_inside_try_reverted": [
        # the sync method wrapper registers its mark before the try-block again
        (CHK, """                mark = _Mark(flow, id(instance))

                # ExitStack is not used here due to performance.
                #
                # The mark is registered inside the try-block: an interrupt (*e.g.*, KeyboardInterrupt) which arrives
                # right after the registration must not leave the mark active for good.
                try:
                    _IN_PROGRESS.set(in_progress | {mark})

                    for invariant in invariants:
                        _assert_invariant(contract=invariant, instance=instance)

                    result = func(*args, **kwargs)
""", """                mark = _Mark(flow, id(instance))
                _IN_PROGRESS.set(in_progress | {mark})

                # ExitStack is not used here due to performance.
                try:
                    for invariant in invariants:
                        _assert_invariant(contract=invariant, instance=instance)

                    result = func(*args, **kwargs)
"""),
    ],
    "mutants/c13_async_inv_no_before_check": [
        (CHK, """                    _IN_PROGRESS.set(in_progress | {mark})

                    for invariant in invariants:
                        _assert_invariant(contract=invariant, instance=instance)

                    result = await func(*args, **kwargs)
""", """                    _IN_PROGRESS.set(in_progress | {mark})

                    result = await func(*args, **kwargs)
"""),
    ],
    "seeded/C03_r5_async_pre_check_outside_try": [
        (CHK, ASYNC_BLOCK, """                mark = _Mark(flow, id(instance))
                _IN_PROGRESS.set(in_progress | {mark})

                for invariant in invariants:
                    _assert_invariant(contract=invariant, instance=instance)

                # ExitStack is not used here due to performance.
                try:
                    result = await func(*args, **kwargs)
"""),
    ],
    "seeded/C11_ctor_body_outside_try": [
        (CHK, """            mark = _Mark(flow, id(instance))

            # ExitStack is not used here due to performance.
            #
            # The mark is registered inside the try-block: an interrupt (*e.g.*, KeyboardInterrupt) which arrives
            # right after the registration must not leave the mark active for good.
            try:
                _IN_PROGRESS.set(in_progress | {mark})

                result = func(*args, **kwargs)

""", """            mark = _Mark(flow, id(instance))
            _IN_PROGRESS.set(in_progress | {mark})

            result = func(*args, **kwargs)

            # ExitStack is not used here due to performance.
            try:
"""),
    ],
    "mutants/c04_fix_lazy_error_of_violated_group_reverted": [
        # the error of every violated group is created at once again (sync)
        (CHK, """            if not_check(check=check, contract=contract):
                violated = contract
                break
""", """            if not_check(check=check, contract=contract):
                violated = contract
                _create_violation_error(contract=contract, resolved_kwargs=resolved_kwargs)
                break
""", 2),
    ],
    "mutants/c04_fix_copy_shadow_reverted": [
        # the definition which Python would have found without the copies is not used: the copy hides the override of a sibling again
        (CHK, """            ) and not _is_copy_of(copy=value, original=native):
                value = native
                unshadowed.add(name)
""", """            ) and not _is_copy_of(copy=value, original=native):
                pass
"""),
    ],
    "mutants/c07_fix_all_by_identity_reverted": [
        ("icontract/_recompute.py", "                func is builtins.all  # (an identity: an arbitrary callable may compare equal to anything)\n",
         "                func == builtins.all  # pylint: disable=comparison-with-callable\n"),
        ("icontract/_recompute.py", "        assert func is builtins.all\n", "        assert func == builtins.all  # pylint: disable=comparison-with-callable\n"),
    ],
    "mutants/c07_fix_empty_closure_cell_reverted": [
        (REPR, """            try:
                closure_dict[freevar] = cell.cell_contents
            except ValueError:
                # The cell is empty: the variable of the enclosing scope is not bound (yet). The condition
                # can not have read it either, so there is no value to be represented.
                continue
""", """            closure_dict[freevar] = cell.cell_contents
"""),
    ],
    "mutants/c03_fix_setattr_by_bound_name_reverted": [
        (CHK, """            is_setattr=(name == "__setattr__"),
""", ""),
    ],
    "mutants/c03_call_wrappers_read_all_invariants": [
        (CHK, """                    if is_setattr
                    else "__invariants_on_call__",
""", """                    if is_setattr
                    else "__invariants__",
""", 2),
    ],
    "seeded/C13_r2_async_method_checks_setattr_invariants": [
        (CHK, """                invariants = getattr(
                    instance.__class__,
                    "__invariants_on_setattr__"
                    if is_setattr
                    else "__invariants_on_call__",
                    (),
                )
""", """                # ``__setattr__`` can not be a coroutine function, so there is no need to select the invariants
                # by the kind of the member here (as opposed to the sync wrapper below).
                invariants = instance.__class__.__invariants__
"""),
    ],
    "mutants/c15_fix_property_guard_reverted": [
        (META, """                if not isinstance(base_property, property):
                    # (raised explicitly: the refusal must not depend on the interpreter mode, cf. ``python -O``)
                    raise AssertionError(
                        "Expected base {} to have {} as property, but got: {}".format(
                            base, key, base_property
                        )
                    )
""", """                assert isinstance(
                    base_property, property
                ), "Expected base {} to have {} as property, but got: {}".format(
                    base, key, base_property
                )
"""),
    ],
    "mutants/c20_fix_reproducible_set_order_reverted": [
        ("icontract/_globals.py", "aRepr = _ReproducibleRepr()  # pylint: disable=invalid-name\n", "aRepr = reprlib.Repr()  # pylint: disable=invalid-name\n"),
    ],
    "seeded/C20_r3_default_maxdeque_not_raised": [
        ("icontract/_globals.py", """aRepr.maxdict = 50
aRepr.maxlist = 50
aRepr.maxtuple = 50
aRepr.maxset = 50
aRepr.maxfrozenset = 50
aRepr.maxdeque = 50
aRepr.maxarray = 50
aRepr.maxstring = 256
aRepr.maxother = 256
""", """
# All the containers share the same limit on the number of the represented items ...
for _container_limit in (
    "maxdict",
    "maxlist",
    "maxtuple",
    "maxset",
    "maxfrozenset",
    "maxdequeue",
    "maxarray",
):
    setattr(aRepr, _container_limit, 50)

# ... and so do the strings and the remaining objects on the number of the represented characters.
for _text_limit in ("maxstring", "maxother"):
    setattr(aRepr, _text_limit, 256)
"""),
    ],
    "mutants/c14_fix_new_as_static_method_reverted": [
        (CHK, """                setattr(cls, "__new__", staticmethod(wrapper))
""", """                setattr(cls, "__new__", wrapper)
"""),
    ],
    "mutants/c04_fix_ctor_copy_shadow_reverted": [
        # the constructor found without the copies is not used: the copy of an inherited constructor hides the sibling's again
        (CHK, """                    new_func = native
                    unshadowed.add("__new__")
""", """                    pass
"""),
        (CHK, """            if wrapper is not init_func or "__init__" in unshadowed:
                if wrapper is not init_func and "__init__" not in cls.__dict__:
                    setattr(wrapper, "__is_inherited_copy__", True)

                setattr(cls, "__init__", wrapper)
""", """            if wrapper is not init_func:
                setattr(cls, "__init__", wrapper)
"""),
    ],
    "mutants/c16_fix_invariant_added_once_reverted": [
        ("icontract/_decorators.py", "        if not any(existing is self._invariant for existing in invariants):\n", "        if True:\n"),
    ],
    "mutants/c11_fix_marks_read_anew_at_post_phase_reverted": [
        (CHK, "                _IN_PROGRESS.set(_get_in_progress() | {mark})\n", "                _IN_PROGRESS.set(in_progress | {mark})\n", "all"),
    ],
    "seeded/C10_r5_first_phase_mark_reused_for_postconditions": [
        (CHK, """            mark = _Mark(flow, id_of_func)

            try:
                # The marks are read anew: the function might have been suspended in the meantime and resumed
                # while another check is in progress in this context (whose mark must be kept).
                _IN_PROGRESS.set(_get_in_progress() | {mark})

                if postconditions:
""", """            # The mark of the first phase is still in the set of the context (a finished check does not write
            # the set back, see ``_Mark``), so it is switched on again instead of making and registering a second one.
            mark.active = True

            try:
                if postconditions:
""", "all"),
    ],
    "mutants/c20_fix_partial_order_sets_reverted": [
        # the reproducible order is only used again when the plain sort fails
        ("icontract/_globals.py", """        try:
            return sorted(
                items,
                key=lambda item: (type(item).__name__, self.repr1(item, level - 1)),
            )
""", """        try:
            return sorted(items)
        except Exception:  # pylint: disable=broad-except
            pass

        try:
            return sorted(
                items,
                key=lambda item: (type(item).__name__, self.repr1(item, level - 1)),
            )
"""),
    ],
    "seeded/C20_r6_set_truncated_before_ordering": [
        ("icontract/_globals.py", "import os\nimport reprlib\n", "import itertools\nimport os\nimport reprlib\n"),
        ("icontract/_globals.py", """    def _in_reproducible_order(self, items: Iterable[Any], level: int) -> List[Any]:
""", """    def _in_reproducible_order(self, items: Iterable[Any], level: int, limit: int = 10 ** 9) -> List[Any]:
"""),
        ("icontract/_globals.py", """        try:
            return sorted(
                items,
                key=lambda item: (type(item).__name__, self.repr1(item, level - 1)),
            )
""", """        # Only ``limit`` items are shown. We order thus at most ``limit + 1`` items (the surplus item makes ``reprlib``
        # append the ellipsis) instead of computing the sort keys for all the items of a possibly huge set.
        items = list(itertools.islice(items, limit + 1))

        try:
            return sorted(
                items,
                key=lambda item: (type(item).__name__, self.repr1(item, level - 1)),
            )
"""),
        ("icontract/_globals.py", "        return super().repr_set(self._in_reproducible_order(x, level), level)  # type: ignore\n",
         "        return super().repr_set(self._in_reproducible_order(x, level, self.maxset), level)  # type: ignore\n"),
        ("icontract/_globals.py", "        return super().repr_frozenset(self._in_reproducible_order(x, level), level)  # type: ignore\n",
         "        return super().repr_frozenset(self._in_reproducible_order(x, level, self.maxfrozenset), level)  # type: ignore\n"),
    ],
    "mutants/c14_fix_setstate_like_constructor_reverted": [
        (CHK, """            is_init=(name == "__setstate__"),
""", """            is_init=False,
"""),
    ],
    "mutants/c07_fix_blank_after_at_sign_reverted": [
        (REPR, '_DECORATOR_RE = re.compile(r"^\\s*@\\s*(?:[^\\W\\d]|\\()")\n', '_DECORATOR_RE = re.compile(r"^\\s*@(?:[^\\W\\d])")\n'),
    ],
    "mutants/c07_fix_non_ascii_decorator_name_reverted": [
        (REPR, '_DECORATOR_RE = re.compile(r"^\\s*@\\s*(?:[^\\W\\d]|\\()")\n', '_DECORATOR_RE = re.compile(r"^\\s*@\\s*[a-zA-Z_(]")\n'),
    ],
    "mutants/c07_fix_more_candidates_reverted": [
        (REPR, "            (i for i in range(lineno, -1, -1) if _DECORATOR_RE.match(lines[i])), 16\n", "            (i for i in range(lineno, -1, -1) if _DECORATOR_RE.match(lines[i])), 3\n"),
    ],
    "mutants/c07_decorator_re_max_4_blanks": [
        (REPR, '_DECORATOR_RE = re.compile(r"^\\s*@\\s*(?:[^\\W\\d]|\\()")\n', '_DECORATOR_RE = re.compile(r"^\\s{0,12}@\\s*(?:[^\\W\\d]|\\()")\n'),
    ],
    "mutants/c20_fix_method_wrappers_left_out_reverted": [
        (REPR, "        and not isinstance(value, _METHOD_WRAPPER_TYPE)\n", ""),
    ],
    "mutants/c07_fix_condition_without_name_reverted": [
        (REPR, '    return getattr(a_function, "__name__", None) == "<lambda>"\n', '    return a_function.__name__ == "<lambda>"\n'),
    ],
    "mutants/c07_fix_common_prefix_of_private_names_reverted": [
        (REPR, """        if common:
            prefixes = prefixes & common
""", ""),
    ],
    "mutants/c07_fix_private_name_by_name_reverted": [
        # the private part of a mangled name is taken to start at the FIRST double underscore again (wrong for class names
        # and private names which contain a double underscore themselves)
        (REPR, """            if name.endswith(private)
            and len(name) > len(private) + 1
""", """            if name.endswith(private)
            and name.find("__", 1) == len(name) - len(private)
            and len(name) > len(private) + 1
"""),
    ],
    "mutants/c07_fix_last_operand_not_truth_tested_reverted": [
        ("icontract/_recompute.py", """            if i == len(node.values) - 1:
                # The last operand is the result whatever it is. Python does not ask for its truth value,
                # and there might be none (*e.g.*, ``flag and an_array > 0``).
                break

""", ""),
    ],
    "mutants/c19_fix_async_condition_in_disguise_reverted": [
        ("icontract/_decorators.py", "            or inspect.isasyncgenfunction(invoked)\n", ""),
    ],
    "mutants/c19_async_inv_accepted_unless_call": [
        ("icontract/_decorators.py", """                    or inspect.isasyncgenfunction(getattr(invoked, "__call__", None))
                )
            )
        ):
""", """                    or inspect.isasyncgenfunction(getattr(invoked, "__call__", None))
                )
            )
        ) and check_on == InvariantCheckEvent.CALL:
"""),
    ],
    "mutants/c14_fix_unreadable_class_attribute_reverted": [
        (CHK, """        try:
            value = getattr(cls, name)
        except AttributeError:
            # An entry of the directory need not be readable on the class itself (*e.g.*, a descriptor which is
            # defined only for the instances). There is nothing to be decorated then.
            continue
""", """        value = getattr(cls, name)
"""),
    ],
    # ---------------------------------------------------------------------------------------------- precondition groups
    "mutants/c01_skip_last_of_long_group": [
        (CHK, "        for contract in group:\n", "        for contract in (group[:-1] if len(group) > 2 else group):\n", 2),
    ],
    "seeded/C01_async_nonlast_group_error_skipped": [
        (CHK, "    for group in preconditions:\n        violated = None\n", "    for i, group in enumerate(preconditions):\n        violated = None\n"),
        (CHK, """            if not_check(check=check, contract=contract):
                violated = contract
                break
""", """            if not_check(check=check, contract=contract):
                # Only the violation of the last group is ever reported to the caller. Spare the book-keeping
                # for the preceding groups.
                if i == len(preconditions) - 1:
                    violated = contract
                break
"""),
    ],
    "seeded/C19_r9_async_invariant_condition_behind_partial": [
        ("icontract/_decorators.py", """        invoked = condition  # type: Any
        while isinstance(invoked, functools.partial):
            invoked = invoked.func

        if (
            inspect.iscoroutinefunction(invoked)
            or inspect.isasyncgenfunction(invoked)
            or (
                not inspect.isfunction(invoked)
                and not inspect.ismethod(invoked)
                and (
                    inspect.iscoroutinefunction(getattr(invoked, "__call__", None))
                    or inspect.isasyncgenfunction(getattr(invoked, "__call__", None))
                )
            )
        ):
""", """        #
        # Determine first what is actually run when the condition is called, and examine only that.
        invoked = condition  # type: Any
        if not inspect.isfunction(condition) and not inspect.ismethod(condition):
            invoked = getattr(condition, "__call__", None)

        if inspect.iscoroutinefunction(invoked) or inspect.isasyncgenfunction(invoked):
"""),
    ],
    "mutants/c19_fix_partial_looked_through_reverted": [
        ("icontract/_decorators.py", """        while isinstance(invoked, functools.partial):
            invoked = invoked.func
""", ""),
    ],
    "mutants/c17_fix_function_of_another_class_merged_again": [
        (META, """    if _is_defined_in_another_class(namespace=namespace, func=func):
        return

""", ""),
    ],
    "mutants/c17_fix_accessor_of_another_class_merged_again": [
        (META, """        if _is_defined_in_another_class(namespace=namespace, func=func):
            continue

""", ""),
    ],
    "mutants/c06_fix_assigned_in_list_comprehension_not_read_back": [
        ("icontract/_recompute.py", """        if not isinstance(node, ast.GeneratorExp):
            self._name_to_value.update(read_assigned())
            return result
""", """        if not isinstance(node, ast.GeneratorExp):
            return result
"""),
    ],
    "mutants/c06_fix_assigned_in_generator_expression_not_read_back": [
        ("icontract/_recompute.py", """        return propagating_assigned()
""", """        return result
"""),
    ],
    "mutants/c07_fix_format_spec_pasted_into_format_string_again": [
        ("icontract/_recompute.py", """            return format(
                converted,
                "" if recomputed_format_spec is None else recomputed_format_spec,
            )
""", """            return ("{:" + ("" if recomputed_format_spec is None else recomputed_format_spec) + "}").format(converted)
"""),
    ],
    "mutants/c07_fix_double_star_through_items_again": [
        ("icontract/_recompute.py", """                        for key in kw.keys():
                            val = kw[key]
""", """                        for key, val in kw.items():
"""),
    ],
    "mutants/c14_fix_special_method_copies_call_the_default_again": [
        (CHK, """        if name not in cls.__dict__ and func is getattr(object, name, None):
            func = _defer_to_next_in_mro(cls=cls, name=name, default=func)

""", ""),
    ],
    "mutants/c14_fix_new_copy_calls_object_new_again": [
        (CHK, """            if new_func is object.__new__ and "__new__" not in cls.__dict__:
                new_func = _defer_new_to_next_in_mro(cls=cls)

""", ""),
    ],
    "mutants/c06_fix_duplicate_keyword_reverted": [
        ("icontract/_recompute.py", """                            if key in kwargs:
                                # Python does not merge the keyword arguments silently either.
                                raise TypeError(
                                    "{}() got multiple values for keyword argument {!r}".format(
                                        getattr(func, "__name__", func), key
                                    )
                                )

""", ""),
        ("icontract/_recompute.py", """                    if keyword.arg in kwargs:
                        raise TypeError(
                            "{}() got multiple values for keyword argument {!r}".format(
                                getattr(func, "__name__", func), keyword.arg
                            )
                        )

""", ""),
    ],
    "seeded/C06_r2_fstring_ascii_conversion_as_repr": [
        ("icontract/_recompute.py", """            elif node.conversion == 114:
                converted = repr(recomputed_value)
            elif node.conversion == 97:
                converted = ascii(recomputed_value)
""", """            elif node.conversion in (114, 97):
                # Both ``!r`` and ``!a`` format the representation of the value.
                converted = repr(recomputed_value)
"""),
    ],
    "mutants/c10_fix_instance_marked_after_new_reverted": [
        (CHK, """        instance_mark = _Mark(flow, id(instance))
        try:
            _IN_PROGRESS.set(_get_in_progress() | {instance_mark})

            for invariant in getattr(instance.__class__, "__invariants__", ()):
                _assert_invariant(contract=invariant, instance=instance)
        finally:
            instance_mark.active = False
""", """        for invariant in getattr(instance.__class__, "__invariants__", ()):
            _assert_invariant(contract=invariant, instance=instance)
"""),
    ],
    "mutants/c15_fix_constructor_kind_guard_reverted": [
        (CHK, """            if not inspect.isfunction(value) and not isinstance(
                value, _SLOT_WRAPPER_TYPE
            ):
                raise AssertionError(
""", """            if __debug__ and not inspect.isfunction(value) and not isinstance(
                value, _SLOT_WRAPPER_TYPE
            ):
                raise AssertionError(
"""),
    ],
    "mutants/c06_fix_assigned_names_known_to_the_representation_reverted": [
        (REPR, """            variable_lookup=variable_lookup + [assigned_names],
""", """            variable_lookup=variable_lookup,
"""),
    ],
    "seeded/C03_r9_invariant_list_cached_per_wrapper": [
        (CHK, """        if inspect.iscoroutinefunction(func):

            async def wrapper(*args, **kwargs):  # type: ignore
                \"\"\"Wrap a function of a class by checking the invariants *before* and *after* the invocation.\"\"\"
""", """        invariants = None  # type: Optional[Any]

        if inspect.iscoroutinefunction(func):

            async def wrapper(*args, **kwargs):  # type: ignore
                \"\"\"Wrap a function of a class by checking the invariants *before* and *after* the invocation.\"\"\"
"""),
        (CHK, """                invariants = getattr(
                    instance.__class__,
                    "__invariants_on_setattr__"
                    if is_setattr
                    else "__invariants_on_call__",
                    (),
                )
""", """                # The lists of the invariants are only ever appended to (they are never re-bound), so that
                # they have to be looked up only at the first call.
                nonlocal invariants
                invariants = invariants or getattr(
                    instance.__class__,
                    "__invariants_on_setattr__"
                    if is_setattr
                    else "__invariants_on_call__",
                    (),
                )
""", "all"),
    ],
    "mutants/c14_fix_borrowed_member_needs_invariant_lists_again": [
        (CHK, """                invariants = getattr(
                    instance.__class__,
                    "__invariants_on_setattr__"
                    if is_setattr
                    else "__invariants_on_call__",
                    (),
                )
""", """                invariants = (
                    instance.__class__.__invariants_on_setattr__
                    if is_setattr
                    else instance.__class__.__invariants_on_call__
                )
""", "all"),
    ],
    "mutants/c07_fix_helper_names_of_their_own_reverted": [
        ("icontract/_recompute.py", """            read_assigned_name = "icontract_read_assigned_{}".format(unique)
            assigned_name = "icontract_assigned_{}".format(unique)
""", """            read_assigned_name = "read_assigned"
            assigned_name = "assigned"
"""),
    ],
    "mutants/c14_fix_deferring_new_names_its_first_parameter_again": [
        (CHK, """    def deferring(*args: Any, **kwargs: Any) -> Any:
        \"\"\"Call the ``__new__`` which follows the class holding the copy in the method resolution order.\"\"\"
        # (The class is not taken as a named parameter: any name might be a keyword of the constructor.)
        klass = args[0]
""", """    def deferring(klass: Any, *more: Any, **kwargs: Any) -> Any:
        \"\"\"Call the ``__new__`` which follows the class holding the copy in the method resolution order.\"\"\"
        args = (klass,) + more
"""),
    ],
    "mutants/c14_fix_borrowed_constructor_needs_invariant_lists_again": [
        (CHK, """                for invariant in getattr(instance.__class__, "__invariants__", ()):
                    _assert_invariant(contract=invariant, instance=instance)

                return result
""", """                for invariant in instance.__class__.__invariants__:
                    _assert_invariant(contract=invariant, instance=instance)

                return result
"""),
    ],
    "seeded/C03_r7_mark_kept_when_constructor_body_raises": [
        (CHK, """                result = func(*args, **kwargs)

                # (A constructor might be re-used as-is in an unrelated class, ``__init__ = Contracted.__init__``.
""", """                result = func(*args, **kwargs)
            except Exception:
                # The constructor failed, so the object has never been constructed. It stays marked: whatever is still
                # called on the half-built object on the way out (*e.g.*, ``__del__`` or the clean-up of the caller)
                # must not check the invariants which were never established.
                raise
            except BaseException:
                mark.active = False
                raise

            try:
                # (A constructor might be re-used as-is in an unrelated class, ``__init__ = Contracted.__init__``.
"""),
    ],
    "mutants/c14_fix_borrowed_deferring_copy_reverted": [
        (CHK, """        if not isinstance(args[0], cls):
            # The copy has been re-used as-is in an unrelated class (``__eq__ = Contracted.__eq__``): there is no class
            # to defer to, and what has been re-used is the default itself.
            return default(*args, **kwargs)

""", ""),
    ],
    "seeded/C04_r3_async_pre_returns_at_first_failed_group": [
        (CHK, """            if not_check(check=check, contract=contract):
                violated = contract
                break
""", """            if not_check(check=check, contract=contract):
                return _create_violation_error(
                    contract=contract, resolved_kwargs=resolved_kwargs
                )
"""),
    ],
    "seeded/C13_async_pre_returns_at_first_failed_group": [
        (CHK, """            if not_check(check=check, contract=contract):
                violated = contract
                break
""", """            if not_check(check=check, contract=contract):
                violated = contract

                return _create_violation_error(
                    contract=violated, resolved_kwargs=resolved_kwargs
                )
"""),
    ],
    "seeded/C16_async_plain_conditions_sorted_first": [
        (CHK, """async def _assert_preconditions_async(
""", """def _is_coroutine_condition(contract: Contract) -> bool:
    \"\"\"Check whether the condition of the contract has to be awaited.\"\"\"
    return inspect.iscoroutinefunction(contract.condition)


async def _assert_preconditions_async(
"""),
        (CHK, "        for contract in group:\n", """        # Check the plain conditions before the coroutine functions: they are cheap and spare us the suspension
        # of the caller if the group is violated anyhow.
        for contract in sorted(group, key=_is_coroutine_condition):
"""),
        (CHK, "    for contract in postconditions:\n", """    # Check the plain conditions before the coroutine functions: they are cheap and spare us the suspension
    # of the caller if a postcondition is violated anyhow.
    for contract in sorted(postconditions, key=_is_coroutine_condition):
"""),
    ],
    "seeded/C16_r3_satisfied_group_moved_to_front": [
        (CHK, "    for group in preconditions:\n        violated = None\n", "    for i, group in enumerate(preconditions):\n        violated = None\n", "all"),
        (CHK, """        if violated is None:
            break
""", """        if violated is None:
            # The groups are OR'ed and the callers tend to satisfy the very same group over and over again,
            # so try that group first the next time.
            if i > 0:
                preconditions.insert(0, preconditions.pop(i))
            break
""", "all"),
    ],
    # ---------------------------------------------------------------------------------------------- decorator source
    "mutants/c07_fix_under_indented_decorator_line_reverted": [
        (REPR, '''    decorator_text = "".join(
        line[len(margin) :] if line.startswith(margin) and i not in literal_lines else line
        for i, line in enumerate(decorator_lines)
    ) + "def dummy_{}(): pass".format(uuid.uuid4().hex)
''', '''    decorator_text = __import__("textwrap").dedent("".join(decorator_lines)) + "def dummy_{}(): pass".format(
        uuid.uuid4().hex
    )
'''),
    ],
    "mutants/c07_fix_look_alike_lines_reverted": [
        (REPR, '''    for decorator_lineno in start_candidates:
        for decorator_end_lineno in end_candidates:
''', '''    for decorator_lineno in start_candidates[:1]:
        for decorator_end_lineno in end_candidates[:1]:
'''),
    ],
}


def make_diff(rel: str, before: str, after: str) -> str:
    tmp = tempfile.mkdtemp(prefix="regen_")
    try:
        for side, text in (("a", before), ("b", after)):
            path = os.path.join(tmp, side, rel)
            os.makedirs(os.path.dirname(path))
            with open(path, "w") as fid:
                fid.write(text)
        return subprocess.run(["diff", "-u", "a/" + rel, "b/" + rel], cwd=tmp, capture_output=True, text=True).stdout
    finally:
        shutil.rmtree(tmp, ignore_errors=True)


def main() -> int:
    wanted = sys.argv[1:]
    rc = 0
    for name, edits in DEFS.items():
        if wanted and not any(x in name for x in wanted):
            continue
        sources = {}
        ok = True
        for edit in edits:
            rel, old, new = edit[:3]
            occurrence = edit[3] if len(edit) > 3 else 1
            text = sources.get(rel)
            if text is None:
                text = open(os.path.join(REPO, rel)).read()
                sources.setdefault(rel + "@orig", text)
            if old not in text:
                print("STALE DEFINITION", name, "- text not found in", rel, ":", repr(old[:70]))
                ok = False
                break
            if occurrence == "all":
                text = text.replace(old, new)
            else:
                idx = -1
                for _ in range(occurrence):
                    idx = text.index(old, idx + 1)
                text = text[:idx] + new + text[idx + len(old):]
            sources[rel] = text
        if not ok:
            rc = 1
            continue
        diff = "".join(make_diff(rel, sources[rel + "@orig"], text) for rel, text in sources.items() if not rel.endswith("@orig"))
        if name.startswith("seeded/"):
            path = os.path.join(VERIF, name, "patch.diff")
            orig = os.path.join(VERIF, name, "patch.original.diff")
            if not os.path.exists(orig):
                shutil.copy(path, orig)
        else:
            path = os.path.join(VERIF, name + ".patch")
        with open(path, "w") as fid:
            fid.write(diff)
        chk = subprocess.run(["git", "-C", REPO, "apply", "--check", path], capture_output=True, text=True)
        print("regenerated" if chk.returncode == 0 else "REGENERATED BUT DOES NOT APPLY", name, chk.stderr.strip()[:100])
        rc = rc or chk.returncode
    return rc


if __name__ == "__main__":
    sys.exit(main())
